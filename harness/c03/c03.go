// Package c03: every forwarded UDP datagram is authenticated, attributed and intact.
//
// Engine Q: all operation sequences up to depth d over a menu of client datagrams (valid
// under each cipher, wrong key, other listed key on a live association, bit-flipped,
// truncated, bad address, disallowed destination) and target replies, run on the real
// packet handler (package udpx); the oracle is model-free about lifetimes: whether a
// client's association exists is observed on the vnet sockets, everything else is decided
// by the statement. Engine E: datagram and reply sizes up to the buffer limits.
package c03

import (
	"strings"
	"bytes"
	"encoding/hex"
	"encoding/json"
	"fmt"
	"net"
	"strconv"
	"time"

	"verif/engine"
	"verif/harness/hk"
	"verif/harness/udpx"
	"verif/harness/world"
	"verif/rt/vrt"
)

const natTimeout = 5 * time.Minute

// sockAddrOf builds the SOCKS address of a sender by hand (the reference for "true sender address").
func sockAddrOf(a *net.UDPAddr) []byte {
	var out []byte
	if ip4 := a.IP.To4(); ip4 != nil {
		out = append([]byte{1}, ip4...)
	} else {
		out = append([]byte{4}, a.IP.To16()...)
	}
	return append(out, byte(a.Port>>8), byte(a.Port))
}

type assoc struct {
	key  *world.Key
	port string
}

// Oracle checks a whole trace against the statement of C03 (and the creation clause of C04).
func Oracle(tr *udpx.Trace, unit string, limitStrict int) (string, []*engine.Finding) {
	var fs []*engine.Finding
	add := func(sig, format string, a ...any) {
		fs = append(fs, &engine.Finding{Sig: sig, Msg: fmt.Sprintf(format, a...)})
	}
	assocs := map[int]*assoc{}
	salts := map[string]int{}
	obs := ""
	for i, st := range tr.Steps {
		op := st.Op
		if st.Skipped {
			continue
		}
		srvSend := 0
		for _, ev := range st.Net {
			if ev.Kind == "udp.sendto" && (ev.A[:len("198.51.100.1:")] == "198.51.100.1:" || ev.A[:1] == "[" && len(ev.A) > 17 && ev.A[:17] == "[2001:db8:ffff::1") {
				srvSend++
			}
		}
		adds := 0
		for _, m := range st.Metrics {
			if m.Kind == "add" {
				adds++
			}
		}
		switch op.K {
		case "S":
			var key *world.Key
			if op.Key >= 0 {
				key = tr.Keys[op.Key]
			} else {
				key = udpx.Foreign
			}
			a := assocs[op.C]
			if !st.AliveBefore {
				a = nil
			}
			wantAuth := false
			attributed := ""
			if a != nil {
				wantAuth = key.Cipher == a.key.Cipher && key.Secret == a.key.Secret
			} else {
				for _, k := range tr.Keys {
					if k.Cipher == key.Cipher && k.Secret == key.Secret {
						wantAuth = true
					}
				}
			}
			switch op.Mod {
			case "flip", "trunc-salt", "trunc-tag":
				wantAuth = false
			}
			valid := op.Mod != "badtype" && op.Mod != "truncaddr" && op.Mod != "empty"
			allowed := op.Mod != "private" && op.Mod != "loopback" && op.Mod != "private-domain" && op.Mod != "cgnat" && op.Mod != "cgnat-mapped" && op.Mod != "ula" && op.Mod != "broadcast" && op.Mod != "empty-domain"
			forward := wantAuth && valid && allowed
			obs += fmt.Sprintf("S%d:%v/%v/%d;", i, forward, st.AliveBefore, len(st.TargetRecv))
			if forward {
				if len(st.TargetRecv) != 1 {
					add("valid-datagram-not-forwarded", "step %d %s: authenticated, allowed datagram: targets received %d datagrams, want 1 (association existed: %v)", i, op, len(st.TargetRecv), st.AliveBefore)
					break
				}
				r := st.TargetRecv[0]
				wantT := op.T
				if op.Mod == "domain" {
					wantT = 0
				}
				if r.Who != wantT {
					add("wrong-target", "step %d %s: delivered to target %d, want %d", i, op, r.Who, wantT)
				}
				if !bytes.Equal(r.Data, st.Plain) {
					add("payload-corrupt", "step %d %s: target received %d bytes, payload was %d bytes (first difference at %d)", i, op, len(r.Data), len(st.Plain), firstDiff(r.Data, st.Plain))
				}
				port := strconv.Itoa(r.FromUDP.Port)
				if a != nil {
					if port != a.port {
						add("source-changed", "step %d %s: left from port %s, the live association uses %s", i, op, port, a.port)
					}
					if len(st.NewSocks) != 0 {
						add("extra-socket", "step %d %s: %d new sockets for a live association", i, op, len(st.NewSocks))
					}
				} else {
					if len(st.NewSocks) != 1 {
						add("socket-count", "step %d %s: new association created %d sockets", i, op, len(st.NewSocks))
					}
					for c, o := range assocs {
						if o != nil && o.port == port && c != op.C {
							// only a violation if that other association is still alive: checked by C04
							_ = o
						}
					}
					assocs[op.C] = &assoc{key: key, port: port}
					for _, m := range st.Metrics {
						if m.Kind == "add" {
							attributed = m.Key
						}
					}
					okID := false
					for _, k := range tr.Keys {
						if k.Cipher == key.Cipher && k.Secret == key.Secret && k.ID == attributed {
							okID = true
						}
					}
					if !okID {
						add("wrong-attribution", "step %d %s: association attributed to %q, key used is %s", i, op, attributed, key.ID)
					}
				}
			} else {
				if len(st.TargetRecv) != 0 || srvSend != 0 {
					add("invalid-datagram-forwarded", "step %d %s: not (authenticated and allowed) [auth=%v valid=%v allowed=%v] but %d datagram(s) reached a target / %d sent", i, op, wantAuth, valid, allowed, len(st.TargetRecv), srvSend)
				}
				if a == nil && (len(st.NewSocks) != 0 || adds != 0) {
					add("association-without-auth", "step %d %s: [auth=%v valid=%v allowed=%v] created %d socket(s), %d association report(s)", i, op, wantAuth, valid, allowed, len(st.NewSocks), adds)
				}
			}
			if len(st.ClientRecv) != 0 {
				add("unsolicited-to-client", "step %d %s: %d datagram(s) sent to clients although no target replied", i, op, len(st.ClientRecv))
			}
		case "R", "X":
			a := assocs[op.C]
			obs += fmt.Sprintf("%s%d:%v/%d;", op.K, i, st.AliveBefore, len(st.ClientRecv))
			if !st.AliveBefore || a == nil {
				if len(st.ClientRecv) != 0 {
					add("reply-without-association", "step %d %s: %d datagram(s) relayed although the association is gone", i, op, len(st.ClientRecv))
				}
				break
			}
			mustRelay := len(st.Sent) <= limitStrict
			if len(st.ClientRecv) == 0 {
				if mustRelay {
					var reports []string
					for _, m := range st.Metrics {
						reports = append(reports, fmt.Sprintf("%s:%s(%d,%d)", m.Kind, m.Status, m.A, m.B))
					}
					var net []string
					for _, ev := range st.Net {
						net = append(net, fmt.Sprintf("%s %s %s %d", ev.Kind, ev.A, ev.B, ev.N))
					}
					add("reply-lost", "step %d %s: reply of %d bytes was not relayed (server reports in this step: %v; socket events: %v)", i, op, len(st.Sent), reports, net)
				}
				break
			}
			if len(st.ClientRecv) != 1 || st.ClientRecv[0].Who != op.C {
				add("reply-misdelivered", "step %d %s: %d datagrams relayed, first to client %d, want exactly one to client %d", i, op, len(st.ClientRecv), st.ClientRecv[0].Who, op.C)
				break
			}
			raw := st.ClientRecv[0].Data
			plain, err := world.UnpackUDP(a.key, raw)
			if err != nil {
				add("reply-not-under-association-key", "step %d %s: relayed reply does not decrypt under the key that opened the association (%s): %v", i, op, a.key.ID, err)
				break
			}
			from := udpx.Targets[op.T%len(udpx.Targets)]
			if op.K == "X" {
				from = udpx.Strangers[op.T%len(udpx.Strangers)]
			}
			want := append(sockAddrOf(world.UDPAddr(from)), st.Sent...)
			if !bytes.Equal(plain, want) {
				add("reply-content", "step %d %s: relayed reply = addr/payload %s..., want true sender %s followed by %d payload bytes (got %d bytes, first difference at %d)", i, op, hex.EncodeToString(plain[:min(len(plain), 24)]), from, len(st.Sent), len(plain), firstDiff(plain, want))
			}
			sl := a.key.K.SaltSize()
			if len(raw) >= sl {
				h := hex.EncodeToString(raw[:sl])
				if j, dup := salts[h]; dup {
					add("reply-salt-reused", "steps %d and %d relayed replies with the same salt", j, i)
				}
				salts[h] = i
			}
		default:
			if len(st.TargetRecv) != 0 || (len(st.ClientRecv) != 0) {
				add("spontaneous-traffic", "step %d %s: traffic without a cause (%d to targets, %d to clients)", i, op, len(st.TargetRecv), len(st.ClientRecv))
			}
		}
	}
	return obs, fs
}

func min(a, b int) int {
	if a < b {
		return a
	}
	return b
}

func firstDiff(a, b []byte) int {
	n := min(len(a), len(b))
	for i := 0; i < n; i++ {
		if a[i] != b[i] {
			return i
		}
	}
	return n
}

// Menu is the operation alphabet of the sequence search.
func Menu() []udpx.Op {
	var m []udpx.Op
	for c := 0; c < 2; c++ {
		m = append(m,
			udpx.Op{K: "S", C: c, Key: 0, T: 1, N: 1400},          // chacha, IPv4 target
			udpx.Op{K: "S", C: c, Key: 1, T: 2, N: 1},             // aes-256, IPv6 target
			udpx.Op{K: "S", C: c, Key: 0, T: 2, N: 33},            // chacha, IPv6 target (the same key as the IPv4 one: both families on one association)
			udpx.Op{K: "S", C: c, Key: 3, T: 1, N: 0},             // aes-128, empty payload
			udpx.Op{K: "S", C: c, Key: 4, T: 0, N: 5},             // duplicate (cipher, secret) of k0, DNS port
			udpx.Op{K: "S", C: c, Key: -1, T: 1, N: 9},            // key not configured
			udpx.Op{K: "S", C: c, Key: 0, T: 1, N: 40, Mod: "flip"},
			udpx.Op{K: "S", C: c, Key: 2, T: 1, N: 3, Mod: "trunc-tag"},
			udpx.Op{K: "S", C: c, Key: 0, T: 1, N: 3, Mod: "badtype"},
			udpx.Op{K: "S", C: c, Key: 0, T: 1, N: 3, Mod: "private"},
			udpx.Op{K: "S", C: c, Key: 1, T: 1, N: 7, Mod: "domain"},
			udpx.Op{K: "S", C: c, Key: 1, T: 1, N: 7, Mod: "private-domain"},
			udpx.Op{K: "R", C: c, T: 0, N: 6}, // same IP as target 1, other port
			udpx.Op{K: "R", C: c, T: 1, N: 1400},
			udpx.Op{K: "R", C: c, T: 2, N: 0},
			udpx.Op{K: "X", C: c, T: 0, N: 11},
		)
	}
	return m
}

// twoListeners: one service, two UDP listeners (two Handle loops on the same handler), two
// clients sending at once to different listeners, then replies. Explored under every schedule
// within the bound; every datagram must arrive with its own payload and its own source.
func twoListeners(i int, ops []udpx.Op) *engine.Scenario {
	return concurrent(fmt.Sprintf("udp-two-listeners-%d", i), udpx.Config{Keys: udpx.DefaultKeys(), NatTimeout: natTimeout, Listeners: 2}, ops)
}

// viaManager: the handler reads from handles of a listener manager's shared socket (the way the
// server wires it), one listener; datagrams of two clients arrive back to back.
func viaManager(i int, ops []udpx.Op) *engine.Scenario {
	return concurrent(fmt.Sprintf("udp-via-manager-%d", i), udpx.Config{Keys: udpx.DefaultKeys(), NatTimeout: natTimeout, Listeners: 1, ViaManager: true}, ops)
}

// revoked: the key list is replaced by one without key 1 while a datagram under key 1 is being
// handled (either order is fine for that datagram); afterwards a datagram under the revoked key
// from a client address the server has not seen is not forwarded and opens nothing.
func revoked(i int) *engine.Scenario {
	tr := &udpx.Trace{}
	// (key 1 is revoked: no other listed key shares its cipher and secret)
	ops := []udpx.Op{{K: "S", C: 1, Key: 2, T: 1, N: 9}, {K: "P", Par: []udpx.Op{{K: "S", C: 0, Key: 1, T: 1, N: 20}, {K: "U", Key: 1}}}, {K: "S", C: 2, Key: 1, T: 1, N: 12}, {K: "S", C: 1, Key: 2, T: 1, N: 5}}
	if i == 1 {
		// the racing datagram arrives on a live association of the revoked key
		ops = append([]udpx.Op{{K: "S", C: 0, Key: 1, T: 1, N: 7}}, ops...)
	}
	sc := &engine.Scenario{Name: fmt.Sprintf("udp-key-revoked-%d", i), Opt: vrt.Options{Horizon: udpx.Horizon}}
	sc.Body = func() {
		udpx.Run(udpx.Config{Keys: udpx.DefaultKeys(), NatTimeout: natTimeout}, ops, tr)
	}
	sc.Check = func(x *vrt.Exec) (string, bool, []*engine.Finding) {
		fs := hk.Generic(x, hk.Opts{})
		if len(fs) > 0 {
			return "generic", true, fs
		}
		n := len(tr.Steps)
		late, other := tr.Steps[n-3], tr.Steps[n-2] // (the last step is END)
		if len(late.TargetRecv) != 0 || len(late.NewSocks) != 0 {
			fs = append(fs, &engine.Finding{Sig: "invalid-datagram-forwarded", Msg: fmt.Sprintf("a datagram under a key that the current list no longer has (revoked by an update that raced an earlier datagram under it), from a new client address: %d datagram(s) reached a target, %d socket(s) opened", len(late.TargetRecv), len(late.NewSocks))})
		}
		if len(other.TargetRecv) != 1 {
			fs = append(fs, &engine.Finding{Sig: "valid-datagram-not-forwarded", Msg: "after the update a datagram under a key that is still listed was not forwarded"})
		}
		obs := ""
		for _, st := range tr.Steps {
			obs += fmt.Sprintf("%s:%d/%d;", st.Op.K, len(st.TargetRecv), len(st.NewSocks))
		}
		return obs, true, fs
	}
	return sc
}

func viaManagerInputs() [][]udpx.Op {
	return [][]udpx.Op{
		{{K: "P", Par: []udpx.Op{{K: "S", C: 0, Key: 0, T: 1, N: 40}, {K: "S", C: 1, Key: 1, T: 2, N: 30}}}},
		{{K: "S", C: 0, Key: 0, T: 1, N: 10}, {K: "S", C: 1, Key: 1, T: 1, N: 10}, {K: "P", Par: []udpx.Op{{K: "S", C: 0, Key: 0, T: 1, N: 50}, {K: "S", C: 1, Key: 1, T: 2, N: 60}}}},
	}
}

func concurrent(name string, cfg udpx.Config, ops []udpx.Op) *engine.Scenario {
	tr := &udpx.Trace{}
	sc := &engine.Scenario{Name: name, Opt: vrt.Options{Horizon: udpx.Horizon}}
	sc.Body = func() {
		udpx.Run(cfg, ops, tr)
	}
	sc.Check = func(x *vrt.Exec) (string, bool, []*engine.Finding) {
		fs := hk.Generic(x, hk.Opts{})
		if len(fs) > 0 {
			return "generic", true, fs
		}
		obs := ""
		for si, st := range tr.Steps {
			if st.Op.K != "P" {
				continue
			}
			want := map[string]bool{}
			n := 0
			for _, sub := range st.Sub {
				if sub.Op.K == "S" {
					want[string(sub.Plain)] = true
					n++
				}
			}
			if n > 0 && len(st.TargetRecv) != n {
				fs = append(fs, &engine.Finding{Sig: "valid-datagram-not-forwarded", Msg: fmt.Sprintf("step %d: %d datagrams sent at once to two listeners of one service, %d reached the targets", si, n, len(st.TargetRecv))})
			}
			ports := map[int]int{}
			for _, r := range st.TargetRecv {
				obs += fmt.Sprint(len(r.Data), ";")
				if !want[string(r.Data)] {
					fs = append(fs, &engine.Finding{Sig: "payload-corrupt", Msg: fmt.Sprintf("step %d: a target received %d bytes that no client sent in this step (%s, concurrent datagrams)", si, len(r.Data), name)})
				} else if len(r.Data) >= 2 {
					if c, ok := ports[r.FromUDP.Port]; ok && c != int(r.Data[0]) {
						fs = append(fs, &engine.Finding{Sig: "shared-source", Msg: fmt.Sprintf("step %d: two clients left from server port %d", si, r.FromUDP.Port)})
					}
					ports[r.FromUDP.Port] = int(r.Data[0])
				}
			}
		}
		return obs, true, fs
	}
	return sc
}

// TwoListenerScenarios is used by C19 (race monitor on the same scenarios).
func TwoListenerScenarios() []*engine.Scenario {
	var out []*engine.Scenario
	for i, in := range twoListenerInputs() {
		out = append(out, twoListeners(i, in))
	}
	return out
}

func twoListenerInputs() [][]udpx.Op {
	return [][]udpx.Op{
		{{K: "P", Par: []udpx.Op{{K: "S", C: 0, Key: 0, T: 1, N: 40, L: 0}, {K: "S", C: 1, Key: 1, T: 2, N: 30, L: 1}}}},
		{{K: "S", C: 0, Key: 0, T: 1, N: 10, L: 0}, {K: "S", C: 1, Key: 1, T: 1, N: 10, L: 1}, {K: "P", Par: []udpx.Op{{K: "S", C: 0, Key: 0, T: 1, N: 50, L: 0}, {K: "S", C: 1, Key: 1, T: 2, N: 60, L: 1}}}},
	}
}

func scenario(unit string, ops []udpx.Op, limitStrict int) *engine.Scenario {
	tr := &udpx.Trace{}
	sc := &engine.Scenario{Name: unit, Opt: vrt.Options{Horizon: udpx.Horizon}}
	// a client with an IPv6 address needs a proxy socket that serves both families
	dual := false
	for _, op := range ops {
		if (op.K == "S" || op.K == "R") && op.C == 3 {
			dual = true
		}
	}
	sc.Body = func() {
		udpx.Run(udpx.Config{Keys: udpx.DefaultKeys(), NatTimeout: natTimeout, DualStack: dual}, ops, tr)
	}
	sc.Check = func(x *vrt.Exec) (string, bool, []*engine.Finding) {
		fs := hk.Generic(x, hk.Opts{})
		if len(fs) > 0 {
			return "generic", true, fs
		}
		obs, more := Oracle(tr, unit, limitStrict)
		return obs, true, more
	}
	return sc
}

type seqInput struct {
	Ops []udpx.Op `json:"ops"`
}

func sizeCases() [][]udpx.Op {
	var out [][]udpx.Op
	open := udpx.Op{K: "S", C: 0, Key: 0, T: 1, N: 10}
	for key := 0; key < 4; key++ {
		saltLen := []int{32, 32, 24, 16}[key]
		for _, t := range []int{1, 2} {
			addrLen := 7
			if t == 2 {
				addrLen = 19
			}
			max := 65507 - saltLen - addrLen - 16
			for _, n := range []int{max, max - 1, max / 2, 16384} {
				out = append(out, []udpx.Op{{K: "S", C: 0, Key: key, T: t, N: n}})
			}
			for _, n := range []int{0, 1, 1400, 32768, 65000, 65400, 65440, 65460, 65469, 65470, 65480, 65485, 65486, 65500, 65507} {
				o := open
				o.Key = key
				out = append(out, []udpx.Op{o, {K: "R", C: 0, T: t, N: n}, {K: "R", C: 0, T: 1, N: 20}})
			}
		}
	}
	// a client with an IPv6 address (datagrams to it may be 20 bytes larger than to an IPv4 client):
	// replies around the limits must arrive intact or not at all
	for key := 0; key < 4; key++ {
		o := udpx.Op{K: "S", C: 3, Key: key, T: 1, N: 10}
		for _, n := range []int{65400, 65440, 65453, 65460, 65469, 65470, 65476, 65480, 65485, 65486, 65490, 65500, 65507} {
			out = append(out, []udpx.Op{o, {K: "R", C: 3, T: 1, N: n}, {K: "R", C: 3, T: 1, N: 20}})
		}
	}
	// replies from link-local senders: the receiving socket reports them with an IPv6 zone
	for _, t := range []int{4, 5} {
		out = append(out, []udpx.Op{open, {K: "R", C: 0, T: t, N: 10}, {K: "R", C: 0, T: 1, N: 20}})
	}
	return out
}

func init() {
	hk.Register("C03", func(ctx *engine.Ctx) {
		for i, ops := range sizeCases() {
			if !ctx.Mine(int64(i)) {
				continue
			}
			ctx.RunCase("udp-sizes", "E", scenario("udp-sizes", ops, 65000), seqInput{ops}, nil)
		}
		bound := 2
		if ctx.Tier == "thorough" {
			bound = 3
		}
		for i, in := range twoListenerInputs() {
			engine.ExploreS(ctx, twoListeners(i, in), engine.SConfig{BothPolicies: true, Bound: bound, Shard: ctx.Shard, NShards: ctx.NShards, Deadline: ctx.Deadline})
		}
		for i, in := range viaManagerInputs() {
			engine.ExploreS(ctx, viaManager(i, in), engine.SConfig{BothPolicies: true, Bound: bound, Shard: ctx.Shard, NShards: ctx.NShards, Deadline: ctx.Deadline})
		}
		for i := 0; i < 2; i++ {
			engine.ExploreS(ctx, revoked(i), engine.SConfig{BothPolicies: true, Bound: bound + 1, Shard: ctx.Shard, NShards: ctx.NShards, Deadline: ctx.Deadline})
		}
		depth := 3
		if ctx.Tier == "thorough" {
			depth = 4
		}
		menu := Menu()
		total := int64(1)
		for i := 0; i < depth; i++ {
			total *= int64(len(menu))
		}
		for code := int64(0); code < total; code++ {
			if !ctx.Mine(code) {
				continue
			}
			if ctx.Expired() {
				ctx.Incomplete("udp-seq", "udp-seq: time cap hit at sequence %d of %d (depth %d)", code, total, depth)
				break
			}
			ops := make([]udpx.Op, depth)
			c := code
			for i := 0; i < depth; i++ {
				ops[i] = menu[c%int64(len(menu))]
				c /= int64(len(menu))
			}
			ctx.RunCase("udp-seq", "Q", scenario("udp-seq", ops, 65000), seqInput{ops}, nil)
		}
		ctx.Res.Note("udp-seq: all %d^%d sequences over the %d-operation menu", len(menu), depth, len(menu))
		// long histories of few operations: one client under its key and under another listed key,
		// a second client, a reply, a pause longer than the timeout
		dm := []udpx.Op{{K: "S", C: 0, Key: 0, T: 1, N: 20}, {K: "S", C: 0, Key: 1, T: 1, N: 15}, {K: "S", C: 1, Key: 1, T: 2, N: 14}, {K: "R", C: 0, T: 1, N: 16}, {K: "A", D: natTimeout + time.Minute}}
		dd := 5
		if ctx.Tier == "thorough" {
			dd = 7
		}
		dtotal := int64(1)
		for i := 0; i < dd; i++ {
			dtotal *= int64(len(dm))
		}
		for code := int64(0); code < dtotal; code++ {
			if !ctx.Mine(code) {
				continue
			}
			if ctx.Expired() {
				ctx.Incomplete("udp-seq-deep", "udp-seq-deep: time cap hit at sequence %d of %d", code, dtotal)
				break
			}
			ops := make([]udpx.Op, dd)
			c := code
			for i := 0; i < dd; i++ {
				ops[i] = dm[c%int64(len(dm))]
				c /= int64(len(dm))
			}
			ctx.RunCase("udp-seq-deep", "Q", scenario("udp-seq-deep", ops, 65000), seqInput{ops}, nil)
		}
	})
	hk.Replayers["C03"] = func(ctx *engine.Ctx, rp engine.Replay) []*engine.Finding {
		if len(rp.Unit) > 17 && rp.Unit[:17] == "udp-two-listeners" {
			var scs []*engine.Scenario
			for i, in := range twoListenerInputs() {
				scs = append(scs, twoListeners(i, in))
			}
			return engine.ReplayScenario(scs, rp)
		}
		if strings.HasPrefix(rp.Unit, "udp-key-revoked") {
			return engine.ReplayScenario([]*engine.Scenario{revoked(0), revoked(1)}, rp)
		}
		if strings.HasPrefix(rp.Unit, "udp-via-manager") {
			var scs []*engine.Scenario
			for i, in := range viaManagerInputs() {
				scs = append(scs, viaManager(i, in))
			}
			return engine.ReplayScenario(scs, rp)
		}
		var in seqInput
		if err := json.Unmarshal(rp.Input, &in); err != nil {
			return []*engine.Finding{{Sig: "BROKEN:bad-input", Msg: err.Error()}}
		}
		rp.Choices = nil
		return engine.ReplayCase(rp.Unit, scenario(rp.Unit, in.Ops, 65000), rp)
	}
}
