package c18

import "verif/engine"

// filled in with the UDP world
func runUDP(ctx *engine.Ctx)                                          {}
func replayUDP(ctx *engine.Ctx, rp engine.Replay) []*engine.Finding   { return nil }
func udpScenarios() []*engine.Scenario                               { return nil }
