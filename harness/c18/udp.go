package c18

import (
	"encoding/json"
	"fmt"
	"time"

	"verif/engine"
	"verif/harness/hk"
	"verif/harness/udpx"
	"verif/harness/world"
	"verif/rt/vrt"
)

type udpCase struct {
	Kind string `json:"kind"`
	A    int    `json:"a"`
	B    int    `json:"b"`
	FailSocket int `json:"fail_socket,omitempty"`
}

// ops: the hostile datagram / reply, then a well-formed exchange of another client that must work
func (c udpCase) ops() []udpx.Op {
	follow := []udpx.Op{{K: "S", C: 2, Key: 1, T: 1, N: 33}, {K: "R", C: 2, T: 1, N: 44}}
	open := udpx.Op{K: "S", C: 0, Key: 0, T: 1, N: 10}
	var first []udpx.Op
	switch c.Kind {
	case "addr-type":
		raw := append([]byte{byte(c.A)}, world.Pattern(byte(c.A), c.B)...)
		first = []udpx.Op{{K: "S", C: 0, Key: c.A % 4, Raw: raw}, open, {K: "S", C: 0, Key: 0, Raw: raw}}
	case "domain-len":
		raw := append([]byte{3, byte(c.A)}, world.Pattern(7, c.B)...)
		first = []udpx.Op{{K: "S", C: 0, Key: c.A % 4, Raw: raw}}
	case "hdr-trunc":
		full := world.Addr([]string{"93.184.216.34:80", "[2606:2800:220:1::1]:80", "dns.example:53"}[c.B%3])
		n := c.A
		if n > len(full) {
			n = len(full)
		}
		first = []udpx.Op{{K: "S", C: 0, Key: c.B % 4, Raw: append([]byte{}, full[:n]...)}}
	case "short":
		// datagrams shorter than salt / salt+tag, random bytes of every small length
		// (A bytes; B = 1: on a live association of the same client)
		first = []udpx.Op{{K: "S", C: 0, Key: 0, N: c.A, Mod: "raw-wire"}}
		if c.B == 1 {
			first = []udpx.Op{open, first[0]}
		}
	case "reply":
		// reply of size A from source B on a live association
		first = []udpx.Op{open, {K: "R", C: 0, T: c.B, N: c.A}, {K: "R", C: 0, T: 1, N: 5}}
	case "socket-fail":
		first = []udpx.Op{open, {K: "S", C: 1, Key: 1, T: 1, N: 5}}
	case "shutdown":
		// A: 0 own socket, 1 a listener-manager handle (last close), 2 a handle whose address stays
		// open for somebody else; B: 1 = no traffic at all before (the handler has been idle)
		first = []udpx.Op{open, {K: "S", C: 1, Key: 1, T: 0, N: 5}, {K: "R", C: 0, T: 1, N: 5}}
		if c.B == 1 {
			first = nil
		}
		return append(first, udpx.Op{K: "Q"})
	case "idle":
		// whatever the first datagrams were (A: a datagram whose write to the target fails / an ordinary
		// one / a DNS query / a reply that cannot be relayed), once every client has been silent for
		// longer than the timeout nothing of them remains, with the listener still open
		switch c.A {
		case 0:
			first = []udpx.Op{{K: "S", C: 0, Key: 0, N: 9, Mod: "raw:93.184.216.34:0"}}
		case 1:
			first = []udpx.Op{open}
		case 2:
			first = []udpx.Op{{K: "S", C: 0, Key: 0, T: 0, N: 10}}
		case 3:
			first = []udpx.Op{open, {K: "R", C: 0, T: 1, N: 65507}}
		}
		return append(append(first, follow...), udpx.Op{K: "A", D: 5*time.Minute + time.Second})
	}
	return append(first, follow...)
}

func udpScenario(c udpCase) *engine.Scenario {
	tr := &udpx.Trace{}
	sc := &engine.Scenario{Name: "udp-inputs", Opt: vrt.Options{Horizon: udpx.Horizon}}
	ops := c.ops()
	sc.Body = func() {
		udpx.Run(udpx.Config{Keys: udpx.DefaultKeys(), NatTimeout: 5 * time.Minute, FailSocket: c.FailSocket,
			ViaManager: c.Kind == "shutdown" && c.A >= 1, KeepOther: c.Kind == "shutdown" && c.A == 2}, ops, tr)
	}
	sc.Check = func(x *vrt.Exec) (string, bool, []*engine.Finding) {
		fs := hk.Generic(x, hk.Opts{Leaks: true})
		add := func(sig, format string, a ...any) {
			fs = append(fs, &engine.Finding{Sig: sig, Msg: fmt.Sprintf(format, a...) + fmt.Sprintf(" case=%+v", c)})
		}
		if len(fs) > 0 {
			return "generic", true, fs
		}
		if len(tr.Recovered) > 0 {
			add("recovered-panic", "the UDP loop panicked (recovered): %v", tr.Recovered)
		}
		for _, l := range hk.Logs() {
			if len(l.Msg) >= 5 && l.Msg[:5] == "Panic" {
				add("recovered-panic", "logged: %s %s", l.Msg, l.Attrs)
			}
		}
		if len(tr.Open) > 0 {
			add("socket-leak", "server sockets open after shutdown: %v", tr.Open)
		}
		if !tr.Returned {
			add("handle-not-returned", "PacketHandler.Handle did not return")
		}
		obs := ""
		if c.Kind == "idle" {
			open := map[string]bool{}
			for _, st := range tr.Steps {
				if st.Op.K == "END" {
					break
				}
				for _, a := range st.NewSocks {
					open[a] = true
				}
				for _, a := range st.ClosedSocks {
					delete(open, a)
				}
			}
			if len(open) > 0 {
				add("socket-leak{listener-open}", "every client has been silent for longer than the timeout and the listener is still open: %d outbound socket(s) of their associations are still there", len(open))
			}
		}
		if c.Kind == "reply" && len(tr.Steps) > 2 {
			// whatever became of the first reply (too large to be packed, to be sent, from an odd source),
			// the association is still there and the next, small reply of the same target reaches the client
			if st := tr.Steps[2]; st.Skipped || len(st.ClientRecv) != 1 {
				add("association-lost-after-reply", "after a reply of %d bytes from source %d the same client's next reply (5 bytes) was not relayed (association gone: %v)", c.A, c.B, st.Skipped)
			}
		}
		if c.Kind != "shutdown" && c.Kind != "idle" && !(c.Kind == "socket-fail" && c.FailSocket >= 3) {
			// the follower's exchange must have worked
			n := len(tr.Steps)
			s, r := tr.Steps[n-3], tr.Steps[n-2]
			if len(s.TargetRecv) != 1 || len(r.ClientRecv) != 1 {
				add("follower-broken", "after the hostile input a well-formed client was not served (%d forwarded, %d relayed)", len(s.TargetRecv), len(r.ClientRecv))
			}
		}
		for _, st := range tr.Steps {
			obs += fmt.Sprintf("%s:%d/%d;", st.Op.K, len(st.TargetRecv), len(st.ClientRecv))
		}
		return obs, true, fs
	}
	return sc
}

func udpCases() []udpCase {
	var out []udpCase
	for t := 0; t < 256; t++ {
		for _, fill := range []int{0, 6, 18, 300} {
			out = append(out, udpCase{Kind: "addr-type", A: t, B: fill})
		}
	}
	for _, l := range []int{0, 1, 2, 254, 255} {
		for _, have := range []int{0, 1, l, l + 1, l + 2, l + 3} {
			out = append(out, udpCase{Kind: "domain-len", A: l, B: have})
		}
	}
	for v := 0; v < 3; v++ {
		for n := 0; n <= 20; n++ {
			out = append(out, udpCase{Kind: "hdr-trunc", A: n, B: v})
		}
	}
	for _, size := range []int{0, 1, 1400, 65400, 65469, 65470, 65485, 65486, 65507} {
		for src := 0; src < 6; src++ {
			out = append(out, udpCase{Kind: "reply", A: size, B: src})
		}
	}
	for f := 1; f <= 3; f++ {
		out = append(out, udpCase{Kind: "socket-fail", FailSocket: f})
	}
	for _, n := range []int{0, 1, 15, 16, 17, 31, 32, 33, 47, 48, 49, 50, 64} {
		out = append(out, udpCase{Kind: "short", A: n, B: 0}, udpCase{Kind: "short", A: n, B: 1})
	}
	for a := 0; a < 3; a++ {
		for b := 0; b < 2; b++ {
			out = append(out, udpCase{Kind: "shutdown", A: a, B: b})
		}
	}
	for a := 0; a < 4; a++ {
		out = append(out, udpCase{Kind: "idle", A: a})
	}
	return out
}

func runUDP(ctx *engine.Ctx) {
	for i, c := range udpCases() {
		if !ctx.Mine(int64(i)) {
			continue
		}
		if ctx.Expired() {
			ctx.Incomplete("udp-inputs", "udp-inputs: time cap hit at case %d", i)
			return
		}
		ctx.RunCase("udp-inputs", "E", udpScenario(c), c, nil)
	}
}

func replayUDP(ctx *engine.Ctx, rp engine.Replay) []*engine.Finding {
	var c udpCase
	if err := json.Unmarshal(rp.Input, &c); err != nil {
		return []*engine.Finding{{Sig: "BROKEN:bad-input", Msg: err.Error()}}
	}
	rp.Choices = nil
	return engine.ReplayCase("udp-inputs", udpScenario(c), rp)
}

// associations expiring while datagrams of other clients arrive, replies come in and the
// listener shuts down: the association table is used by the handler loop and by one relay
// goroutine per association
func udpRaceInputs() [][]udpx.Op {
	T := 10 * time.Second
	open0 := udpx.Op{K: "S", C: 0, Key: 0, T: 1, N: 20}
	return [][]udpx.Op{
		{open0, {K: "P", Par: []udpx.Op{{K: "S", C: 0, Key: 0, T: 1, N: 12, D: T}, {K: "S", C: 1, Key: 1, T: 1, N: 12, D: T}, {K: "R", C: 0, T: 1, N: 14, D: T}}}},
		{open0, {K: "S", C: 1, Key: 1, T: 0, N: 20}, {K: "P", Par: []udpx.Op{{K: "R", C: 1, T: 0, N: 4}, {K: "S", C: 2, Key: 2, T: 1, N: 5}}}, {K: "Q"}},
	}
}

func udpScenarios() []*engine.Scenario {
	var out []*engine.Scenario
	inputs := udpRaceInputs()
	nRace := len(inputs)
	// shutdown of an idle handler that reads from a listener-manager handle: last close of the
	// address, and close with the address kept open by somebody else (every schedule)
	inputs = append(inputs, []udpx.Op{{K: "Q"}}, []udpx.Op{{K: "Q"}}, []udpx.Op{{K: "S", C: 0, Key: 0, T: 1, N: 20}, {K: "Q"}})
	for i, ops := range inputs {
		ops := ops
		tr := &udpx.Trace{}
		sc := &engine.Scenario{Name: fmt.Sprintf("udp-expiry-race-%d", i), Opt: vrt.Options{Horizon: udpx.Horizon}}
		cfg := udpx.Config{Keys: udpx.DefaultKeys(), NatTimeout: 10 * time.Second}
		if i >= nRace {
			sc.Name = fmt.Sprintf("udp-shared-shutdown-%d", i-nRace)
			cfg.ViaManager, cfg.KeepOther = true, i-nRace == 1
		}
		sc.Body = func() {
			udpx.Run(cfg, ops, tr)
		}
		sc.Check = func(x *vrt.Exec) (string, bool, []*engine.Finding) {
			fs := hk.Generic(x, hk.Opts{Leaks: true, MapRaces: true})
			if len(fs) == 0 && len(tr.Recovered) > 0 {
				fs = append(fs, &engine.Finding{Sig: "recovered-panic", Msg: fmt.Sprint(tr.Recovered)})
			}
			if len(fs) == 0 && len(tr.Open) > 0 {
				fs = append(fs, &engine.Finding{Sig: "socket-leak", Msg: fmt.Sprint(tr.Open)})
			}
			if len(fs) == 0 && !tr.Returned {
				fs = append(fs, &engine.Finding{Sig: "handle-not-returned", Msg: "PacketHandler.Handle did not return after its handle was closed"})
			}
			obs := ""
			for _, st := range tr.Steps {
				obs += fmt.Sprintf("%s:%d/%d;", st.Op.K, len(st.TargetRecv), len(st.ClientRecv))
			}
			return obs, true, fs
		}
		out = append(out, sc)
	}
	return out
}
