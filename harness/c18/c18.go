// Package c18: no network input can crash the server or leak its resources.
//
// TCP: authenticated plaintexts with every address-type byte, extreme domain lengths,
// headers truncated at every length, out-of-range and zero chunk lengths; raw byte strings;
// target failures; every outcome class followed by a normal connection that must still
// work; termination orders and listener shutdown with handlers in flight under every
// schedule within the bound. Oracle: no unrecovered panic in any thread, no recovered
// panic in the log, no thread or socket of the server left, StreamServe returns only after
// all handlers returned, the following / concurrent connection is served.
//
// UDP: see udp.go (datagram shapes, reply sources including zoned IPv6, shutdown).
package c18

import (
	"encoding/json"
	"fmt"
	"time"

	"verif/engine"
	"verif/harness/c17"
	"verif/harness/hk"
	"verif/harness/tcpx"
	"verif/harness/world"
	"verif/rt/vrt"
)

type tcpCase struct {
	Kind string `json:"kind"`
	A    int    `json:"a"`
	B    int    `json:"b"`
	C    int    `json:"cipher"`
}

func (c tcpCase) spec() tcpx.Spec {
	follow := tcpx.ConnSpec{Class: "ok", Cipher: (c.C + 1) % 4, Up: 33, Down: 44}
	first := tcpx.ConnSpec{Class: "raw", Cipher: c.C}
	switch c.Kind {
	case "addr-type":
		// address type byte A followed by B filler bytes
		p := append([]byte{byte(c.A)}, world.Pattern(byte(c.A), c.B)...)
		first.RawChunks = []world.RawChunk{{Payload: p}}
	case "domain-len":
		// type 3, length A, then B bytes of name (+2 port bytes if it fits)
		p := append([]byte{3, byte(c.A)}, world.Pattern(7, c.B)...)
		first.RawChunks = []world.RawChunk{{Payload: p}}
	case "hdr-trunc":
		full := world.Addr([]string{"93.184.216.34:8000", "[2606:2800:220:1::1]:8000", "a-rather-long-name.example:8000"}[c.B%3])
		if c.A > len(full) {
			first.RawChunks = []world.RawChunk{{Payload: full}}
		} else if c.A == 0 {
			first.RawChunks = []world.RawChunk{{Payload: nil, LenField: 0, NoBody: false}}
		} else {
			first.RawChunks = []world.RawChunk{{Payload: full[:c.A]}}
		}
	case "chunk-len":
		// a length field outside the 14-bit range, with or without a body of that size
		first.RawChunks = []world.RawChunk{{Payload: world.Addr("93.184.216.34:8000")}, {Payload: world.Pattern(1, c.B), LenField: c.A}}
	case "zero-chunks":
		var ch []world.RawChunk
		for i := 0; i < c.A; i++ {
			ch = append(ch, world.RawChunk{Payload: []byte{}, LenField: 0})
		}
		ch = append(ch, world.RawChunk{Payload: append(world.Addr("93.184.216.34:8000"), 0, 5)})
		first.RawChunks = ch
	case "class":
		first = tcpx.ConnSpec{Class: classNames[c.A%len(classNames)], Cipher: c.C, Up: 9, Down: 9, Var: c.B}
	}
	// odd variants: one transient accept error first; every fourth case goes through a shared
	// listener of a ListenerManager (its accept goroutine must survive the error too)
	return tcpx.Spec{Conns: []tcpx.ConnSpec{first, follow}, AcceptErr: c.Kind == "class" && c.B%2 == 1, Shared: c.Kind == "class" && c.B%4 >= 2}
}

var classNames = []string{"ok", "cipher", "bad-addr", "private", "refused", "relay-client", "relay-target", "client-rst", "client-rst-late", "client-abort", "target-abort", "cipher-rst"}

func oracle(s tcpx.Spec, o *tcpx.Obs, x *vrt.Exec, needFollower int) (string, []*engine.Finding) {
	fs := hk.Generic(x, hk.Opts{Leaks: true})
	add := func(sig, format string, a ...any) {
		fs = append(fs, &engine.Finding{Sig: sig, Msg: fmt.Sprintf(format, a...) + " spec=" + s.String()})
	}
	if len(fs) > 0 {
		return "generic", fs
	}
	if len(o.Recovered) > 0 && !s.FailFirst {
		add("recovered-panic", "a handler panicked (recovered by the server): %v", o.Recovered)
	}
	if !o.ServeOK {
		add("serve-return", "StreamServe returned while handlers were still running")
	}
	if len(o.Open) > 0 {
		add("socket-leak", "server sockets still open after everything ended: %v", o.Open)
	}
	obs := ""
	for i, co := range o.Conns {
		if co == nil {
			continue
		}
		st := "<none>"
		if co.Rec != nil {
			st = co.Rec.Status()
			if len(co.Rec.Closed) != 1 && !(s.FailFirst && i == 0) {
				add("closed-count", "connection %d: AddClosed called %d times", i, len(co.Rec.Closed))
			}
		}
		obs += co.Spec.Class + ":" + st + ";"
		if i == needFollower {
			if co.Rec == nil || st != "OK" || len(co.Plain) != co.Spec.Down {
				add("follower-broken", "the well-formed connection %d was not served (status %s, %d of %d reply bytes) after/while another connection failed", i, st, len(co.Plain), co.Spec.Down)
			}
		}
	}
	if s.AcceptErr && !o.AcceptWarn {
		add("accept-error-not-survived", "the injected transient accept error was not logged/survived")
	}
	return obs, fs
}

func scenarioTCP(s tcpx.Spec, follower int) *engine.Scenario {
	o := &tcpx.Obs{}
	sc := &engine.Scenario{Name: "tcp" + s.String(), Opt: vrt.Options{Horizon: 2 * time.Hour}}
	sc.Body = tcpx.Build(s, o, nil)
	sc.Check = func(x *vrt.Exec) (string, bool, []*engine.Finding) {
		obs, fs := oracle(s, o, x, follower)
		return obs, true, fs
	}
	return sc
}

func tcpCases(tier string) []tcpCase {
	var out []tcpCase
	for t := 0; t < 256; t++ {
		for _, fill := range []int{0, 6, 300} {
			out = append(out, tcpCase{Kind: "addr-type", A: t, B: fill, C: t % 4})
		}
	}
	for _, l := range []int{0, 1, 2, 254, 255} {
		for _, have := range []int{0, 1, l, l + 1, l + 2, l + 3} {
			if have >= 0 {
				out = append(out, tcpCase{Kind: "domain-len", A: l, B: have, C: l % 4})
			}
		}
	}
	for v := 0; v < 3; v++ {
		for n := 0; n <= 30; n++ {
			out = append(out, tcpCase{Kind: "hdr-trunc", A: n, B: v, C: (n + v) % 4})
		}
	}
	for _, l := range []int{0x3FFF, 0x4000, 0x7FFF, 0x8000, 0xFFFF} {
		for _, body := range []int{0, 10, 0x3FFF} {
			out = append(out, tcpCase{Kind: "chunk-len", A: l, B: body, C: l % 4})
		}
	}
	for _, n := range []int{1, 2, 50} {
		out = append(out, tcpCase{Kind: "zero-chunks", A: n, C: n % 4})
	}
	for a := 0; a < len(classNames); a++ {
		for b := 0; b < 8; b++ {
			out = append(out, tcpCase{Kind: "class", A: a, B: b, C: (a + b) % 4})
		}
	}
	return out
}

func gridS() []tcpx.Spec {
	var out []tcpx.Spec
	raw := tcpx.ConnSpec{Class: "raw", Cipher: 0, RawChunks: []world.RawChunk{{Payload: []byte{9, 9, 9}}}}
	ok := tcpx.ConnSpec{Class: "ok", Cipher: 1, Up: 12, Down: 20}
	out = append(out,
		tcpx.Spec{Concurrent: true, Conns: []tcpx.ConnSpec{raw, ok}},
		tcpx.Spec{Concurrent: true, Conns: []tcpx.ConnSpec{{Class: "relay-target", Cipher: 2}, ok}},
		tcpx.Spec{Concurrent: true, Conns: []tcpx.ConnSpec{{Class: "refused", Cipher: 3, Up: 3}, ok}, AcceptErr: true},
		tcpx.Spec{Concurrent: true, Conns: []tcpx.ConnSpec{{Class: "cipher", Cipher: 0}, ok}, AcceptErr: true, Shared: true},
	)
	return out
}

// shutdown with handlers in flight: the listener is closed while two clients are being served
func gridShutdown() []tcpx.Spec {
	ok := tcpx.ConnSpec{Class: "ok", Cipher: 1, Up: 12, Down: 20}
	return []tcpx.Spec{
		{Concurrent: true, StopEarly: true, Conns: []tcpx.ConnSpec{ok, {Class: "cipher", Cipher: 0}}},
		{Concurrent: true, StopEarly: true, Conns: []tcpx.ConnSpec{ok, {Class: "ok", Cipher: 2, Up: 1, Down: 1}}},
		// a handler sitting in a connect that never completes: closing the listener releases it
		// (the serving context is cancelled), and serving stops
		{Concurrent: true, StopEarly: true, Conns: []tcpx.ConnSpec{{Class: "hang", Cipher: 0, Up: 3}, ok}},
		// the listener comes from a listener manager (shared socket with its own accept goroutine)
		{Concurrent: true, StopEarly: true, Shared: true, Conns: []tcpx.ConnSpec{ok, {Class: "ok", Cipher: 2, Up: 1, Down: 1}}},
	}
}

// a failure while handling one connection (the handler panics and StreamServe recovers): the other
// connection is served, and serving still stops when the listener closes
func gridFail() []tcpx.Spec {
	ok := tcpx.ConnSpec{Class: "ok", Cipher: 1, Up: 12, Down: 20}
	return []tcpx.Spec{
		{Concurrent: true, FailFirst: true, Conns: []tcpx.ConnSpec{{Class: "ok", Cipher: 0, Up: 5, Down: 5}, ok}},
		{FailFirst: true, Conns: []tcpx.ConnSpec{{Class: "ok", Cipher: 0, Up: 5, Down: 5}, ok}},
	}
}

// scrapeScenarios: traffic ending while the metrics are scraped and the clock moves (C17's
// concurrent scenarios on the real collectors); here only "nothing panics, nothing hangs" is kept
// of their oracle - a panic in a collector takes the relay goroutine, and the server, with it.
func scrapeScenarios() []*engine.Scenario {
	var out []*engine.Scenario
	for _, sc := range c17.ConcScenarios() {
		inner := sc.Check
		sc.Name = "scrape-" + sc.Name
		sc.Check = func(x *vrt.Exec) (string, bool, []*engine.Finding) {
			obs, nt, _ := inner(x)
			return obs, nt, hk.Generic(x, hk.Opts{})
		}
		out = append(out, sc)
	}
	return out
}

func init() {
	hk.Register("C18", func(ctx *engine.Ctx) {
		for i, c := range tcpCases(ctx.Tier) {
			if !ctx.Mine(int64(i)) {
				continue
			}
			if ctx.Expired() {
				ctx.Incomplete("tcp-inputs", "tcp-inputs: time cap hit at case %d", i)
				break
			}
			ctx.RunCase("tcp-inputs", "E", scenarioTCP(c.spec(), 1), c, nil)
		}
		runUDP(ctx)
		bound := 2
		if ctx.Tier == "thorough" {
			bound = 3
		}
		for _, s := range gridS() {
			engine.ExploreS(ctx, scenarioTCP(s, 1), engine.SConfig{BothPolicies: true, Bound: bound, Shard: ctx.Shard, NShards: ctx.NShards, Deadline: ctx.Deadline})
		}
		for _, s := range gridShutdown() {
			engine.ExploreS(ctx, scenarioTCP(s, -1), engine.SConfig{BothPolicies: true, Bound: bound, Shard: ctx.Shard, NShards: ctx.NShards, Deadline: ctx.Deadline})
		}
		for _, s := range gridFail() {
			engine.ExploreS(ctx, scenarioTCP(s, 1), engine.SConfig{Bound: bound, Shard: ctx.Shard, NShards: ctx.NShards, Deadline: ctx.Deadline})
		}
		for _, sc := range udpScenarios() {
			engine.ExploreS(ctx, sc, engine.SConfig{BothPolicies: true, Bound: bound, Shard: ctx.Shard, NShards: ctx.NShards, Deadline: ctx.Deadline})
		}
		for _, sc := range scrapeScenarios() {
			engine.ExploreS(ctx, sc, engine.SConfig{BothPolicies: true, Bound: bound, Shard: ctx.Shard, NShards: ctx.NShards, Deadline: ctx.Deadline})
		}
	})
	hk.Replayers["C18"] = func(ctx *engine.Ctx, rp engine.Replay) []*engine.Finding {
		switch rp.Unit {
		case "tcp-inputs":
			var c tcpCase
			if err := json.Unmarshal(rp.Input, &c); err != nil {
				return []*engine.Finding{{Sig: "BROKEN:bad-input", Msg: err.Error()}}
			}
			rp.Choices = nil
			return engine.ReplayCase("tcp-inputs", scenarioTCP(c.spec(), 1), rp)
		case "udp-inputs":
			return replayUDP(ctx, rp)
		}
		var scs []*engine.Scenario
		for _, s := range gridS() {
			scs = append(scs, scenarioTCP(s, 1))
		}
		for _, s := range gridShutdown() {
			scs = append(scs, scenarioTCP(s, -1))
		}
		for _, s := range gridFail() {
			scs = append(scs, scenarioTCP(s, 1))
		}
		scs = append(scs, udpScenarios()...)
		scs = append(scs, scrapeScenarios()...)
		return engine.ReplayScenario(scs, rp)
	}
}
