// Package c15: TCP connection metrics match what happened on the wire.
//
// Every connection outcome class is produced in the handler world (package tcpx) with a
// recording TCPConnMetrics teed to the real Prometheus collectors; per connection the calls
// (order, multiplicity, status, byte counters) are compared with the bytes on the vnet
// sockets, and the gathered counters with the recorded calls. Engine E: all classes x
// ciphers x sizes sequentially; engine S: pairs of concurrent connections.
package c15

import (
	"encoding/json"
	"fmt"
	"time"

	"github.com/Jigsaw-Code/outline-ss-server/service"
	outline_prometheus "github.com/Jigsaw-Code/outline-ss-server/prometheus"
	"github.com/prometheus/client_golang/prometheus"

	"verif/engine"
	"verif/harness/hk"
	"verif/harness/promx"
	"verif/harness/tcpx"
	"verif/rt/vrt"
)

func newMetrics() service.ServiceMetrics {
	m, err := outline_prometheus.NewServiceMetrics(nil)
	if err != nil {
		panic(err)
	}
	return m
}

func Oracle(s tcpx.Spec, o *tcpx.Obs, x *vrt.Exec) (string, []*engine.Finding) {
	fs := hk.Generic(x, hk.Opts{})
	add := func(sig, format string, a ...any) {
		fs = append(fs, &engine.Finding{Sig: sig, Msg: fmt.Sprintf(format, a...) + " spec=" + s.String()})
	}
	if len(fs) > 0 {
		return "generic", fs
	}
	obs := ""
	for i, co := range o.Conns {
		if co == nil || co.Rec == nil {
			add("no-handler-record", "connection %d: no handler ran", i)
			continue
		}
		r := co.Rec
		cls := co.Spec.Class
		obs += fmt.Sprint(cls, r.Order, ";")
		if len(r.Closed) != 1 {
			add("closed-count", "connection %d (%s): AddClosed called %d times: %v", i, cls, len(r.Closed), r.Order)
			continue
		}
		d := r.Closed[0].Data
		if co.Want != "" && r.Status() != co.Want {
			add("status{"+cls+"->"+r.Status()+"}", "connection %d (%s) closed with status %s, want %s", i, cls, r.Status(), co.Want)
		}
		if r.Order[len(r.Order)-1][:7] != "closed:" {
			add("report-after-close", "connection %d (%s): calls after AddClosed: %v", i, cls, r.Order)
		}
		if co.WantAuth {
			if len(r.Auth) != 1 || r.Auth[0] != co.Key.ID {
				add("auth-report", "connection %d (%s): AddAuthenticated calls %v, want exactly [%s]", i, cls, r.Auth, co.Key.ID)
			}
			if len(r.Probes) != 0 {
				add("probe-on-authenticated", "connection %d (%s): AddProbe on an authenticated connection: %v", i, cls, r.Order)
			}
		} else {
			if len(r.Auth) != 0 {
				add("auth-on-unauthenticated", "connection %d (%s): AddAuthenticated %v although authentication failed", i, cls, r.Auth)
			}
			if len(r.Probes) != 1 {
				add("probe-count", "connection %d (%s): AddProbe called %d times, want 1: %v", i, cls, len(r.Probes), r.Order)
			} else {
				if r.Probes[0].Bytes != co.Sent {
					add("probe-bytes", "connection %d (%s): AddProbe reported %d bytes, the client sent %d", i, cls, r.Probes[0].Bytes, co.Sent)
				}
				if r.Probes[0].Status != co.Want {
					add("probe-status", "connection %d (%s): probe status %s, want %s", i, cls, r.Probes[0].Status, co.Want)
				}
			}
		}
		// byte counters vs. the wire
		if d.ClientProxy > co.SrvRead || d.ProxyClient > co.SrvWritten || (co.Dialed && (d.ProxyTarget > co.TgtWritten || d.TargetProxy > co.TgtRead)) || (!co.Dialed && (d.ProxyTarget != 0 || d.TargetProxy != 0)) {
			add("counters-exceed-wire", "connection %d (%s): counters c>p=%d c<p=%d p>t=%d p<t=%d exceed the wire c>p=%d c<p=%d p>t=%d p<t=%d (dialed=%v)", i, cls,
				d.ClientProxy, d.ProxyClient, d.ProxyTarget, d.TargetProxy, co.SrvRead, co.SrvWritten, co.TgtWritten, co.TgtRead, co.Dialed)
		}
		if co.Completed {
			if d.ClientProxy != co.Sent || d.ProxyClient != int64(len(co.ClientGot)) || d.ProxyTarget != int64(co.Spec.Up+2) || d.TargetProxy != int64(co.Spec.Down) {
				add("counters-differ", "connection %d (%s) ran to completion: counters c>p=%d c<p=%d p>t=%d p<t=%d, wire c>p=%d c<p=%d p>t=%d p<t=%d", i, cls,
					d.ClientProxy, d.ProxyClient, d.ProxyTarget, d.TargetProxy, co.Sent, len(co.ClientGot), co.Spec.Up+2, co.Spec.Down)
			}
		}
	}
	// the real collectors
	if o.Metrics != nil {
		samples, _, err := promx.Gather(o.Metrics.(prometheus.Collector))
		if err != nil {
			add("gather-error", "%v", err)
		} else {
			opened := promx.Sum(samples, "tcp_connections_opened", nil)
			closed := promx.Sum(samples, "tcp_connections_closed", nil)
			if int(opened) != len(o.Conns) || int(closed) != len(o.Conns) {
				add("prom-open-close", "tcp_connections_opened=%v closed=%v for %d connections", opened, closed, len(o.Conns))
			}
			var cp, pc, pt, tp int64
			want := map[string]int{}
			for _, co := range o.Conns {
				if co != nil && co.Rec != nil && len(co.Rec.Closed) == 1 {
					d := co.Rec.Closed[0].Data
					cp, pc, pt, tp = cp+d.ClientProxy, pc+d.ProxyClient, pt+d.ProxyTarget, tp+d.TargetProxy
					want[co.Rec.Status()]++
				}
			}
			for st, n := range want {
				if got := promx.Sum(samples, "tcp_connections_closed", map[string]string{"status": st}); int(got) != n {
					add("prom-status-count", "tcp_connections_closed{status=%s}=%v, want %d", st, got, n)
				}
			}
			g := func(dir string) int64 { return int64(promx.Sum(samples, "data_bytes", map[string]string{"proto": "tcp", "dir": dir})) }
			if g("c>p") != cp || g("c<p") != pc || g("p>t") != pt || g("p<t") != tp {
				add("prom-bytes", "data_bytes c>p=%d c<p=%d p>t=%d p<t=%d, reported c>p=%d c<p=%d p>t=%d p<t=%d", g("c>p"), g("c<p"), g("p>t"), g("p<t"), cp, pc, pt, tp)
			}
			// the per-location series carries the same bytes, direction by direction
			gl := func(dir string) int64 {
				return int64(promx.Sum(samples, "data_bytes_per_location", map[string]string{"proto": "tcp", "dir": dir}))
			}
			if gl("c>p") != cp || gl("c<p") != pc || gl("p>t") != pt || gl("p<t") != tp {
				add("prom-bytes-per-location", "data_bytes_per_location c>p=%d c<p=%d p>t=%d p<t=%d, reported c>p=%d c<p=%d p>t=%d p<t=%d", gl("c>p"), gl("c<p"), gl("p>t"), gl("p<t"), cp, pc, pt, tp)
			}
			probes := 0
			for _, co := range o.Conns {
				if co != nil && !co.WantAuth {
					probes++
				}
			}
			if got := promx.Sum(samples, "tcp_probes", nil); int(got) != probes {
				add("prom-probes", "tcp_probes count=%v, want %d", got, probes)
			}
		}
	}
	return obs, fs
}

func scenario(s tcpx.Spec) *engine.Scenario {
	o := &tcpx.Obs{}
	sc := &engine.Scenario{Name: "conn" + s.String(), Opt: vrt.Options{Horizon: 2 * time.Hour}}
	sc.Body = tcpx.Build(s, o, newMetrics)
	sc.Check = func(x *vrt.Exec) (string, bool, []*engine.Finding) {
		obs, fs := Oracle(s, o, x)
		return obs, true, fs
	}
	return sc
}

var classes = []string{"ok", "cipher", "bad-addr", "private", "refused", "relay-client", "relay-target"}

func gridE(tier string) []tcpx.Spec {
	var out []tcpx.Spec
	sizes := [][2]int{{0, 0}, {1, 1}, {100, 5000}, {16383, 16384}, {40000, 3}}
	for c := 0; c < 4; c++ {
		for _, cl := range classes {
			vars := 1
			switch cl {
			case "bad-addr":
				vars = 6
			case "private":
				vars = 8
			}
			for v := 0; v < vars; v++ {
				for si, sz := range sizes {
					if cl != "ok" && si > 0 && !(cl == "relay-client" && si < 3) {
						continue
					}
					for _, real := range []bool{false, true} {
						out = append(out, tcpx.Spec{Conns: []tcpx.ConnSpec{{Class: cl, Cipher: c, Up: sz[0], Down: sz[1], Var: v}}, RealMetrics: real})
					}
				}
			}
		}
		// writes that fail part-way (small socket buffers, a peer that goes away without reading)
		for _, buf := range []int{700, 5000} {
			for _, cl := range []string{"client-abort", "target-abort"} {
				for _, real := range []bool{false, true} {
					out = append(out, tcpx.Spec{TCPBuf: buf, RealMetrics: real, Conns: []tcpx.ConnSpec{{Class: cl, Cipher: c}, {Class: "ok", Cipher: c, Up: 20, Down: 30}}})
				}
			}
		}
		// probes of zero bytes
		for _, real := range []bool{false, true} {
			out = append(out, tcpx.Spec{RealMetrics: real, Conns: []tcpx.ConnSpec{{Class: "empty", Cipher: c, Var: 0}, {Class: "empty", Cipher: c, Var: 1}, {Class: "cipher", Cipher: c}}})
		}
		// both relay directions fail, the client's first
		for _, real := range []bool{false, true} {
			out = append(out, tcpx.Spec{TCPBuf: 700, RealMetrics: real, Conns: []tcpx.ConnSpec{{Class: "relay-client-then-gone", Cipher: c}, {Class: "ok", Cipher: c, Up: 20, Down: 30}}})
		}
		// sequences: ok then replays, and mixed triples
		out = append(out, tcpx.Spec{Cache: 10, RealMetrics: true, Conns: []tcpx.ConnSpec{{Class: "ok", Cipher: c, Up: 10, Down: 100}, {Class: "replay-client", Cipher: c, Up: 10, Down: 100}}})
		if c < 3 {
			out = append(out, tcpx.Spec{Cache: 10, RealMetrics: true, Conns: []tcpx.ConnSpec{{Class: "ok", Cipher: c, Up: 10, Down: 100}, {Class: "replay-server", Cipher: c}, {Class: "replay-server", Cipher: c}, {Class: "replay-client", Cipher: c, Up: 10, Down: 100}}})
			out = append(out, tcpx.Spec{Cache: 0, RealMetrics: true, Conns: []tcpx.ConnSpec{{Class: "ok", Cipher: c, Up: 10, Down: 100}, {Class: "replay-server", Cipher: c}}})
		}
		for i, a := range classes {
			b := classes[(i+3)%len(classes)]
			out = append(out, tcpx.Spec{RealMetrics: true, Conns: []tcpx.ConnSpec{{Class: a, Cipher: c, Up: 7, Down: 9}, {Class: b, Cipher: (c + 1) % 4, Up: 3, Down: 3}, {Class: "ok", Cipher: c, Up: 50, Down: 60}}})
		}
	}
	return out
}

func gridS() []tcpx.Spec {
	var out []tcpx.Spec
	pairs := [][2]string{{"ok", "ok"}, {"ok", "cipher"}, {"relay-client", "ok"}, {"private", "refused"}, {"bad-addr", "relay-target"}}
	for _, p := range pairs {
		out = append(out, tcpx.Spec{Concurrent: true, Conns: []tcpx.ConnSpec{{Class: p[0], Cipher: 0, Up: 20, Down: 30}, {Class: p[1], Cipher: 1, Up: 5, Down: 8}}})
	}
	return out
}

func init() {
	hk.Register("C15", func(ctx *engine.Ctx) {
		for i, s := range gridE(ctx.Tier) {
			if !ctx.Mine(int64(i)) {
				continue
			}
			if ctx.Expired() {
				ctx.Incomplete("conn-grid", "conn-grid: time cap hit at case %d", i)
				break
			}
			ctx.RunCase("conn-grid", "E", scenario(s), s, nil)
		}
		bound := 2
		if ctx.Tier == "thorough" {
			bound = 3
		}
		for _, s := range gridS() {
			engine.ExploreS(ctx, scenario(s), engine.SConfig{BothPolicies: true, Bound: bound, Shard: ctx.Shard, NShards: ctx.NShards, Deadline: ctx.Deadline})
		}
	})
	hk.Replayers["C15"] = func(ctx *engine.Ctx, rp engine.Replay) []*engine.Finding {
		if rp.Unit == "conn-grid" {
			var s tcpx.Spec
			if err := json.Unmarshal(rp.Input, &s); err != nil {
				return []*engine.Finding{{Sig: "BROKEN:bad-input", Msg: err.Error()}}
			}
			rp.Choices = nil
			return engine.ReplayCase("conn-grid", scenario(s), rp)
		}
		var scs []*engine.Scenario
		for _, s := range gridS() {
			scs = append(scs, scenario(s))
		}
		return engine.ReplayScenario(scs, rp)
	}
}
