// Package hk ("harness kit") holds what the per-property harnesses share: the
// registry, generic findings (crash, deadlock, leak, race) with stable signatures.
package hk

import (
	"runtime"
	"fmt"
	"regexp"
	"sort"
	"strings"

	"verif/engine"
	"verif/rt/vrt"
)

// Check is the entry point of one property harness, run inside a worker process.
type Check func(ctx *engine.Ctx)

var Registry = map[string]Check{}

// Replayers re-run one recorded case of a unit and return its findings.
type Replayer func(ctx *engine.Ctx, rp engine.Replay) []*engine.Finding

var Replayers = map[string]Replayer{}

func Register(id string, c Check) { Registry[id] = c }

var digits = regexp.MustCompile(`[0-9]+`)
var hexaddr = regexp.MustCompile(`0x[0-9a-f]+`)

func norm(s string) string {
	s = hexaddr.ReplaceAllString(s, "0x#")
	return digits.ReplaceAllString(s, "#")
}

// CrashSig derives a signature from a recorded crash: normalised panic value + first repo frame.
func CrashSig(crash string) string {
	lines := strings.Split(crash, "\n")
	val := lines[0]
	if i := strings.Index(val, ": "); i >= 0 {
		val = val[i+2:]
	}
	frame := "?"
	for _, l := range lines[1:] {
		if strings.HasPrefix(l, "github.com/Jigsaw-Code/outline-ss-server/") {
			f := strings.TrimPrefix(l, "github.com/Jigsaw-Code/outline-ss-server/")
			if i := strings.LastIndex(f, "("); i > 0 {
				f = f[:i]
			}
			frame = f
			break
		}
	}
	if len(val) > 120 {
		val = val[:120]
	}
	return "crash{" + norm(val) + " @ " + frame + "}"
}

type Opts struct {
	Leaks bool // parked non-daemon, non-harness threads at the end are findings
	Races bool
	MapRaces bool // only unordered conflicting accesses of one map: the Go runtime aborts the process on them
	NoDeadlock bool
}

// Generic reports crash / deadlock / leak / race findings of one execution.
func Generic(x *vrt.Exec, o Opts) []*engine.Finding {
	var out []*engine.Finding
	if x.Crash != "" {
		out = append(out, &engine.Finding{Sig: CrashSig(x.Crash), Msg: "unrecovered panic (process exit in production): " + x.Crash})
		return out
	}
	if x.Livelock != "" {
		out = append(out, &engine.Finding{Sig: "livelock{" + x.Livelock + "}", Msg: fmt.Sprintf("the execution never ends: thread %s keeps running (%d steps) without blocking for good, repeating %s; a goroutine that spins like this burns a CPU and is never reclaimed", x.LivelockThread, x.Steps, x.Livelock)})
		return out
	}
	if x.Deadlock && !o.NoDeadlock {
		var parts []string
		for _, b := range x.BlockedOps {
			if b.Cycle {
				parts = append(parts, b.Kind+"@"+b.Site)
			}
		}
		kind := "deadlock-cycle{"
		if len(parts) == 0 {
			// no lock cycle: report every blocked synchronisation wait of the system and the harness
			kind = "deadlock{"
			for _, b := range x.BlockedOps {
				if b.Daemon || strings.HasPrefix(b.Kind, "tcp.") || strings.HasPrefix(b.Kind, "udp.") || b.Kind == "accept" {
					continue
				}
				parts = append(parts, b.Kind+"@"+b.Site)
			}
		}
		if len(parts) == 0 {
			for _, b := range x.BlockedOps {
				if !b.Daemon {
					parts = append(parts, b.Kind+"@"+b.Site)
				}
			}
		}
		sort.Strings(parts)
		parts = uniq(parts)
		out = append(out, &engine.Finding{Sig: kind + strings.Join(parts, " | ") + "}",
			Msg: "deadlock: nothing enabled, no timer pending, harness thread unfinished; blocked: " + strings.Join(x.Blocked, "; ")})
	} else if o.Leaks {
		if l := x.Leaked(); len(l) > 0 {
			var parts []string
			for _, b := range l {
				parts = append(parts, b.Kind+"@"+b.Site)
			}
			sort.Strings(parts)
			out = append(out, &engine.Finding{Sig: "leak{" + strings.Join(uniq(parts), " | ") + "}",
				Msg: fmt.Sprintf("%d thread(s) of the system still parked after everything ended: %s", len(l), strings.Join(x.Blocked, "; "))})
		}
	}
	if o.MapRaces && !o.Races {
		for _, r := range x.Races {
			if strings.Count(r.Sig, "map:") == 2 {
				out = append(out, &engine.Finding{Sig: "concurrent-map-access{" + strings.TrimSuffix(strings.TrimPrefix(r.Sig, "race{"), "}") + "}",
					Msg: "unsynchronised concurrent access to a map (the Go runtime aborts the process: fatal error: concurrent map read and map write): " + r.A + " <-> " + r.B})
			}
		}
	}
	if o.Races {
		for _, r := range x.Races {
			out = append(out, &engine.Finding{Sig: r.Sig, Msg: "data race (accesses unordered by happens-before): " + r.A + " <-> " + r.B})
		}
	}
	return out
}

func uniq(s []string) []string {
	var out []string
	for i, x := range s {
		if i == 0 || x != s[i-1] {
			out = append(out, x)
		}
	}
	return out
}

// Guard runs one pass-through (scheduler-less) case and turns a panic of the code under
// test into a finding instead of a worker crash.
func Guard(ctx *engine.Ctx, unit string, input any, f func()) {
	defer func() {
		if r := recover(); r != nil {
			buf := make([]byte, 8192)
			n := runtime.Stack(buf, false)
			crash := fmt.Sprintf("panic: %v\n%s", r, buf[:n])
			// drop our own frames and the panic machinery
			var keep []string
			for _, l := range strings.Split(crash, "\n") {
				if strings.Contains(l, "runtime/panic.go") || strings.Contains(l, "harness/hk") || strings.HasPrefix(l, "panic(") {
					continue
				}
				keep = append(keep, l)
			}
			crash = strings.Join(keep, "\n")
			ctx.Fail(unit, CrashSig(crash), "the code under test panicked: "+crash, input, nil)
		}
	}()
	f()
}
