package hk

import (
	"context"
	"log/slog"
	"strings"
	"sync"

	"verif/rt/vrt"
)

// The slog recorder: everything the server logs goes here; oracles look for
// recovered panics ("Panic in TCP handler", "Panic in UDP loop") and reload errors.

type LogEntry struct {
	Level slog.Level
	Msg   string
	Attrs string
}

type recorder struct {
	mu      sync.Mutex
	entries []LogEntry
}

var rec = &recorder{}

func LogRecorder() slog.Handler { return rec }

func (r *recorder) Enabled(context.Context, slog.Level) bool { return true }
func (r *recorder) Handle(_ context.Context, rc slog.Record) error {
	// writing a log record is a point at which a goroutine is readily preempted; harnesses that
	// ask for it get a scheduling point here (also for debug records, which are not kept)
	if x := vrt.Cur(); x != nil && x.LogYield && vrt.Active() {
		vrt.Yield("log")
	}
	if rc.Level < slog.LevelInfo {
		return nil
	}
	var b strings.Builder
	rc.Attrs(func(a slog.Attr) bool {
		b.WriteString(a.Key)
		b.WriteString("=")
		b.WriteString(a.Value.String())
		b.WriteString(" ")
		return true
	})
	r.mu.Lock()
	r.entries = append(r.entries, LogEntry{rc.Level, rc.Message, b.String()})
	r.mu.Unlock()
	return nil
}
func (r *recorder) WithAttrs([]slog.Attr) slog.Handler { return r }
func (r *recorder) WithGroup(string) slog.Handler      { return r }

// ResetLogs clears the recorder (start of an execution).
func ResetLogs() {
	rec.mu.Lock()
	rec.entries = nil
	rec.mu.Unlock()
}

func Logs() []LogEntry {
	rec.mu.Lock()
	defer rec.mu.Unlock()
	return append([]LogEntry(nil), rec.entries...)
}

// RecoveredPanics returns log records that report a recovered panic.
func RecoveredPanics() []string {
	var out []string
	for _, e := range Logs() {
		if strings.Contains(e.Msg, "Panic in") {
			out = append(out, e.Msg+" "+e.Attrs)
		}
	}
	return out
}
