// Package promx reads the real Prometheus collectors of the server by calling Collect
// directly (in the calling goroutine, so that a panic of the code under test is recoverable
// and no foreign goroutine enters instrumented code) and flattens the samples.
package promx

import (
	"fmt"
	"regexp"
	"reflect"
	"sort"
	"strings"

	"github.com/prometheus/client_golang/prometheus"
	dto "github.com/prometheus/client_model/go"
)

type Sample struct {
	Name   string
	Labels map[string]string
	Value  float64 // counter/gauge value, histogram sample count
	Sum    float64 // histogram sum
	Kind   string  // counter | gauge | histogram
}

var fqName = regexp.MustCompile(`fqName: "([^"]*)"`)

// nameOf reads the fully-qualified name of a descriptor (an unexported string field; reading it
// through reflection is cheap, parsing Desc.String() for every sample was not).
func nameOf(d *prometheus.Desc) string {
	v := reflect.ValueOf(d).Elem().FieldByName("fqName")
	if v.IsValid() && v.Kind() == reflect.String {
		return v.String()
	}
	if mm := fqName.FindStringSubmatch(d.String()); mm != nil {
		return mm[1]
	}
	return ""
}

// Gather collects all samples of c. The second result is kept for API compatibility (nil).
func Gather(c prometheus.Collector) (out []Sample, _ []*dto.MetricFamily, err error) {
	defer func() {
		if r := recover(); r != nil {
			err = fmt.Errorf("collector panicked: %v", r)
		}
	}()
	ch := make(chan prometheus.Metric, 4096)
	c.Collect(ch)
	close(ch)
	for m := range ch {
		var d dto.Metric
		if werr := m.Write(&d); werr != nil {
			return nil, nil, werr
		}
		s := Sample{Labels: map[string]string{}}
		s.Name = nameOf(m.Desc())
		for _, lp := range d.Label {
			s.Labels[lp.GetName()] = lp.GetValue()
		}
		switch {
		case d.Counter != nil:
			s.Value, s.Kind = d.Counter.GetValue(), "counter"
		case d.Gauge != nil:
			s.Value, s.Kind = d.Gauge.GetValue(), "gauge"
		case d.Histogram != nil:
			s.Value, s.Sum, s.Kind = float64(d.Histogram.GetSampleCount()), d.Histogram.GetSampleSum(), "histogram"
		}
		out = append(out, s)
	}
	return out, nil, nil
}

// Sum adds the values of all samples of name whose labels include want.
func Sum(samples []Sample, name string, want map[string]string) float64 {
	t := 0.0
	for _, s := range samples {
		if s.Name != name {
			continue
		}
		ok := true
		for k, v := range want {
			if s.Labels[k] != v {
				ok = false
			}
		}
		if ok {
			t += s.Value
		}
	}
	return t
}

func (s Sample) String() string {
	var ls []string
	for k, v := range s.Labels {
		ls = append(ls, k+"="+fmt.Sprintf("%q", v))
	}
	sort.Strings(ls)
	if s.Kind == "histogram" {
		return fmt.Sprintf("%s{%s} count=%v sum=%v", s.Name, strings.Join(ls, ","), s.Value, s.Sum)
	}
	return fmt.Sprintf("%s{%s} %v", s.Name, strings.Join(ls, ","), s.Value)
}

// Text renders the samples the way an exposition would show them (names, label names,
// label values, values).
func Text(samples []Sample) string {
	var b strings.Builder
	sort.Slice(samples, func(i, j int) bool { return samples[i].String() < samples[j].String() })
	for _, s := range samples {
		b.WriteString(s.String())
		b.WriteString("\n")
	}
	return b.String()
}
