// Package promx gathers the real Prometheus collectors of the server on a private registry
// (pass-through mode: no controlled execution may be active) and flattens the samples.
package promx

import (
	"fmt"
	"sort"
	"strings"

	"github.com/prometheus/client_golang/prometheus"
	dto "github.com/prometheus/client_model/go"
)

type Sample struct {
	Name   string
	Labels map[string]string
	Value  float64 // counter/gauge value, histogram sample count
	Sum    float64 // histogram sum
}

// Gather registers c on a fresh registry and returns all samples.
func Gather(c prometheus.Collector) ([]Sample, []*dto.MetricFamily, error) {
	reg := prometheus.NewPedanticRegistry()
	if err := reg.Register(c); err != nil {
		return nil, nil, err
	}
	mfs, err := reg.Gather()
	if err != nil {
		return nil, mfs, err
	}
	var out []Sample
	for _, mf := range mfs {
		for _, m := range mf.Metric {
			s := Sample{Name: mf.GetName(), Labels: map[string]string{}}
			for _, lp := range m.Label {
				s.Labels[lp.GetName()] = lp.GetValue()
			}
			switch {
			case m.Counter != nil:
				s.Value = m.Counter.GetValue()
			case m.Gauge != nil:
				s.Value = m.Gauge.GetValue()
			case m.Histogram != nil:
				s.Value = float64(m.Histogram.GetSampleCount())
				s.Sum = m.Histogram.GetSampleSum()
			}
			out = append(out, s)
		}
	}
	return out, mfs, nil
}

// Sum adds the values of all samples of name whose labels include want.
func Sum(samples []Sample, name string, want map[string]string) float64 {
	t := 0.0
	for _, s := range samples {
		if s.Name != name {
			continue
		}
		ok := true
		for k, v := range want {
			if s.Labels[k] != v {
				ok = false
			}
		}
		if ok {
			t += s.Value
		}
	}
	return t
}

func (s Sample) String() string {
	var ls []string
	for k, v := range s.Labels {
		ls = append(ls, k+"="+v)
	}
	sort.Strings(ls)
	return fmt.Sprintf("%s{%s} %v", s.Name, strings.Join(ls, ","), s.Value)
}
