// Package c16: UDP metrics match the datagrams actually relayed.
//
// The C03/C14 operation sequences run with a recording UDPMetrics teed into the real
// Prometheus collectors. Per step the expected report (existence, status, wire size, payload
// size) follows from what was observed on the sockets; per key and direction the sums of the
// reported bytes equal the bytes of the same datagrams on the client and target sockets;
// the gathered counters agree with the calls.
package c16

import (
	"encoding/json"
	"fmt"
	"strings"
	"time"

	outline_prometheus "github.com/Jigsaw-Code/outline-ss-server/prometheus"
	"github.com/Jigsaw-Code/outline-ss-server/service"
	"github.com/prometheus/client_golang/prometheus"

	"verif/engine"
	"verif/harness/c03"
	"verif/harness/hk"
	"verif/harness/promx"
	"verif/harness/udpx"
	"verif/harness/world"
	"verif/rt/vrt"
)

type input struct {
	Real bool      `json:"real_collectors"`
	Ops  []udpx.Op `json:"ops"`
	Big6 bool      `json:"dual_stack_proxy,omitempty"` // the proxy socket serves IPv6 clients too
}

func Oracle(tr *udpx.Trace) (string, []*engine.Finding) {
	var fs []*engine.Finding
	add := func(sig, format string, a ...any) {
		fs = append(fs, &engine.Finding{Sig: sig, Msg: fmt.Sprintf(format, a...)})
	}
	type key = string
	assocKey := map[int]*world.Key{}
	// sums observed on the sockets, per attributed key id
	var wireCP, wirePT, wireTP, wirePC = map[key]int64{}, map[key]int64{}, map[key]int64{}, map[key]int64{}
	var repCP, repPT, repTP, repPC = map[key]int64{}, map[key]int64{}, map[key]int64{}, map[key]int64{}
	assocID := map[int]string{} // client -> attributed key id of the live association
	obs := ""
	openAssocs := 0 // associations reported added and not yet reported removed
	for i, st := range tr.Steps {
		if st.Skipped {
			continue
		}
		op := st.Op
		var fc, ft, adds []world.UDPEvent
		for _, m := range st.Metrics {
			switch m.Kind {
			case "add":
				openAssocs++
			case "remove":
				openAssocs--
			}
		}
		if op.K == "A" && op.D > 5*time.Minute && openAssocs != 0 {
			// nothing was sent for longer than the NAT timeout: every association has ended, and its
			// removal is reported when it ends, not when the listener closes
			add("removal-report-late", "step %d %s: %d association(s) reported added are still not reported removed after %v without traffic (NAT timeout 5m)", i, op, openAssocs, op.D)
		}
		for _, m := range st.Metrics {
			switch m.Kind {
			case "fromClient":
				fc = append(fc, m)
			case "fromTarget":
				ft = append(ft, m)
			case "add":
				adds = append(adds, m)
			}
		}
		obs += fmt.Sprintf("%s:%d/%d/%d;", op.K, len(fc), len(ft), len(adds))
		switch op.K {
		case "S":
			var k *world.Key
			if op.Key >= 0 {
				k = tr.Keys[op.Key]
			} else {
				k = udpx.Foreign
			}
			created := len(st.NewSocks) > 0
			if !st.AliveBefore {
				delete(assocID, op.C)
				delete(assocKey, op.C)
			}
			if created {
				if len(adds) != 1 {
					add("add-report-count", "step %d %s: a new association was created but AddUDPNatEntry was called %d times", i, op, len(adds))
				} else {
					assocID[op.C] = adds[0].Key
					assocKey[op.C] = k
				}
			} else if len(adds) != 0 {
				add("add-report-spurious", "step %d %s: AddUDPNatEntry without a new association", i, op)
			}
			onAssoc := st.AliveBefore || created
			if !onAssoc {
				if len(fc) != 0 {
					add("client-report-without-association", "step %d %s: %d client-packet report(s) for a datagram that neither created nor used an association", i, op, len(fc))
				}
				break
			}
			if len(fc) != 1 {
				add("client-report-count", "step %d %s: datagram on an association reported %d times", i, op, len(fc))
				break
			}
			forwarded := len(st.TargetRecv) == 1
			want := "OK"
			if !forwarded {
				ak := assocKey[op.C]
				authOK := ak != nil && ak.Cipher == k.Cipher && ak.Secret == k.Secret && op.Mod != "flip" && op.Mod != "trunc-salt" && op.Mod != "trunc-tag" && op.Mod != "raw-wire"
				switch {
				case !authOK:
					want = "ERR_CIPHER"
				case op.Mod == "badtype" || op.Mod == "truncaddr" || op.Mod == "empty":
					want = "ERR_READ_ADDRESS"
				case op.Mod == "private" || op.Mod == "private-domain":
					want = "ERR_ADDRESS_PRIVATE"
				case op.Mod == "nxdomain":
					want = "ERR_RESOLVE_ADDRESS"
				case op.Mod == "loopback":
					want = "ERR_ADDRESS_INVALID"
				default:
					want = "ERR_?"
				}
			}
			r := fc[0]
			if r.Status != want && want != "ERR_?" {
				add("client-report-status{"+want+"->"+r.Status+"}", "step %d %s: reported status %s, outcome was %s", i, op, r.Status, want)
			}
			pt := int64(0)
			if forwarded {
				pt = int64(len(st.TargetRecv[0].Data))
			}
			if r.A != int64(len(st.Sent)) || r.B != pt {
				add("client-report-bytes", "step %d %s: reported wire=%d payload=%d, the datagram had wire=%d and %d payload bytes reached the target", i, op, r.A, r.B, len(st.Sent), pt)
			}
			id := assocID[op.C]
			wireCP[id] += int64(len(st.Sent))
			wirePT[id] += pt
			repCP[r.Key] += r.A
			repPT[r.Key] += r.B
		case "R", "X":
			if !st.AliveBefore {
				if len(ft) != 0 {
					add("target-report-without-association", "step %d %s: %d target-packet report(s) although the association is gone", i, op, len(ft))
				}
				break
			}
			if len(ft) != 1 {
				add("target-report-count", "step %d %s: reply on a live association reported %d times", i, op, len(ft))
				break
			}
			r := ft[0]
			pc := int64(0)
			if len(st.ClientRecv) == 1 {
				pc = int64(len(st.ClientRecv[0].Data))
			}
			tpWire := int64(len(st.Sent))
			if r.A != tpWire && len(st.Sent) <= 65000 || r.B != pc {
				add("target-report-bytes", "step %d %s: reported payload=%d wire=%d, the reply had %d payload bytes and %d bytes were sent to the client", i, op, r.A, r.B, tpWire, pc)
			}
			if (r.Status == "OK") != (pc > 0 || len(st.Sent) == 0 && len(st.ClientRecv) == 1) {
				add("target-report-status", "step %d %s: status %s but %d datagrams relayed", i, op, r.Status, len(st.ClientRecv))
			}
			id := assocID[op.C]
			if len(st.Sent) <= 65000 {
				wireTP[id] += tpWire
			} else {
				// a reply larger than the relay buffer may be read truncated: its reported payload size is
				// not asserted (the datagram is not relayed anyway), but it stays in the sums on both sides
				wireTP[id] += r.A
			}
			repTP[r.Key] += r.A
			wirePC[id] += pc
			repPC[r.Key] += r.B
		default:
			if len(fc)+len(ft)+len(adds) != 0 {
				add("spontaneous-report", "step %d %s: %d/%d/%d reports without traffic", i, op, len(fc), len(ft), len(adds))
			}
		}
	}
	for _, m := range []struct {
		n        string
		rep, obs map[key]int64
	}{{"c>p", repCP, wireCP}, {"p>t", repPT, wirePT}, {"p<t", repTP, wireTP}, {"c<p", repPC, wirePC}} {
		for k, v := range m.obs {
			if m.rep[k] != v {
				add("sum-mismatch", "direction %s key %q: reported %d bytes, observed %d", m.n, k, m.rep[k], v)
			}
		}
		for k, v := range m.rep {
			if m.obs[k] != v {
				add("sum-mismatch", "direction %s key %q: reported %d bytes, observed %d", m.n, k, v, m.obs[k])
			}
		}
	}
	addsN, removes := 0, map[int]int{}
	for _, m := range tr.AllMetrics {
		if m.Kind == "add" {
			addsN++
		}
		if m.Kind == "remove" {
			removes[m.Assoc]++
		}
	}
	for id := 1; id <= addsN; id++ {
		if removes[id] != 1 {
			add("removal-report-count", "association #%d: removal reported %d times", id, removes[id])
		}
	}
	if tr.Real != nil {
		samples, _, err := promx.Gather(tr.Real.(prometheus.Collector))
		if err != nil {
			add("gather-error", "%v", err)
		} else {
			if a, r := promx.Sum(samples, "udp_nat_entries_added", nil), promx.Sum(samples, "udp_nat_entries_removed", nil); int(a) != addsN || int(r) != addsN {
				add("prom-nat-entries", "udp_nat_entries_added=%v removed=%v, %d associations", a, r, addsN)
			}
			// one count per client datagram report and status
			byStatus := map[string]int{}
			for _, m := range tr.AllMetrics {
				if m.Kind == "fromClient" {
					byStatus[m.Status]++
				}
			}
			for st, n := range byStatus {
				if got := int(promx.Sum(samples, "udp_packets_from_client_per_location", map[string]string{"status": st})); got != n {
					add("prom-packets", "udp_packets_from_client_per_location{status=%s}=%d, %d client datagrams were reported with that status", st, got, n)
				}
			}
			if got, n := int(promx.Sum(samples, "udp_packets_from_client_per_location", nil)), len(byStatus); got == 0 && n > 0 {
				add("prom-packets", "udp_packets_from_client_per_location is empty")
			}
			// the per-location series carries the same bytes, direction by direction
			for dir, rep := range map[string]map[key]int64{"c>p": repCP, "p>t": repPT, "p<t": repTP, "c<p": repPC} {
				var want int64
				for _, v := range rep {
					want += v
				}
				if got := int64(promx.Sum(samples, "data_bytes_per_location", map[string]string{"proto": "udp", "dir": dir})); got != want {
					add("prom-bytes-per-location", "data_bytes_per_location{udp,%s}=%d, reported %d", dir, got, want)
				}
			}
			for dir, rep := range map[string]map[key]int64{"c>p": repCP, "p>t": repPT, "p<t": repTP, "c<p": repPC} {
				for k, v := range rep {
					if got := int64(promx.Sum(samples, "data_bytes", map[string]string{"proto": "udp", "dir": dir, "access_key": k})); got != v {
						add("prom-bytes", "data_bytes{udp,%s,%s}=%d, reported %d", dir, k, got, v)
					}
				}
			}
		}
	}
	return obs, fs
}

func newReal() service.UDPMetrics {
	m, err := outline_prometheus.NewServiceMetrics(nil)
	if err != nil {
		panic(err)
	}
	return m
}

func scenario(in input) *engine.Scenario {
	tr := &udpx.Trace{}
	sc := &engine.Scenario{Name: "udp-metrics", Opt: vrt.Options{Horizon: udpx.Horizon}}
	sc.Body = func() {
		// (the second key's ID is the empty string: legal, and reported like any other)
		ks := udpx.DefaultKeys()
		ks[1] = world.MakeKey("", ks[1].Cipher, ks[1].Secret)
		cfg := udpx.Config{Keys: ks, NatTimeout: 5 * time.Minute, DualStack: in.Big6}
		if in.Real {
			cfg.Real = newReal
		}
		udpx.Run(cfg, in.Ops, tr)
	}
	sc.Check = func(x *vrt.Exec) (string, bool, []*engine.Finding) {
		fs := hk.Generic(x, hk.Opts{})
		if len(fs) > 0 {
			return "generic", true, fs
		}
		obs, more := Oracle(tr)
		for _, f := range more {
			f.Msg += fmt.Sprintf(" [ops %v]", in.Ops)
		}
		return obs, true, more
	}
	return sc
}

// reportRace: a DNS server that answers at once. The answer fast-closes the association (one
// query, one response), possibly before the handler loop has reported the datagram it has just
// relayed: whatever the interleaving, every datagram that reached a target is reported exactly
// once, and so is every answer relayed to the client.
func reportRace(n int) *engine.Scenario {
	tr := &udpx.Trace{}
	var ops []udpx.Op
	for i := 0; i < n; i++ {
		ops = append(ops, udpx.Op{K: "S", C: i % 2, Key: i % 2, T: 0, N: 30 + i})
	}
	sc := &engine.Scenario{Name: fmt.Sprintf("report-race-%d", n), Opt: vrt.Options{Horizon: udpx.Horizon, LogYield: true}}
	sc.Body = func() {
		udpx.Run(udpx.Config{Keys: udpx.DefaultKeys(), NatTimeout: 5 * time.Minute, AutoReply: []int{0}}, ops, tr)
	}
	sc.Check = func(x *vrt.Exec) (string, bool, []*engine.Finding) {
		fs := hk.Generic(x, hk.Opts{})
		if len(fs) > 0 {
			return "generic", true, fs
		}
		relayed, answered, fc, ft := 0, 0, 0, 0
		for _, st := range tr.Steps {
			relayed += len(st.TargetRecv)
			answered += len(st.ClientRecv)
		}
		for _, m := range tr.AllMetrics {
			switch m.Kind {
			case "fromClient":
				if m.Status == "OK" {
					fc++
				}
			case "fromTarget":
				if m.Status == "OK" {
					ft++
				}
			}
		}
		if fc != relayed {
			fs = append(fs, &engine.Finding{Sig: "client-report-count", Msg: fmt.Sprintf("%d client datagrams reached the DNS target (which answers at once), %d were reported", relayed, fc)})
		}
		if ft != answered {
			fs = append(fs, &engine.Finding{Sig: "target-report-count", Msg: fmt.Sprintf("%d answers reached the clients, %d were reported", answered, ft)})
		}
		return fmt.Sprint(relayed, answered, fc, ft), true, fs
	}
	return sc
}

func raceScenarios() []*engine.Scenario {
	return []*engine.Scenario{reportRace(1), reportRace(2)}
}

func menu() []udpx.Op {
	m := c03.Menu()
	m = append(m, udpx.Op{K: "A", D: 20 * time.Second}, udpx.Op{K: "A", D: 6 * time.Minute})
	// replies too large to be packed / relayed, and a datagram whose write to the target fails
	m = append(m, udpx.Op{K: "R", C: 0, T: 1, N: 65480}, udpx.Op{K: "R", C: 0, T: 1, N: 65507},
		udpx.Op{K: "S", C: 0, Key: 0, N: 9, Mod: "raw:93.184.216.34:0"},
		// a destination given as a name that does not resolve
		udpx.Op{K: "S", C: 0, Key: 0, T: 1, N: 6, Mod: "nxdomain"},
		// an empty datagram, and one of seven arbitrary bytes
		udpx.Op{K: "S", C: 0, Key: 0, N: 0, Mod: "raw-wire"}, udpx.Op{K: "S", C: 0, Key: 0, N: 7, Mod: "raw-wire"})
	return m
}

// deepMenu: few operations, long histories (an association that has seen several datagrams,
// expires, and whose client comes back; another client in between).
func deepMenu() []udpx.Op {
	return []udpx.Op{
		{K: "S", C: 0, Key: 0, T: 1, N: 20},
		{K: "S", C: 1, Key: 1, T: 1, N: 14},
		{K: "R", C: 0, T: 1, N: 16},
		{K: "A", D: 20 * time.Second},
		{K: "A", D: 6 * time.Minute},
	}
}

func init() {
	hk.Register("C16", func(ctx *engine.Ctx) {
		bound := 2
		if ctx.Tier == "thorough" {
			bound = 4
		}
		for _, sc := range raceScenarios() {
			engine.ExploreS(ctx, sc, engine.SConfig{BothPolicies: true, Bound: bound, Shard: ctx.Shard, NShards: ctx.NShards, Deadline: ctx.Deadline})
		}
		depth := 3
		if ctx.Tier == "thorough" {
			depth = 4
		}
		m := menu()
		total := int64(1)
		for i := 0; i < depth; i++ {
			total *= int64(len(m))
		}
		for code := int64(0); code < total; code++ {
			if !ctx.Mine(code) {
				continue
			}
			if ctx.Expired() {
				ctx.Incomplete("udp-metrics", "udp-metrics: time cap hit at sequence %d of %d (depth %d)", code, total, depth)
				return
			}
			ops := make([]udpx.Op, depth)
			c := code
			for i := 0; i < depth; i++ {
				ops[i] = m[c%int64(len(m))]
				c /= int64(len(m))
			}
			in := input{Real: code%3 == 0, Ops: ops}
			ctx.RunCase("udp-metrics", "Q", scenario(in), in, nil)
		}
		ctx.Res.Note("udp-metrics: all %d^%d sequences; every third one also through the real Prometheus collectors", len(m), depth)
		// datagrams of a client with an IPv6 address close to the largest UDP payload (65527 bytes
		// over IPv6), first and on a live association
		for i, n := range []int{65400, 65450, 65460, 65465, 65470, 65472} {
			if !ctx.Mine(int64(i)) {
				continue
			}
			in := input{Real: i%2 == 0, Big6: true, Ops: []udpx.Op{{K: "S", C: 3, Key: 0, T: 1, N: 10}, {K: "S", C: 3, Key: 0, T: 1, N: n}, {K: "R", C: 3, T: 1, N: 20}}}
			sc := scenario(in)
			sc.Name = "udp-metrics-big6"
			ctx.RunCase("udp-metrics-big6", "Q", sc, in, nil)
		}
		dm := deepMenu()
		dd := 5
		if ctx.Tier == "thorough" {
			dd = 7
		}
		dtotal := int64(1)
		for i := 0; i < dd; i++ {
			dtotal *= int64(len(dm))
		}
		for code := int64(0); code < dtotal; code++ {
			if !ctx.Mine(code) {
				continue
			}
			if ctx.Expired() {
				ctx.Incomplete("udp-metrics-deep", "udp-metrics-deep: time cap hit at sequence %d of %d (depth %d)", code, dtotal, dd)
				return
			}
			ops := make([]udpx.Op, dd)
			c := code
			for i := 0; i < dd; i++ {
				ops[i] = dm[c%int64(len(dm))]
				c /= int64(len(dm))
			}
			in := input{Real: code%5 == 0, Ops: ops}
			sc := scenario(in)
			sc.Name = "udp-metrics-deep"
			ctx.RunCase("udp-metrics-deep", "Q", sc, in, nil)
		}
	})
	hk.Replayers["C16"] = func(ctx *engine.Ctx, rp engine.Replay) []*engine.Finding {
		if strings.HasPrefix(rp.Unit, "report-race") {
			return engine.ReplayScenario(raceScenarios(), rp)
		}
		var in input
		if err := json.Unmarshal(rp.Input, &in); err != nil {
			return []*engine.Finding{{Sig: "BROKEN:bad-input", Msg: err.Error()}}
		}
		rp.Choices = nil
		if rp.Unit == "udp-metrics-big6" {
			return engine.ReplayCase("udp-metrics-big6", scenario(in), rp)
		}
		if rp.Unit == "udp-metrics-deep" {
			return engine.ReplayCase("udp-metrics-deep", scenario(in), rp)
		}
		return engine.ReplayCase("udp-metrics", scenario(in), rp)
	}
}
