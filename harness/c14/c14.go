// Package c14: UDP associations live as long as promised and are always reclaimed.
//
// Engine Q on the virtual clock: all sequences up to depth d over {DNS / non-DNS datagrams of
// two clients, replies from port 53 / port 80, time advances around 17 s and the NAT timeout,
// listener shutdown} on the real packet handler. The reference is the statement: promised(c) =
// max over forwarded datagrams of (send time + 17 s for port 53, else the timeout); the
// deadlines the server itself sets on its sockets are read from the vnet log.
package c14

import (
	"encoding/json"
	"fmt"
	"strconv"
	"strings"
	"time"

	"verif/engine"
	"verif/harness/hk"
	"verif/harness/udpx"
	"verif/rt/vrt"
)

type input struct {
	SharedAddr bool          `json:"shared_address,omitempty"` // the handler reads from a listener-manager handle and another handle on the address stays open (a reload that keeps the address)
	Timeout    time.Duration `json:"nat_timeout"`
	Ops        []udpx.Op     `json:"ops"`
	SlowRemove time.Duration `json:"slow_remove,omitempty"`     // every removal report takes this long: the teardown window is open for that time
	Listeners  int           `json:"listeners,omitempty"`       // UDP listeners of the service (one handler)
	Service    bool          `json:"default_service,omitempty"` // the handler inside a service built with NewShadowsocksService and no NAT timeout (default 5 minutes)
}

type assoc struct {
	port       string
	promised   time.Duration
	sends      int
	firstDNS   bool
	reads      int
	fastClosed bool // a permitted fast close has happened
	createdAt  int
	id         int
}

func isDNSTarget(t int) bool { return t == 0 || t == 3 || t == 7 }

func Oracle(tr *udpx.Trace) (string, []*engine.Finding) {
	var fs []*engine.Finding
	add := func(sig, format string, a ...any) {
		fs = append(fs, &engine.Finding{Sig: sig, Msg: fmt.Sprintf(format, a...)})
	}
	T := tr.NatTimeout
	live := map[int]*assoc{}
	var all []*assoc
	closedPorts := map[string]time.Duration{}
	obs := ""
	for i, st := range tr.Steps {
		if st.Skipped {
			continue
		}
		op := st.Op
		now := st.At
		for _, p := range st.ClosedSocks {
			closedPorts[portOf(p)] = now
		}
		switch op.K {
		case "S":
			a := live[op.C]
			if a != nil && !st.AliveBefore {
				// the association is gone: allowed only after the promise ran out or a permitted fast close
				if now < a.promised && !a.fastClosed {
					add("association-expired-early", "step %d %s at %v: the association (opened at step %d) was promised until %v but is gone", i, op, now, a.createdAt, a.promised)
				}
				a = nil
				live[op.C] = nil
				// "the entry removed": the client's next valid datagram opens a new association
				if op.Mod == "" && op.Raw == nil && op.Key >= 0 && len(st.NewSocks) != 1 {
					add("entry-not-removed", "step %d %s at %v: the client's association has ended, yet its next datagram did not open a new one (%d new sockets, %d datagrams forwarded)", i, op, now, len(st.NewSocks), len(st.TargetRecv))
				}
			}
			if len(st.TargetRecv) == 0 && (len(st.NewSocks) == 1 || (a != nil && st.AliveBefore)) && strings.HasPrefix(op.Mod, "raw:") {
				// an authenticated, allowed datagram whose write to the target failed: it opened or used
				// the association (it is client traffic) but nothing is promised for it
				if a == nil {
					a = &assoc{port: portOf(st.NewSocks[0]), createdAt: i, id: len(all)}
					live[op.C] = a
					all = append(all, a)
				}
				a.sends++
				a.firstDNS = false
			}
			usedDying := a != nil && st.AliveBefore && len(st.NewSocks) == 0 && a.promised > 0 && now >= a.promised
			if len(st.TargetRecv) == 1 {
				dns := isDNSTarget(st.TargetRecv[0].Who)
				port := strconv.Itoa(st.TargetRecv[0].FromUDP.Port)
				if a == nil {
					a = &assoc{port: port, firstDNS: dns, createdAt: i, id: len(all)}
					live[op.C] = a
					all = append(all, a)
				} else if a.port != port {
					add("source-changed-while-promised", "step %d %s: live association moved from port %s to %s", i, op, a.port, port)
					a.port = port
				}
				a.sends++
				a.fastClosed = false
				p := now + T
				if dns {
					p = now + 17*time.Second
				}
				if usedDying {
					// the deadline had passed without client traffic and the association is being
					// torn down (the teardown takes time): the datagram went out through it, but
					// nothing is promised for it. Had the server opened a new association instead,
					// that one would carry the full promise.
				} else if p > a.promised {
					a.promised = p
				}
			}
		case "E":
			if a := live[op.C]; a != nil && st.AliveBefore && contains(st.ClosedSocks, a.port) && now < a.promised && !a.fastClosed {
				add("association-expired-early", "step %d %s at %v: a transient read error on the outbound socket tore the association down, it was promised until %v", i, op, now, a.promised)
			}
		case "R", "X":
			a := live[op.C]
			if a == nil {
				break
			}
			fromDNS := (op.K == "R" && (isDNSTarget(op.T) || op.T == 4)) || (op.K == "X" && op.T == 1)
			if st.AliveBefore {
				if len(st.ClientRecv) != 1 && now < a.promised && !a.fastClosed {
					add("reply-not-relayed-while-promised", "step %d %s at %v: association promised until %v but the reply was not relayed", i, op, now, a.promised)
				}
				a.reads++
				if a.sends == 1 && a.firstDNS && a.reads == 1 && fromDNS {
					// exactly one DNS query, first response from a DNS server: closes right away
					a.fastClosed = true
					if !contains(st.ClosedSocks, a.port) {
						add("dns-fast-close-missing", "step %d %s: association with a single DNS query did not close right after the first DNS response", i, op)
					}
				}
			} else if now < a.promised && !a.fastClosed {
				add("association-expired-early", "step %d %s at %v: association promised until %v is gone", i, op, now, a.promised)
			}
		}
		obs += fmt.Sprintf("%s:%v:%d:%d;", op.K, st.AliveBefore, len(st.NewSocks), len(st.ClosedSocks))
	}
	// deadlines never move earlier (except an immediate expiry: the value equals the instant it was set)
	for _, st := range tr.Steps {
		for _, ev := range st.Net {
			_ = ev
		}
	}
	last := map[string]time.Duration{}
	for _, st := range tr.Steps {
		for _, ev := range st.Net {
			if ev.Kind != "udp.setreaddeadline" {
				continue
			}
			d := time.Duration(ev.N)
			if prev, ok := last[ev.A]; ok && d < prev && d != ev.T {
				add("deadline-moved-earlier", "socket %s: read deadline moved from %v back to %v at %v", ev.A, prev, d, ev.T)
			}
			last[ev.A] = d
		}
	}
	// reclamation: once the clock has passed the deadline the server set, at the next quiescent
	// point the socket is closed; everything is closed at the end; one removal report per association
	for _, st := range tr.Steps {
		_ = st
	}
	removes := map[int]int{}
	addsN := 0
	for _, m := range tr.AllMetrics {
		switch m.Kind {
		case "add":
			addsN++
		case "remove":
			removes[m.Assoc]++
		}
	}
	if addsN != len(all) {
		add("association-count", "server reported %d associations, the trace shows %d", addsN, len(all))
	}
	for id := 1; id <= addsN; id++ {
		if removes[id] != 1 {
			add("removal-report-count", "association #%d: removal reported %d times, want exactly once", id, removes[id])
		}
	}
	// reclamation whatever the server did with its deadlines: an association whose client has been
	// silent for longer than max(timeout, 17 s) is gone at the next quiescent point
	idle := T
	if idle < 17*time.Second {
		idle = 17 * time.Second
	}
	lastTraffic := map[string]time.Duration{} // server socket port -> last client datagram on it
	clientPort := map[int]string{}
	reported := map[string]bool{}
	for _, st := range tr.Steps {
		if st.Skipped {
			continue
		}
		if st.Op.K == "S" {
			if len(st.NewSocks) == 1 {
				clientPort[st.Op.C] = portOf(st.NewSocks[0])
			}
			if p, ok := clientPort[st.Op.C]; ok {
				if _, closed := closedPorts[p]; !closed || closedPorts[p] >= st.At {
					lastTraffic[p] = st.At
				}
			}
		}
		end := st.At
		if st.Op.K == "A" {
			end += st.Op.D
		}
		for p, last := range lastTraffic {
			closedAt, closed := closedPorts[p]
			if end > last+idle+tr.Slack && (!closed || closedAt > end) && !reported[p] {
				reported[p] = true
				add("idle-association-not-reclaimed", "server socket port %s: the client has been silent since %v, it is now %v (timeout %v) and the association still holds its socket", p, last, end, T)
			}
		}
	}
	// per-step reclamation check using the server's own deadlines
	dl := map[string]time.Duration{} // socket -> current deadline
	for _, st := range tr.Steps {
		for _, ev := range st.Net {
			if ev.Kind == "udp.setreaddeadline" {
				dl[portOf(ev.A)] = time.Duration(ev.N)
			}
		}
		end := st.At
		if st.Op.K == "A" {
			end = st.At + st.Op.D
		}
		for port, d := range dl {
			if _, closed := closedPorts[port]; closed {
				continue
			}
			if d > 0 && end > d+tr.Slack && !containsAny(tr, port, end) {
				add("not-reclaimed", "socket port %s: deadline %v passed (now %v) without client traffic but the socket is still open", port, d, end)
				delete(dl, port)
			}
		}
	}
	if len(tr.Open) > 0 {
		add("socket-leak", "server sockets open after shutdown: %v", tr.Open)
	}
	if !tr.Returned {
		add("handle-not-returned", "PacketHandler.Handle did not return after its socket was closed")
	}
	// shutdown expires everything promptly: the step of Q (or END) closes all sockets without a clock advance
	for _, st := range tr.Steps {
		if st.Op.K == "Q" || st.Op.K == "END" {
			for _, ev := range st.Net {
				if ev.Kind == "udp.close" && ev.B == "srv" && ev.T != st.At {
					add("shutdown-not-prompt", "shutdown at %v closed %s only at %v", st.At, ev.A, ev.T)
				}
			}
			break
		}
	}
	return obs, fs
}

func containsAny(tr *udpx.Trace, port string, t time.Duration) bool {
	// closed at exactly this step's end?
	for _, st := range tr.Steps {
		for _, p := range st.ClosedSocks {
			if portOf(p) == port {
				end := st.At
				if st.Op.K == "A" {
					end += st.Op.D
				}
				if end <= t {
					return true
				}
			}
		}
	}
	return false
}

func portOf(addr string) string {
	for i := len(addr) - 1; i >= 0; i-- {
		if addr[i] == ':' {
			return addr[i+1:]
		}
	}
	return addr
}

func contains(addrs []string, port string) bool {
	for _, a := range addrs {
		if portOf(a) == port {
			return true
		}
	}
	return false
}

func menu(T time.Duration) []udpx.Op {
	return []udpx.Op{
		{K: "S", C: 0, Key: 0, T: 0, N: 30},                      // DNS query
		{K: "S", C: 0, Key: 0, T: 1, N: 30},                      // non-DNS
		{K: "S", C: 1, Key: 1, T: 3, N: 12},                      // second client, DNS
		{K: "S", C: 1, Key: 1, N: 9, Mod: "raw:93.184.216.34:0"}, // the write to the target fails (port 0)
		{K: "R", C: 0, T: 0, N: 50},                              // reply from port 53
		{K: "R", C: 0, T: 1, N: 50},                              // reply from port 80
		{K: "R", C: 1, T: 3, N: 50},
		{K: "S", C: 0, Key: 0, T: 6, N: 21}, // port 8053: not DNS
		{K: "R", C: 0, T: 6, N: 22},
		{K: "S", C: 0, Key: 0, T: 7, N: 23}, // DNS server with an IPv6 address
		{K: "R", C: 0, T: 7, N: 24},
		{K: "E", C: 0}, // transient read error on client 0's outbound socket
		{K: "A", D: time.Second},
		{K: "A", D: 16 * time.Second},
		{K: "A", D: 17*time.Second + time.Millisecond},
		{K: "A", D: T - time.Second},
		{K: "A", D: T + time.Millisecond},
		{K: "Q"},
	}
}

// windowInputs: histories around the teardown window of an association. With a removal report
// that takes w = 2 ms the window [deadline, deadline+w] is open in virtual time; the offsets put a
// datagram of the same client / a reply / another client's first datagram before, inside, at the
// end of and after it, for the plain timeout and the 17 s DNS lifetime, followed by more traffic
// and a long idle period (everything must be reclaimed, every association removed exactly once).
func windowInputs() []input {
	const w = 2 * time.Millisecond
	var out []input
	T := 10 * time.Second
	type open struct {
		op   udpx.Op
		life time.Duration
	}
	opens := []open{{udpx.Op{K: "S", C: 0, Key: 0, T: 1, N: 30}, T}, {udpx.Op{K: "S", C: 0, Key: 0, T: 0, N: 30}, 17 * time.Second}}
	for _, o := range opens {
		for _, off := range []time.Duration{-time.Millisecond, 0, time.Millisecond, w, w + time.Millisecond} {
			adv := udpx.Op{K: "A", D: o.life + off}
			again := udpx.Op{K: "S", C: 0, Key: 0, T: 1, N: 31}
			more := []udpx.Op{{K: "A", D: 5 * time.Millisecond}, {K: "S", C: 0, Key: 0, T: 1, N: 32}, {K: "R", C: 0, T: 1, N: 40}, {K: "A", D: T + 20*time.Millisecond}}
			// the same client again
			out = append(out, input{Timeout: T, SlowRemove: w, Ops: append([]udpx.Op{o.op, adv, again}, more...)})
			// a reply, then the same client
			out = append(out, input{Timeout: T, SlowRemove: w, Ops: append([]udpx.Op{o.op, adv, {K: "R", C: 0, T: 1, N: 41}, again}, more...)})
			// another client opens, then the first client again
			out = append(out, input{Timeout: T, SlowRemove: w, Ops: append([]udpx.Op{o.op, adv, {K: "S", C: 1, Key: 1, T: 1, N: 33}, again}, more...)})
			// two datagrams of the same client inside the window
			out = append(out, input{Timeout: T, SlowRemove: w, Ops: append([]udpx.Op{o.op, adv, again, {K: "S", C: 0, Key: 0, T: 2, N: 34}}, more...)})
		}
	}
	return out
}

func scenario(in input) *engine.Scenario {
	tr := &udpx.Trace{}
	sc := &engine.Scenario{Name: "nat-life", Opt: vrt.Options{Horizon: udpx.Horizon}}
	sc.Body = func() {
		udpx.Run(udpx.Config{Keys: udpx.DefaultKeys(), NatTimeout: in.Timeout, SlowRemove: in.SlowRemove, ViaManager: in.SharedAddr, KeepOther: in.SharedAddr, Listeners: in.Listeners, ViaService: in.Service}, in.Ops, tr)
	}
	sc.Check = func(x *vrt.Exec) (string, bool, []*engine.Finding) {
		fs := hk.Generic(x, hk.Opts{Leaks: true})
		if len(fs) > 0 {
			return "generic", true, fs
		}
		obs, more := Oracle(tr)
		for _, f := range more {
			f.Msg += fmt.Sprintf(" [timeout %v, ops %v]", in.Timeout, in.Ops)
		}
		return obs, true, more
	}
	return sc
}

// raceScenarios: a second client datagram racing the DNS reply that fast-closes an association
// with a single DNS query; engine S. Whichever is processed first wins (both outcomes are
// allowed: closed, or kept). What must not happen: the datagram has already extended the
// deadline (it was accepted on this association) and the reply still moves the deadline back
// to "now" - the deadline never moves earlier.
// RaceScenarios is used by C19 (the outcome must equal some sequential order of the calls).
func RaceScenarios() []*engine.Scenario { return raceScenarios() }

func raceScenarios() []*engine.Scenario {
	var out []*engine.Scenario
	inputs := [][]udpx.Op{
		{{K: "S", C: 0, Key: 0, T: 0, N: 30}, {K: "A", D: 5 * time.Second}, {K: "P", Par: []udpx.Op{{K: "S", C: 0, Key: 0, T: 0, N: 31}, {K: "R", C: 0, T: 0, N: 40}}}, {K: "S", C: 0, Key: 0, T: 0, N: 32}},
		{{K: "S", C: 0, Key: 0, T: 0, N: 30}, {K: "A", D: 2 * time.Second}, {K: "P", Par: []udpx.Op{{K: "S", C: 0, Key: 0, T: 1, N: 31}, {K: "R", C: 0, T: 3, N: 40}}}},
	}
	for i, ops := range inputs {
		ops := ops
		tr := &udpx.Trace{}
		sc := &engine.Scenario{Name: fmt.Sprintf("nat-race-%d", i), Opt: vrt.Options{Horizon: udpx.Horizon}}
		sc.Body = func() {
			udpx.Run(udpx.Config{Keys: udpx.DefaultKeys(), NatTimeout: 300 * time.Second}, ops, tr)
		}
		sc.Check = func(x *vrt.Exec) (string, bool, []*engine.Finding) {
			fs := hk.Generic(x, hk.Opts{Leaks: true})
			obs := ""
			if len(fs) == 0 {
				ext := map[string]int{} // socket -> number of deadline extensions (= datagrams accepted on it)
				for si, st := range tr.Steps {
					for _, ev := range st.Net {
						if ev.Kind != "udp.setreaddeadline" {
							continue
						}
						d := time.Duration(ev.N)
						switch {
						case d > ev.T:
							ext[ev.A]++
							obs += "e"
						case st.Op.K == "Q" || st.Op.K == "END":
							obs += "q"
						default:
							obs += "c"
							if ext[ev.A] >= 2 {
								fs = append(fs, &engine.Finding{Sig: "deadline-moved-earlier", Msg: fmt.Sprintf("step %d: socket %s had accepted %d client datagrams (deadline extended to beyond %v) and its deadline was then moved back to now by the DNS reply's fast close", si, ev.A, ext[ev.A], ev.T)})
							}
						}
					}
				}
			}
			return obs, true, fs
		}
		out = append(out, sc)
	}
	return out
}

func init() {
	hk.Register("C14", func(ctx *engine.Ctx) {
		for _, sc := range raceScenarios() {
			engine.ExploreS(ctx, sc, engine.SConfig{BothPolicies: true, Bound: 3, Shard: ctx.Shard, NShards: ctx.NShards, Deadline: ctx.Deadline})
		}
		depth := 4
		if ctx.Tier == "thorough" {
			depth = 5
		}
		var idx int64
		for _, T := range []time.Duration{300 * time.Second, 10 * time.Second} {
			m := menu(T)
			total := int64(1)
			for i := 0; i < depth; i++ {
				total *= int64(len(m))
			}
			for code := int64(0); code < total; code++ {
				idx++
				if !ctx.Mine(idx) {
					continue
				}
				if ctx.Expired() {
					ctx.Incomplete("nat-life", "nat-life: time cap hit at sequence %d of %d (depth %d, timeout %v)", code, total, depth, T)
					return
				}
				ops := make([]udpx.Op, depth)
				c := code
				for i := 0; i < depth; i++ {
					ops[i] = m[c%int64(len(m))]
					c /= int64(len(m))
				}
				in := input{Timeout: T, Ops: ops}
				ctx.RunCase("nat-life", "Q", scenario(in), in, nil)
			}
		}
		// shutdown of a handler whose address stays open for somebody else (the handle is closed, the
		// socket is not): the handler ends and its associations expire at once all the same
		for _, ops := range [][]udpx.Op{
			{{K: "S", C: 0, Key: 0, T: 1, N: 30}, {K: "S", C: 1, Key: 1, T: 3, N: 12}, {K: "Q"}},
			{{K: "S", C: 0, Key: 0, T: 0, N: 30}, {K: "A", D: time.Second}, {K: "Q"}, {K: "A", D: 20 * time.Second}},
			{{K: "Q"}},
		} {
			idx++
			if ctx.Mine(idx) {
				in := input{Timeout: 300 * time.Second, Ops: ops, SharedAddr: true}
				sc := scenario(in)
				sc.Name = "nat-shared-shutdown"
				ctx.RunCase("nat-shared-shutdown", "E", sc, in, nil)
			}
		}
		// a service with two UDP listeners (one handler) loses one of them: the associations of the
		// clients of the other listener keep their promise (reply relayed, same source afterwards)
		for _, keep := range []int{0, 1} {
			gone := 1 - keep
			for _, T := range []time.Duration{300 * time.Second, 10 * time.Second} {
				ops := []udpx.Op{{K: "S", C: gone, Key: gone, T: 1, N: 30, L: gone}, {K: "S", C: keep, Key: keep, T: 1, N: 12, L: keep}, {K: "QL", L: gone},
					{K: "A", D: time.Second}, {K: "R", C: keep, T: 1, N: 20}, {K: "S", C: keep, Key: keep, T: 1, N: 9, L: keep}, {K: "A", D: T - 2*time.Second}, {K: "R", C: keep, T: 1, N: 7}}
				idx++
				if ctx.Mine(idx) {
					in := input{Timeout: T, Ops: ops, Listeners: 2}
					sc := scenario(in)
					sc.Name = "nat-listener-dropped"
					ctx.RunCase("nat-listener-dropped", "E", sc, in, nil)
				}
			}
		}
		// long histories of few operations (one client: non-DNS and DNS datagrams, a DNS reply,
		// pauses of 16 s and of more than the timeout)
		{
			T := 300 * time.Second
			dm := []udpx.Op{{K: "S", C: 0, Key: 0, T: 1, N: 30}, {K: "S", C: 0, Key: 0, T: 0, N: 30}, {K: "R", C: 0, T: 0, N: 50}, {K: "A", D: 16 * time.Second}, {K: "A", D: T + time.Second}}
			dd := 6
			if ctx.Tier == "thorough" {
				dd = 8
			}
			dtotal := int64(1)
			for i := 0; i < dd; i++ {
				dtotal *= int64(len(dm))
			}
			for code := int64(0); code < dtotal; code++ {
				idx++
				if !ctx.Mine(idx) {
					continue
				}
				if ctx.Expired() {
					ctx.Incomplete("nat-life-deep", "nat-life-deep: time cap hit at sequence %d of %d", code, dtotal)
					break
				}
				ops := make([]udpx.Op, dd)
				c := code
				for i := 0; i < dd; i++ {
					ops[i] = dm[c%int64(len(dm))]
					c /= int64(len(dm))
				}
				in := input{Timeout: T, Ops: ops}
				sc := scenario(in)
				sc.Name = "nat-life-deep"
				ctx.RunCase("nat-life-deep", "Q", sc, in, nil)
				if code%5 == 0 {
					// the same history through a service built with its defaults (5 minutes)
					in.Service = true
					sc := scenario(in)
					sc.Name = "nat-life-deep"
					ctx.RunCase("nat-life-deep", "Q", sc, in, nil)
				}
			}
		}
		// three datagrams of one client with gaps g1, g2 < timeout, then a reply just before the
		// promise of the third runs out: the association is alive all the time
		for _, T := range []time.Duration{10 * time.Second, 300 * time.Second} {
			step := T / 10
			if ctx.Tier == "thorough" {
				step = T / 20
			}
			for g1 := step; g1 < T; g1 += step {
				for g2 := step; g2 < T; g2 += step {
					idx++
					if !ctx.Mine(idx) {
						continue
					}
					if ctx.Expired() {
						ctx.Incomplete("nat-gaps", "nat-gaps: time cap hit at pair %d", idx)
						break
					}
					in := input{Timeout: T, Ops: []udpx.Op{{K: "S", C: 0, Key: 0, T: 1, N: 30}, {K: "A", D: g1}, {K: "S", C: 0, Key: 0, T: 1, N: 30}, {K: "A", D: g2},
						{K: "S", C: 0, Key: 0, T: 1, N: 30}, {K: "A", D: T - time.Second}, {K: "R", C: 0, T: 1, N: 20}, {K: "A", D: 2 * time.Second}}}
					sc := scenario(in)
					sc.Name = "nat-gaps"
					ctx.RunCase("nat-gaps", "Q", sc, in, nil)
				}
			}
		}
		// teardown windows: the removal report takes 2 ms, and client datagrams, replies and a
		// second client arrive inside, at the edges of and after the window
		for i, in := range windowInputs() {
			idx++
			if ctx.Mine(idx) {
				sc := scenario(in)
				sc.Name = "nat-window"
				ctx.RunCase("nat-window", "E", sc, in, nil)
				_ = i
			}
		}
		ctx.Res.Note("nat-life: all %d^%d sequences for NAT timeouts 300 s and 10 s", len(menu(time.Second)), depth)
	})
	hk.Replayers["C14"] = func(ctx *engine.Ctx, rp engine.Replay) []*engine.Finding {
		if strings.HasPrefix(rp.Unit, "nat-race") {
			return engine.ReplayScenario(raceScenarios(), rp)
		}
		var in input
		if err := json.Unmarshal(rp.Input, &in); err != nil {
			return []*engine.Finding{{Sig: "BROKEN:bad-input", Msg: err.Error()}}
		}
		rp.Choices = nil
		if rp.Unit == "nat-window" || rp.Unit == "nat-shared-shutdown" || rp.Unit == "nat-listener-dropped" || rp.Unit == "nat-gaps" || rp.Unit == "nat-life-deep" {
			return engine.ReplayCase(rp.Unit, scenario(in), rp)
		}
		return engine.ReplayCase("nat-life", scenario(in), rp)
	}
}
