// Package c11: reload never interrupts service on retained listeners.
//
// Engine S on the real server (package main) over vnet: a reload (through the real SIGHUP
// path) racing a new TCP client and a UDP client on a retained address, with a connection
// that was opened before the reload (idle after the handshake, mid-transfer, or half-closed)
// and finishes after it; one and two consecutive reloads. Invariant at every scheduling
// point: the retained TCP and UDP addresses are bound. End oracle: no dial refused, every
// connection handled by exactly one generation, retained-key clients authenticated (and
// served unless their handler's context was cancelled before it had dialed the target, the
// documented open outcome), the pre-existing connection completes intact.
package c11

import (
	"fmt"
	"strings"
	"syscall"
	"time"

	"verif/engine"
	"verif/harness/c12"
	"verif/harness/hk"
	"verif/harness/srv"
	"verif/harness/world"
	"verif/rt/vnet"
	"verif/rt/vrt"
)

var (
	kA = srv.Key{ID: "a", Cipher: "chacha20-ietf-poly1305", Secret: "s-a"}
	kB = srv.Key{ID: "b", Cipher: "aes-256-gcm", Secret: "s-b"}
	kC = srv.Key{ID: "c", Cipher: "aes-128-gcm", Secret: "s-c"}
)

var cfgA = srv.Cfg{Services: []srv.Svc{{Listeners: []srv.Ln{{Type: "tcp", Addr: "127.0.0.1:9000"}, {Type: "udp", Addr: "127.0.0.1:9000"}}, Keys: []srv.Key{kA, kB}}}}
var cfgB = srv.Cfg{Services: []srv.Svc{{Listeners: []srv.Ln{{Type: "tcp", Addr: "127.0.0.1:9000"}, {Type: "udp", Addr: "127.0.0.1:9000"}, {Type: "tcp", Addr: "127.0.0.1:9001"}}, Keys: []srv.Key{kC, kA}}}}

// cfgD lists, ahead of the retained service, another service that offers the retained key as well
// (what one service offers must not depend on what another one does)
var cfgD = srv.Cfg{Services: []srv.Svc{
	{Listeners: []srv.Ln{{Type: "tcp", Addr: "127.0.0.1:9002"}}, Keys: []srv.Key{kA}},
	// (and it lists one secret twice, under two IDs, ahead of the retained key)
	{Listeners: []srv.Ln{{Type: "tcp", Addr: "127.0.0.1:9000"}, {Type: "udp", Addr: "127.0.0.1:9000"}}, Keys: []srv.Key{kC, {ID: "c-again", Cipher: kC.Cipher, Secret: kC.Secret}, kA}},
}}

// the same two configurations in the legacy `keys:` format (every port serves TCP and UDP)
var cfgLA = srv.Cfg{Legacy: []srv.Legacy{{Key: kA, Port: 9000}, {Key: kB, Port: 9000}}}
var cfgLB = srv.Cfg{Legacy: []srv.Legacy{{Key: kC, Port: 9000}, {Key: kA, Port: 9000}, {Key: kC, Port: 9001}}}

// cfgC keeps TCP on the retained address and drops the UDP listener of the same address
var cfgC = srv.Cfg{Services: []srv.Svc{{Listeners: []srv.Ln{{Type: "tcp", Addr: "127.0.0.1:9000"}, {Type: "tcp", Addr: "127.0.0.1:9001"}}, Keys: []srv.Key{kC, kA}}}}

// cfgBad is cfgB plus a listener that cannot be bound: the reload must fail and change nothing
var cfgBad = srv.Cfg{Services: []srv.Svc{{Listeners: []srv.Ln{{Type: "tcp", Addr: "127.0.0.1:9000"}, {Type: "udp", Addr: "127.0.0.1:9000"}, {Type: "tcp", Addr: "127.0.0.1:9009"}}, Keys: []srv.Key{kC, kA}}}}

type spec struct {
	Pre     string // idle | mid | half (client has sent FIN, target answers late) | thalf (target has sent FIN, client still uploads)
	Reloads int
	UDP     bool
	Legacy  bool // configurations in the legacy format
	DropUDP bool // the first reload drops the UDP listener of the retained address (TCP stays), the second brings it back
	SharedKey bool // the new configuration has another service, listed first, that offers the retained key too
	Failing bool // the reload cannot succeed (a new listener cannot be bound): service on the running configuration goes on
	Second  bool // a second TCP client and a second datagram right behind the first ones (the first of two
	// arrivals goes to the generation that has been waiting longest, the second to the other one)
}

func (s spec) name() string {
	n := fmt.Sprintf("reload[pre=%s,reloads=%d,udp=%v]", s.Pre, s.Reloads, s.UDP)
	if s.Legacy {
		n += "[legacy]"
	}
	if s.Second {
		n += "[two-clients]"
	}
	if s.DropUDP {
		n += "[udp-dropped-then-back]"
	}
	if s.Failing {
		n += "[failing-reload]"
	}
	if s.SharedKey {
		n += "[key-shared-with-new-service]"
	}
	return n
}

type obsT struct {
	preGot      string
	preWant     string
	preTgtGot   string
	preTgtWant  string
	preErr      string
	probe       srv.ProbeResult
	udp         srv.ProbeResult
	probe2      srv.ProbeResult
	udp2        srv.ProbeResult
	afterTCP    srv.ProbeResult
	afterUDP    srv.ProbeResult
	afterNew    srv.ProbeResult
	newKeyIn    bool
	handled     map[string]int
	failedLoad  bool
	final       []string
}

func scenario(s spec) *engine.Scenario {
	var o obsT
	sc := &engine.Scenario{Name: s.name(), Opt: vrt.Options{Horizon: 24 * time.Hour}}
	sc.Body = func() {
		o = obsT{handled: map[string]int{}}
		w := srv.NewWorld()
		// a second target that answers only when released (for the half-closed pre-existing connection)
		released := false
		slow := world.StartTarget("93.184.216.34:81", func(t *world.Target, i int, c *vnet.TCPConn) {
			t.ReadAll(i, c)
			vrt.WaitUntil("target.wait-release", c, func() bool { return released })
			c.Write(append([]byte("late:"), t.Got[i]...))
			c.Close()
		})
		// a third target that answers at once, half-closes, and keeps reading (the pre-existing
		// connection is then half-closed from the target's side while the client still uploads)
		var early *world.Target
		early = world.StartTarget("93.184.216.34:82", func(t *world.Target, i int, c *vnet.TCPConn) {
			c.Write([]byte("early:answer"))
			c.CloseWrite()
			t.ReadAll(i, c)
			c.Close()
		})
		bootCfg, cfgs := cfgA, []srv.Cfg{cfgB, cfgA}
		if s.Legacy {
			bootCfg, cfgs = cfgLA, []srv.Cfg{cfgLB, cfgLA}
		}
		if s.DropUDP {
			cfgs = []srv.Cfg{cfgC, cfgA}
		}
		if s.SharedKey {
			cfgs = []srv.Cfg{cfgD, cfgA}
		}
		if s.Failing {
			w.VW.BindErr["tcp/127.0.0.1:9009"] = syscall.EADDRINUSE
			cfgs = []srv.Cfg{cfgBad, cfgBad}
		}
		if err := w.Boot(bootCfg, 0); err != nil {
			panic(err)
		}
		vrt.SetInvariant(func() string {
			if !w.VW.ListeningTCP(9000) {
				return "the retained TCP address 127.0.0.1:9000 is not bound"
			}
			if !s.DropUDP && !w.VW.BoundUDP(9000) {
				return "the retained UDP address 127.0.0.1:9000 is not bound"
			}
			return ""
		})
		// the pre-existing connection
		key := world.MakeKey(kA.ID, kA.Cipher, kA.Secret)
		pre := world.Dial("203.0.113.250:0")
		preReader := vrt.Spawn("pre-reader", func() { pre.ReadAll() })
		first, second := []byte("first-part;"), []byte("second-part")
		dst := srv.TargetTCP
		if s.Pre == "half" {
			dst = "93.184.216.34:81"
		}
		if s.Pre == "thalf" {
			dst = "93.184.216.34:82"
		}
		full := world.EncodeStream(key, 77, world.Addr(dst), first, second)
		cut := len(world.EncodeStream(key, 77, world.Addr(dst)))
		switch s.Pre {
		case "mid", "thalf":
			cut = len(world.EncodeStream(key, 77, world.Addr(dst), first))
		case "half":
			cut = len(full)
		}
		pre.Send(full[:cut], 0)
		if s.Pre == "half" {
			pre.CloseWrite()
		}
		vrt.WaitIdle()
		// the race: reload(s) || new TCP client || UDP client
		var ts []*vrt.Thread
		ts = append(ts, vrt.Spawn("reloader", func() {
			for i := 0; i < s.Reloads; i++ {
				w.RaiseReload(cfgs[i%2])
				if i+1 < s.Reloads {
					vrt.WaitIdle()
				}
			}
		}))
		ln := srv.Listener{Type: "tcp", Addr: "127.0.0.1:9000"}
		ts = append(ts, vrt.Spawn("client", func() {
			vrt.Yield("client")
			o.probe = probeTCP(w, ln, kA)
		}))
		if s.UDP {
			ts = append(ts, vrt.Spawn("udp-client", func() {
				vrt.Yield("udp-client")
				o.udp = probeUDP(w, kA)
			}))
		}
		if s.Second {
			ts = append(ts, vrt.Spawn("client2", func() {
				vrt.Yield("client2")
				o.probe2 = w.ProbeTCP(ln, kA, 4248)
			}))
			if s.UDP {
				ts = append(ts, vrt.Spawn("udp-client2", func() {
					vrt.Yield("udp-client2")
					o.udp2 = w.ProbeUDP(srv.Listener{Type: "udp", Addr: "127.0.0.1:9000"}, kA, 4349)
				}))
			}
		}
		vrt.Join(ts...)
		vrt.WaitIdle()
		for _, l := range hk.Logs() {
			if strings.HasPrefix(l.Msg, "Failed to update server") {
				o.failedLoad = true
			}
		}
		// the reload is complete: service on the retained address must be fully there again
		// (first connection and first datagram after the reload, answer included)
		o.afterUDP = w.ProbeUDP(srv.Listener{Type: "udp", Addr: "127.0.0.1:9000"}, kA, 4545)
		o.afterTCP = w.ProbeTCP(ln, kA, 4646)
		// a client whose key only the configuration now in force has: it must be served by that
		// configuration (a generation that has been stopped must not take connections any more)
		if s.Reloads%2 == 1 && !s.Failing && !s.DropUDP {
			o.newKeyIn = true
			o.afterNew = w.ProbeTCP(ln, kC, 4747)
		}
		// the pre-existing connection finishes now
		if s.Pre != "half" {
			pre.Send(full[cut:], 0)
			pre.CloseWrite()
		}
		released = true
		vrt.Join(preReader)
		pre.Close()
		vrt.WaitIdle()
		plain, _ := world.DecodeStream(key, pre.Got)
		o.preGot, o.preErr = string(plain), pre.Err
		o.preWant = "pong:" + string(first) + string(second)
		if s.Pre == "half" {
			o.preWant = "late:" + string(first) + string(second)
		}
		if s.Pre == "thalf" {
			o.preWant = "early:answer"
			o.preTgtWant = string(first) + string(second)
			if len(early.Got) > 0 {
				o.preTgtGot = string(early.Got[0])
			}
		}
		for _, r := range w.M.TCP {
			o.handled[r.Remote]++
		}
		vrt.SetInvariant(nil)
		w.Shutdown()
		slow.Ln.Close()
		early.Ln.Close()
		o.final = w.Bound()
	}
	sc.Check = func(x *vrt.Exec) (string, bool, []*engine.Finding) {
		fs := hk.Generic(x, hk.Opts{})
		add := func(sig, format string, a ...any) {
			fs = append(fs, &engine.Finding{Sig: sig, Msg: fmt.Sprintf(format, a...)})
		}
		if x.Crash == "" && !x.Deadlock {
			if x.InvariantViolation != "" {
				add("retained-address-unbound", "during the reload: %s", x.InvariantViolation)
			}
			if o.failedLoad && !s.Failing {
				add("valid-reload-failed", "the reload of a valid configuration was reported as failed")
			}
			if o.probe.Refused {
				add("connection-refused", "a connection attempt to the retained address was refused during the reload")
			} else {
				if !o.probe.Authed || o.probe.AuthID != "a" {
					add("retained-key-rejected{tcp}", "a client with a key present in both configurations was not authenticated during the reload (status %s, id %q)", o.probe.Status, o.probe.AuthID)
				} else if !o.probe.Served && o.probe.Status != "ERR_CONNECT" {
					add("retained-client-not-served", "authenticated client during the reload: status %s, reply %q", o.probe.Status, o.probe.Reply)
				}
			}
			// (the statement promises that the datagram is handled by one generation and authenticates; it
			// does not promise that the association outlives the generation that handled it, so the
			// target's answer is not required here)
			if s.UDP && !o.udp.Forwarded {
				add("retained-key-rejected{udp}", "a datagram under a retained key sent during the reload did not reach the target (authenticated=%v)", o.udp.Authed)
			}
			if s.Second {
				if o.probe2.Refused {
					add("connection-refused", "a second connection attempt to the retained address was refused during the reload")
				} else if !o.probe2.Authed || o.probe2.AuthID != "a" {
					add("retained-key-rejected{tcp}", "a second client with a key present in both configurations was not authenticated during the reload (status %s, id %q)", o.probe2.Status, o.probe2.AuthID)
				} else if !o.probe2.Served && o.probe2.Status != "ERR_CONNECT" {
					add("retained-client-not-served", "second authenticated client during the reload: status %s, reply %q", o.probe2.Status, o.probe2.Reply)
				}
				if s.UDP && !o.udp2.Forwarded {
					add("retained-key-rejected{udp}", "a second datagram under a retained key sent during the reload did not reach the target (authenticated=%v)", o.udp2.Authed)
				}
			}
			if !o.afterUDP.Served {
				add("first-datagram-after-reload-not-served", "the first datagram on the retained address after the reload had completed: forwarded=%v, answer relayed=%v", o.afterUDP.Forwarded, o.afterUDP.Served)
			}
			if o.newKeyIn && !o.afterNew.Served {
				add("new-key-not-served-after-reload", "after the reload had completed, a client using a key of the new configuration on the retained address was not served (authenticated=%v status %s): handled by a generation that has been stopped?", o.afterNew.Authed, o.afterNew.Status)
			}
			if !o.afterTCP.Served {
				add("first-connection-after-reload-not-served", "the first connection on the retained address after the reload had completed: status %s", o.afterTCP.Status)
			}
			for r, n := range o.handled {
				if n != 1 {
					add("handled-by-two-generations", "connection from %s was reported opened %d times", r, n)
				}
			}
			if o.preGot != o.preWant {
				add("preexisting-connection-broken{"+s.Pre+"}", "the connection opened before the reload received %q, want %q (client error %q)", o.preGot, o.preWant, o.preErr)
			}
			if o.preTgtGot != o.preTgtWant {
				add("preexisting-connection-broken{"+s.Pre+",upload}", "the connection opened before the reload (half-closed by the target, client still uploading): the target received %q, want %q (client error %q)", o.preTgtGot, o.preTgtWant, o.preErr)
			}
		}
		obs := fmt.Sprint(o.probe.Status, o.probe.Served, o.udp.Forwarded, o.preGot == o.preWant, len(o.handled))
		return obs, true, fs
	}
	return sc
}

func probeTCP(w *srv.World, l srv.Listener, k srv.Key) srv.ProbeResult { return w.ProbeTCP(l, k, 4242) }
func probeUDP(w *srv.World, k srv.Key) srv.ProbeResult {
	return w.ProbeUDP(srv.Listener{Type: "udp", Addr: "127.0.0.1:9000"}, k, 4343)
}

func scenarios(tier string) []*engine.Scenario {
	var out []*engine.Scenario
	for _, pre := range []string{"idle", "mid", "half"} {
		if pre == "mid" && tier != "thorough" {
			continue // quick: covered by the two-reload scenario below
		}
		out = append(out, scenario(spec{Pre: pre, Reloads: 1, UDP: pre == "idle"}))
	}
	out = append(out, scenario(spec{Pre: "mid", Reloads: 2, UDP: true}))
	out = append(out, scenario(spec{Pre: "thalf", Reloads: 1}))
	out = append(out, scenario(spec{Pre: "idle", Reloads: 1, UDP: true, Legacy: true, Second: true}))
	out = append(out, scenario(spec{Pre: "idle", Reloads: 2, DropUDP: true}))
	out = append(out, scenario(spec{Pre: "mid", Reloads: 1, UDP: true, Failing: true}))
	out = append(out, scenario(spec{Pre: "idle", Reloads: 1, UDP: true, SharedKey: true}))
	if tier == "thorough" {
		out = append(out, scenario(spec{Pre: "idle", Reloads: 1, UDP: true, Legacy: true}))
		out = append(out, scenario(spec{Pre: "idle", Reloads: 1, UDP: true, Second: true}))
	}
	return out
}

func handover() []*engine.Scenario {
	var out []*engine.Scenario
	for _, sc := range c12.HandoverScenarios() {
		packet := strings.HasPrefix(sc.Name, "packet")
		sc.Name = "handover-" + sc.Name
		inner := sc.Check
		sc.Check = func(x *vrt.Exec) (string, bool, []*engine.Finding) {
			obs, nt, fs := inner(x)
			var keep []*engine.Finding
			for _, f := range fs {
				switch {
				// (call-after-close, packet side only: a datagram taken by the generation that has already
				// been stopped is not served - that handler's association table is torn down as it leaves;
				// a connection taken the same way is still served to its end, which C11 allows)
				case f.Sig == "lost-while-handle-open", f.Sig == "delivered-twice", f.Sig == "call-after-close" && packet, strings.HasPrefix(f.Sig, "crash{"), strings.HasPrefix(f.Sig, "deadlock"):
					f.Msg = "hand-over of a retained address from the old to the new generation: " + f.Msg
					keep = append(keep, f)
				}
			}
			return obs, nt, keep
		}
		out = append(out, sc)
	}
	return out
}

func init() {
	hk.Register("C11", func(ctx *engine.Ctx) {
		bound := 1
		if ctx.Tier == "thorough" {
			bound = 2
		}
		// the hand-over itself at component level, where the window is a few scheduling points
		// wide: the old generation's handle closes while the new generation's handle accepts;
		// every connection / datagram must be handled by exactly one of them (none lost, none twice)
		for _, sc := range handover() {
			engine.ExploreS(ctx, sc, engine.SConfig{BothPolicies: true, Bound: bound + 2, Shard: ctx.Shard, NShards: ctx.NShards, Deadline: ctx.Deadline})
		}
		for _, sc := range scenarios(ctx.Tier) {
			// the scenarios with two clients also under the second base policy (newest goroutine first:
			// a freshly started generation gets to run before the reloading goroutine continues)
			b := bound
			if strings.Contains(sc.Name, "[udp-dropped-then-back]") || strings.Contains(sc.Name, "[failing-reload]") || strings.Contains(sc.Name, "[key-shared-with-new-service]") {
				// what these two are about does not depend on the interleaving: default schedule (and
				// every data choice) in the quick tier, deviation bound 1 in the thorough one
				b = bound - 1
			}
			if strings.Contains(sc.Name, "[two-clients]") && ctx.Tier != "thorough" {
				// quick: only under the second base policy (newest goroutine first), which is the one that
				// lets a freshly started generation run before the reloading goroutine continues
				rev := *sc
				rev.Name = sc.Name + "#rev"
				rev.Opt.Policy = 1
				engine.ExploreS(ctx, &rev, engine.SConfig{Bound: b, Shard: ctx.Shard, NShards: ctx.NShards, Deadline: ctx.Deadline})
				continue
			}
			engine.ExploreS(ctx, sc, engine.SConfig{Bound: b, BothPolicies: strings.Contains(sc.Name, "[two-clients]"), Shard: ctx.Shard, NShards: ctx.NShards, Deadline: ctx.Deadline})
		}
	})
	hk.Replayers["C11"] = func(ctx *engine.Ctx, rp engine.Replay) []*engine.Finding {
		return engine.ReplayScenario(append(scenarios("thorough"), handover()...), rp)
	}
}

var _ = time.Second
