// Package srv drives the whole server (package main of cmd/outline-ss-server) from harness
// code. Package main cannot be imported, so the file injected into it through the build
// overlay (inject/zz_verif_main.go.txt) registers Start here. Reloads go through the real
// SIGHUP path: the instrumenter redirects signal.Notify to vrt, the harness raises SIGHUP
// and waits for quiescence.
package srv

import (
	"fmt"
	"net"
	"os"
	"path/filepath"
	"strings"
	"syscall"
	"time"

	"github.com/Jigsaw-Code/outline-ss-server/service"

	"verif/harness/hk"
	"verif/harness/world"
	"verif/rt/vnet"
	"verif/rt/vrt"
)

type Facade interface{ Stop() error }

// Start is registered by package main: RunOutlineServer(configPath, natTimeout, newPrometheusServerMetrics(), m, replayHistory).
var Start func(configPath string, natTimeout time.Duration, replayHistory int, m service.ServiceMetrics) (Facade, error)

// ---- configuration model ----

type Key struct{ ID, Cipher, Secret string }

type Ln struct{ Type, Addr string }

type Svc struct {
	Listeners []Ln
	Keys      []Key
}

type Legacy struct {
	Key
	Port int
}

type Cfg struct {
	Services []Svc
	Legacy   []Legacy
	Raw      string // if set: the literal file content (malformed YAML etc.)
	Missing  bool   // the file does not exist
}

func (c Cfg) YAML() string {
	if c.Raw != "" {
		return c.Raw
	}
	var b strings.Builder
	if len(c.Services) > 0 {
		b.WriteString("services:\n")
		for _, s := range c.Services {
			b.WriteString("  - listeners:\n")
			for _, l := range s.Listeners {
				fmt.Fprintf(&b, "      - type: %s\n        address: %q\n", l.Type, l.Addr)
			}
			b.WriteString("    keys:\n")
			for _, k := range s.Keys {
				fmt.Fprintf(&b, "      - id: %q\n        cipher: %s\n        secret: %q\n", k.ID, k.Cipher, k.Secret)
			}
		}
	}
	if len(c.Legacy) > 0 {
		b.WriteString("keys:\n")
		for _, k := range c.Legacy {
			fmt.Fprintf(&b, "  - id: %q\n    port: %d\n    cipher: %s\n    secret: %q\n", k.ID, k.Port, k.Cipher, k.Secret)
		}
	}
	if b.Len() == 0 {
		return "services: []\n"
	}
	return b.String()
}

// Listener identifies one bound address of a configuration.
type Listener struct {
	Type string // tcp | udp
	Addr string // as configured
	Keys []Key  // keys of the owning service / port, in configured order
}

func (l Listener) Port() int {
	_, p, _ := net.SplitHostPort(l.Addr)
	var n int
	fmt.Sscanf(p, "%d", &n)
	return n
}

// DialAddr is where a client reaches the listener.
func (l Listener) DialAddr() string {
	h, p, _ := net.SplitHostPort(l.Addr)
	if h == "" || h == "::" || h == "0.0.0.0" {
		h = "127.0.0.1"
	}
	return net.JoinHostPort(h, p)
}

// Listeners flattens a configuration into its listeners with the keys each one must accept.
func (c Cfg) Listeners() []Listener {
	var out []Listener
	for _, s := range c.Services {
		for _, l := range s.Listeners {
			out = append(out, Listener{l.Type, l.Addr, s.Keys})
		}
	}
	ports := map[int][]Key{}
	var order []int
	for _, k := range c.Legacy {
		if _, ok := ports[k.Port]; !ok {
			order = append(order, k.Port)
		}
		ports[k.Port] = append(ports[k.Port], k.Key)
	}
	for _, p := range order {
		a := fmt.Sprintf(":%d", p)
		out = append(out, Listener{"tcp", a, ports[p]}, Listener{"udp", a, ports[p]})
	}
	return out
}

// Expect returns whether key k must authenticate on l and with which ID it is attributed.
// canonCipher: the two spellings of a cipher name name the same cipher.
func canonCipher(name string) string {
	switch strings.ToUpper(name) {
	case "AEAD_CHACHA20_POLY1305", "CHACHA20-IETF-POLY1305":
		return "chacha20-ietf-poly1305"
	case "AEAD_AES_256_GCM", "AES-256-GCM":
		return "aes-256-gcm"
	case "AEAD_AES_192_GCM", "AES-192-GCM":
		return "aes-192-gcm"
	case "AEAD_AES_128_GCM", "AES-128-GCM":
		return "aes-128-gcm"
	}
	return name
}

func (l Listener) Expect(k Key) (bool, string) {
	for _, c := range l.Keys {
		if canonCipher(c.Cipher) == canonCipher(k.Cipher) && c.Secret == k.Secret {
			return true, c.ID
		}
	}
	return false, ""
}

// ---- recording service metrics ----

type TCPRec struct {
	Local  string
	Remote string
	*world.ConnRec
}

type Metrics struct {
	TCP []*TCPRec
	UDP world.UDPRec
}

func (m *Metrics) AddOpenTCPConnection(conn net.Conn) service.TCPConnMetrics {
	r := &TCPRec{Local: conn.LocalAddr().String(), Remote: conn.RemoteAddr().String(), ConnRec: &world.ConnRec{Remote: conn.RemoteAddr().String()}}
	m.TCP = append(m.TCP, r)
	return r.ConnRec
}
func (m *Metrics) AddUDPNatEntry(clientAddr net.Addr, accessKey string) service.UDPConnMetrics {
	return m.UDP.AddUDPNatEntry(clientAddr, accessKey)
}
func (m *Metrics) AddCipherSearch(proto string, accessKeyFound bool, timeToCipher time.Duration) {}

// ---- the world ----

type World struct {
	NatTimeout time.Duration // the server's UDP NAT timeout (the -udptimeout flag); 0: 5 minutes
	Dir     string
	Path    string
	Server  Facade
	M       *Metrics
	VW      *vnet.World
	Target  *world.Target
	UDPTgt  *vnet.UDPConn
	SplitAt int // TCP probes send their first SplitAt bytes, wait, then the rest (0: one write)
	udpInbox []vnet.Datagram // everything the UDP target has received (probes may run concurrently: none may take another's datagram)
	nclient int
}

const TargetTCP = "93.184.216.34:80"
const TargetUDP = "93.184.216.34:5353"

var tmpRoot string

// NewWorld prepares the environment (vnet, targets, a scratch config path). Call inside an execution.
func NewWorld() *World {
	if tmpRoot == "" {
		d, err := os.MkdirTemp("", "verif-srv-")
		if err != nil {
			panic(err)
		}
		tmpRoot = d
	}
	w := &World{Dir: tmpRoot, Path: filepath.Join(tmpRoot, "config.yml"), M: &Metrics{}}
	w.VW = vnet.Reset()
	vrt.ResetSignals()
	hk.ResetLogs()
	w.Target = world.StartTarget(TargetTCP, func(t *world.Target, i int, c *vnet.TCPConn) {
		// echo target: replies "pong:" + what it received, when the client half-closes
		t.ReadAll(i, c)
		c.Write(append([]byte("pong:"), t.Got[i]...))
		c.Close()
	})
	u, err := vnet.EnvListenUDP(world.UDPAddr(TargetUDP))
	if err != nil {
		panic(err)
	}
	w.UDPTgt = u
	return w
}

// Cleanup removes the scratch directory (end of the worker).
func Cleanup() {
	if tmpRoot != "" {
		os.RemoveAll(tmpRoot)
	}
}

func (w *World) write(c Cfg) {
	if c.Missing {
		os.Remove(w.Path)
		return
	}
	if err := os.WriteFile(w.Path, []byte(c.YAML()), 0o600); err != nil {
		panic(err)
	}
}

// Boot starts the server with configuration c.
func (w *World) Boot(c Cfg, replayHistory int) error {
	w.write(c)
	nt := w.NatTimeout
	if nt == 0 {
		nt = 5 * time.Minute
	}
	s, err := Start(w.Path, nt, replayHistory, w.M)
	if err != nil {
		return err
	}
	w.Server = s
	vrt.WaitIdle()
	return nil
}

// Reload writes c and delivers SIGHUP, then waits for quiescence. It reports whether the
// server logged a reload failure.
func (w *World) Reload(c Cfg) (failed bool) {
	w.write(c)
	before := len(hk.Logs())
	if vrt.Raise(syscall.SIGHUP) == 0 {
		panic("SIGHUP was not taken by the server")
	}
	vrt.WaitIdle()
	for _, l := range hk.Logs()[before:] {
		if strings.HasPrefix(l.Msg, "Failed to update server") {
			return true
		}
	}
	return false
}

// RaiseReload only writes the file and raises the signal (for schedule exploration).
func (w *World) RaiseReload(c Cfg) {
	w.write(c)
	vrt.Raise(syscall.SIGHUP)
}

type ProbeResult struct {
	Refused  bool
	Status   string
	AuthID   string
	Authed   bool
	Reply    []byte
	Served   bool // the target's answer came back intact
	Forwarded bool // UDP: the datagram reached the target
}

// ProbeTCP opens a connection to l with key k from a fresh client address.
func (w *World) ProbeTCP(l Listener, k Key, seed uint64) ProbeResult {
	w.nclient++
	return w.ProbeTCPFrom(l, k, seed, fmt.Sprintf("203.0.113.%d", 1+w.nclient%200))
}

// ProbeTCPFrom opens a connection to l with key k from the given client IP and relays one
// request through the echo target.
func (w *World) ProbeTCPFrom(l Listener, k Key, seed uint64, ip string) ProbeResult {
	key := world.MakeKey(k.ID, k.Cipher, k.Secret)
	from := ip + ":0"
	c, err := vnet.EnvDial(world.TCPAddr(from), l.DialAddr())
	if err != nil {
		return ProbeResult{Refused: true}
	}
	cl := &world.Client{C: c, EOFAt: -1, RSTAt: -1}
	nrec := len(w.M.TCP)
	msg := []byte(fmt.Sprintf("ping-%d", seed))
	wire := world.EncodeStream(key, seed, world.Addr(TargetTCP), msg)
	rd := vrt.Spawn("probe-reader", func() { cl.ReadAll() })
	if w.SplitAt > 0 && w.SplitAt < len(wire) {
		// the opening bytes arrive in two pieces (the first one shorter than what the server needs
		// to look for the key)
		cl.Send(wire[:w.SplitAt], 0)
		vrt.WaitIdle()
		cl.Send(wire[w.SplitAt:], 0)
	} else {
		cl.Send(wire, 0)
	}
	cl.CloseWrite()
	vrt.Join(rd)
	cl.Close()
	vrt.WaitIdle()
	var res ProbeResult
	for _, r := range w.M.TCP[nrec:] {
		if r.Remote == c.LocalAddr().String() {
			res.Status = r.Status()
			if len(r.Auth) > 0 {
				res.Authed, res.AuthID = true, r.Auth[0]
			}
		}
	}
	plain, _ := world.DecodeStream(key, cl.Got)
	res.Reply = plain
	res.Served = string(plain) == "pong:"+string(msg)
	return res
}

// ProbeUDP sends one datagram to l with key k from a fresh client address.
func (w *World) ProbeUDP(l Listener, k Key, seed uint64) ProbeResult {
	w.nclient++
	return w.ProbeUDPFrom(l, k, seed, fmt.Sprintf("203.0.113.%d", 1+w.nclient%200))
}

// ProbeUDPFrom sends one datagram to l with key k from the given client IP (a fresh port) and
// reports whether it reached the target and the answer came back.
func (w *World) ProbeUDPFrom(l Listener, k Key, seed uint64, ip string) ProbeResult {
	w.nclient++
	return w.ProbeUDPAt(l, k, seed, fmt.Sprintf("%s:%d", ip, 20000+w.nclient))
}

// ProbeUDPAt: one datagram from exactly this client address (ip:port), which may have been used before.
func (w *World) ProbeUDPAt(l Listener, k Key, seed uint64, from string) ProbeResult {
	key := world.MakeKey(k.ID, k.Cipher, k.Secret)
	sock, err := vnet.EnvListenUDP(world.UDPAddr(from))
	if err != nil {
		panic(err)
	}
	defer sock.Close()
	nev := len(w.M.UDP.Events)
	msg := []byte(fmt.Sprintf("dgram-%d", seed))
	pkt := world.PackUDP(key, seed, append(world.Addr(TargetUDP), msg...))
	w.udpInbox = append(w.udpInbox, w.UDPTgt.Drain()...)
	start := len(w.udpInbox) // what the target received before this probe is not this probe's
	sock.SendRaw(pkt, world.UDPAddr(l.DialAddr()))
	vrt.WaitIdle()
	var res ProbeResult
	w.udpInbox = append(w.udpInbox, w.UDPTgt.Drain()...)
	for _, d := range w.udpInbox[start:] {
		if string(d.Data) == string(msg) && !res.Forwarded {
			// the target answers; the answer must come back to the client under the same key
			w.UDPTgt.SendRaw([]byte("answer:"+string(msg)), d.From)
			vrt.WaitIdle()
			for _, r := range sock.Drain() {
				if plain, err := world.UnpackUDP(key, r.Data); err == nil && strings.HasSuffix(string(plain), "answer:"+string(msg)) {
					res.Served = true
				}
			}
			res.Forwarded = true
		}
	}
	for _, ev := range w.M.UDP.Events[nev:] {
		if ev.Kind == "add" && ev.Client == sock.LocalAddr().String() {
			res.Authed, res.AuthID = true, ev.Key
		}
	}
	return res
}

// Bound reports the server's bound sockets as "tcp/port" and "udp/port" (ports < 40000 only).
func (w *World) Bound() []string {
	var out []string
	for _, l := range w.VW.Listeners() {
		if !l.IsClosed() && l.Owner == "srv" {
			out = append(out, fmt.Sprintf("tcp/%d", l.Addr().(*net.TCPAddr).Port))
		}
	}
	for _, u := range w.VW.UDPSockets() {
		if !u.IsClosed() && u.Owner == "srv" && u.LocalAddr().(*net.UDPAddr).Port < 40000 {
			out = append(out, fmt.Sprintf("udp/%d", u.LocalAddr().(*net.UDPAddr).Port))
		}
	}
	return out
}

// Shutdown stops the server and the environment.
func (w *World) Shutdown() error {
	var err error
	if w.Server != nil {
		err = w.Server.Stop()
	}
	vrt.WaitIdle()
	w.Target.Ln.Close()
	return err
}
