// Package conf is the vnet conformance suite: every socket behaviour the oracles rely on
// is exercised twice by the same scenario code - on real loopback sockets (real goroutines,
// real time, generous waits that only serve to observe) and on vnet under the controlled
// scheduler - and the normalised observation sequences must be identical. It binds the one
// model in the design (the environment model) to the real kernel.
package conf

import (
	"context"
	"errors"
	"fmt"
	"io"
	"net"
	"os"
	"strings"
	"sync"
	"syscall"
	"time"

	"github.com/Jigsaw-Code/outline-sdk/transport"

	"verif/rt/vnet"
	"verif/rt/vrt"
)

type listener interface {
	Accept() (net.Conn, error)
	Close() error
	Addr() net.Addr
}

type dialer interface {
	DialContext(ctx context.Context, network, address string) (net.Conn, error)
}

type env interface {
	name() string
	listenTCP(addr string) (listener, error)
	dialTCP(addr string) (transport.StreamConn, error)
	listenUDP(addr string) (net.PacketConn, error)
	listenUDPNet(network, addr string) (net.PacketConn, error)
	dialer(control func(network, address string, c syscall.RawConn) error) dialer
	dialerDeadline(control func(network, address string, c syscall.RawConn) error, fromNow time.Duration) dialer
	resolveUDP(addr string) (*net.UDPAddr, error)
	spawn(f func()) (wait func())
	sleep(d time.Duration)
	now() time.Time
	settle()
}

// ---- real ----

type realEnv struct{}

func (realEnv) name() string { return "real" }
func (realEnv) listenTCP(addr string) (listener, error) {
	a, err := net.ResolveTCPAddr("tcp", addr)
	if err != nil {
		return nil, err
	}
	l, err := net.ListenTCP("tcp", a)
	if err != nil {
		return nil, err
	}
	return l, nil
}
func (realEnv) dialTCP(addr string) (transport.StreamConn, error) {
	c, err := net.DialTimeout("tcp", addr, 2*time.Second)
	if err != nil {
		return nil, err
	}
	return c.(*net.TCPConn), nil
}
func (realEnv) listenUDP(addr string) (net.PacketConn, error) { return net.ListenPacket("udp", addr) }
func (realEnv) listenUDPNet(network, addr string) (net.PacketConn, error) {
	return net.ListenPacket(network, addr)
}
func (realEnv) dialer(control func(network, address string, c syscall.RawConn) error) dialer {
	return &net.Dialer{Control: control, Timeout: time.Second}
}
func (realEnv) dialerDeadline(control func(network, address string, c syscall.RawConn) error, fromNow time.Duration) dialer {
	return &net.Dialer{Control: control, Deadline: time.Now().Add(fromNow)}
}
func (realEnv) resolveUDP(addr string) (*net.UDPAddr, error) { return net.ResolveUDPAddr("udp", addr) }
func (realEnv) spawn(f func()) func() {
	var wg sync.WaitGroup
	wg.Add(1)
	go func() { defer wg.Done(); f() }()
	return wg.Wait
}
func (realEnv) sleep(d time.Duration) { time.Sleep(d) }
func (realEnv) now() time.Time        { return time.Now() }
func (realEnv) settle()               { time.Sleep(60 * time.Millisecond) }

// ---- vnet ----

type vnetEnv struct{}

func (vnetEnv) name() string { return "vnet" }
func (vnetEnv) listenTCP(addr string) (listener, error) {
	a, err := vnet.ResolveTCPAddr("tcp", addr)
	if err != nil {
		return nil, err
	}
	l, err := vnet.ListenTCP("tcp", a)
	if err != nil {
		return nil, err
	}
	return l, nil
}
func (vnetEnv) dialTCP(addr string) (transport.StreamConn, error) {
	c, err := vnet.EnvDial(&net.TCPAddr{IP: net.IPv4(127, 0, 0, 1)}, addr)
	if err != nil {
		return nil, err
	}
	return c, nil
}
func (vnetEnv) listenUDP(addr string) (net.PacketConn, error) { return vnet.ListenPacket("udp", addr) }
func (vnetEnv) listenUDPNet(network, addr string) (net.PacketConn, error) {
	return vnet.ListenPacket(network, addr)
}
func (vnetEnv) dialer(control func(network, address string, c syscall.RawConn) error) dialer {
	return &vnet.Dialer{Control: control}
}
func (vnetEnv) dialerDeadline(control func(network, address string, c syscall.RawConn) error, fromNow time.Duration) dialer {
	return &vnet.Dialer{Control: control, Deadline: vrt.NowQuiet().Add(fromNow)}
}
func (vnetEnv) resolveUDP(addr string) (*net.UDPAddr, error) { return vnet.ResolveUDPAddr("udp", addr) }
func (vnetEnv) spawn(f func()) func() {
	t := vrt.Spawn("conf", f)
	return func() { vrt.Join(t) }
}
func (vnetEnv) sleep(d time.Duration) { vrt.Sleep(d) }
func (vnetEnv) now() time.Time        { return vrt.NowQuiet() }
func (vnetEnv) settle()               { vrt.WaitIdle() }

// ---- observations ----

func class(err error) string {
	var ne net.Error
	switch {
	case err == nil:
		return "ok"
	case err == io.EOF:
		return "EOF"
	case errors.Is(err, net.ErrClosed):
		return "closed"
	case errors.As(err, &ne) && ne.Timeout():
		if errors.Is(err, os.ErrDeadlineExceeded) {
			return "timeout(deadline)"
		}
		return "timeout"
	case errors.Is(err, syscall.ECONNRESET):
		return "reset"
	case errors.Is(err, syscall.ECONNREFUSED):
		return "refused"
	case errors.Is(err, syscall.EPIPE):
		return "pipe"
	case errors.Is(err, syscall.ENOTCONN):
		return "notconn"
	case errors.Is(err, syscall.EADDRINUSE):
		return "addrinuse"
	case errors.Is(err, syscall.EMSGSIZE):
		return "msgsize"
	}
	return "error"
}

type log struct {
	mu  sync.Mutex
	out []string
}

func (l *log) add(format string, a ...any) {
	l.mu.Lock()
	l.out = append(l.out, fmt.Sprintf(format, a...))
	l.mu.Unlock()
}

type Scenario struct {
	Name string
	Run  func(e env, l *log)
}

func pair(e env) (listener, transport.StreamConn, transport.StreamConn) {
	ln, err := e.listenTCP("127.0.0.1:0")
	if err != nil {
		panic(err)
	}
	c, err := e.dialTCP(ln.Addr().String())
	if err != nil {
		panic(err)
	}
	s, err := ln.Accept()
	if err != nil {
		panic(err)
	}
	return ln, c, s.(transport.StreamConn)
}

func readAll(c net.Conn, l *log, who string) {
	buf := make([]byte, 4096)
	total := 0
	for {
		n, err := c.Read(buf)
		total += n
		if err != nil {
			l.add("%s read total=%d end=%s", who, total, class(err))
			return
		}
	}
}

var Scenarios = []Scenario{
	{"accept-after-listener-close", func(e env, l *log) {
		ln, _ := e.listenTCP("127.0.0.1:0")
		ln.Close()
		_, err := ln.Accept()
		l.add("accept: %s", class(err))
		l.add("second close: %s", class(ln.Close()))
	}},
	{"blocked-accept-unblocked-by-close", func(e env, l *log) {
		ln, _ := e.listenTCP("127.0.0.1:0")
		wait := e.spawn(func() { _, err := ln.Accept(); l.add("accept: %s", class(err)) })
		e.settle()
		ln.Close()
		wait()
	}},
	{"half-close-eof-and-reverse-flow", func(e env, l *log) {
		ln, c, s := pair(e)
		defer ln.Close()
		c.Write([]byte("hello"))
		c.CloseWrite()
		readAll(s, l, "server")
		_, err := s.Write([]byte("reply after your FIN"))
		l.add("server write after peer FIN: %s", class(err))
		s.Close()
		readAll(c, l, "client")
		c.Close()
	}},
	{"close-with-unread-data-resets-peer", func(e env, l *log) {
		ln, c, s := pair(e)
		defer ln.Close()
		c.Write([]byte("unread"))
		e.settle()
		s.Close()
		e.settle()
		readAll(c, l, "client")
		c.Close()
	}},
	{"data-received-before-a-reset-stays-readable", func(e env, l *log) {
		ln, c, s := pair(e)
		defer ln.Close()
		c.Write([]byte("unread by the server"))
		e.settle()
		s.Write([]byte("ANSWER"))
		s.Close() // unread data: RST
		e.settle()
		readAll(c, l, "client")
		c.Close()
	}},
	{"unsent-data-is-lost-when-the-sender-resets", func(e env, l *log) {
		ln, c, s := pair(e)
		defer ln.Close()
		type bufs interface {
			SetReadBuffer(int) error
			SetWriteBuffer(int) error
		}
		c.(bufs).SetReadBuffer(4096)
		s.(bufs).SetWriteBuffer(1 << 20)
		big := make([]byte, 256<<10)
		n, err := s.Write(big) // the client does not read: most of it stays in the server's send queue
		l.add("server write complete=%v %s", n == len(big), class(err))
		c.Write([]byte("upload nobody reads"))
		e.settle()
		s.Close() // unread data: RST, the unsent part of the answer is gone
		e.settle()
		buf := make([]byte, 4096)
		total := 0
		for {
			n, err := c.Read(buf)
			total += n
			if err != nil {
				l.add("client read some=%v all=%v end=%s", total > 0, total == len(big), class(err))
				break
			}
		}
		c.Close()
	}},
	{"unsent-data-is-lost-when-the-closed-sender-gets-more-data", func(e env, l *log) {
		ln, c, s := pair(e)
		defer ln.Close()
		type bufs interface {
			SetReadBuffer(int) error
			SetWriteBuffer(int) error
		}
		c.(bufs).SetReadBuffer(4096)
		s.(bufs).SetWriteBuffer(1 << 20)
		big := make([]byte, 256<<10)
		n, err := s.Write(big)
		l.add("server write complete=%v %s", n == len(big), class(err))
		s.Close() // nothing unread: orderly, the socket lingers with the unsent part of the answer
		e.settle()
		c.Write([]byte("more upload, arriving at a closed socket")) // answered with RST
		e.settle()
		buf := make([]byte, 4096)
		total := 0
		for {
			n, err := c.Read(buf)
			total += n
			if err != nil {
				l.add("client read some=%v all=%v end=%s", total > 0, total == len(big), class(err))
				break
			}
		}
		c.Close()
	}},
	{"linger-zero-close-resets-and-drops-unsent-data", func(e env, l *log) {
		ln, c, s := pair(e)
		defer ln.Close()
		type bufs interface {
			SetReadBuffer(int) error
			SetWriteBuffer(int) error
			SetLinger(int) error
		}
		c.(bufs).SetReadBuffer(4096)
		s.(bufs).SetWriteBuffer(1 << 20)
		s.(bufs).SetLinger(0)
		big := make([]byte, 256<<10)
		n, err := s.Write(big)
		l.add("server write complete=%v %s", n == len(big), class(err))
		s.Close() // nothing unread, but linger 0: RST, the unsent part is gone
		e.settle()
		buf := make([]byte, 4096)
		total := 0
		for {
			n, err := c.Read(buf)
			total += n
			if err != nil {
				l.add("client read some=%v all=%v end=%s", total > 0, total == len(big), class(err))
				break
			}
		}
		c.Close()
	}},
	{"half-closes-after-the-peer-reset", func(e env, l *log) {
		for _, readFirst := range []bool{true, false} {
			ln, c, s := pair(e)
			s.(interface{ SetLinger(int) error }).SetLinger(0)
			s.Close() // RST
			e.settle()
			if readFirst {
				_, err := c.Read(make([]byte, 16))
				l.add("read after the peer's reset: %s", class(err))
			}
			l.add("CloseRead after the peer's reset (read first: %v): %s", readFirst, class(c.CloseRead()))
			l.add("CloseWrite after the peer's reset (read first: %v): %s", readFirst, class(c.CloseWrite()))
			_, err := c.Write([]byte("x"))
			l.add("write after the peer's reset: %s", class(err))
			c.Close()
			ln.Close()
		}
	}},
	{"orderly-close-delivers-everything-queued", func(e env, l *log) {
		ln, c, s := pair(e)
		defer ln.Close()
		type bufs interface {
			SetReadBuffer(int) error
			SetWriteBuffer(int) error
		}
		c.(bufs).SetReadBuffer(4096)
		s.(bufs).SetWriteBuffer(1 << 20)
		big := make([]byte, 256<<10)
		n, err := s.Write(big)
		l.add("server write complete=%v %s", n == len(big), class(err))
		s.Close()
		e.settle()
		readAll(c, l, "client")
		c.Close()
	}},
	{"udp4-and-udp6-sockets-send-within-their-family-only", func(e env, l *log) {
		v4dst := &net.UDPAddr{IP: net.IPv4(127, 0, 0, 1), Port: 9}
		v6dst := &net.UDPAddr{IP: net.ParseIP("::1"), Port: 9}
		for _, network := range []string{"udp4", "udp6", "udp"} {
			pc, err := e.listenUDPNet(network, "")
			if err != nil {
				l.add("%s listen: %s", network, class(err))
				continue
			}
			_, err4 := pc.WriteTo([]byte("x"), v4dst)
			_, err6 := pc.WriteTo([]byte("x"), v6dst)
			l.add("%s: to IPv4 ok=%v, to IPv6 ok=%v", network, err4 == nil, err6 == nil)
			pc.Close()
		}
	}},
	{"udp-payload-limit-is-65507-over-ipv4-and-65527-over-ipv6", func(e env, l *log) {
		pc, err := e.listenUDPNet("udp", "")
		if err != nil {
			l.add("listen: %s", class(err))
			return
		}
		defer pc.Close()
		v4dst := &net.UDPAddr{IP: net.IPv4(127, 0, 0, 1), Port: 9}
		v6dst := &net.UDPAddr{IP: net.ParseIP("::1"), Port: 9}
		for _, n := range []int{65507, 65508, 65527, 65528} {
			_, err4 := pc.WriteTo(make([]byte, n), v4dst)
			_, err6 := pc.WriteTo(make([]byte, n), v6dst)
			l.add("%d bytes: to IPv4 %s, to IPv6 %s", n, class(err4), class(err6))
		}
	}},
	{"close-without-unread-data-is-fin", func(e env, l *log) {
		ln, c, s := pair(e)
		defer ln.Close()
		c.Write([]byte("abc"))
		buf := make([]byte, 10)
		n, _ := io.ReadFull(s, buf[:3])
		l.add("server read %d", n)
		s.Close()
		readAll(c, l, "client")
		c.Close()
	}},
	{"read-deadline-expires", func(e env, l *log) {
		ln, c, s := pair(e)
		defer ln.Close()
		defer c.Close()
		s.SetReadDeadline(e.now().Add(80 * time.Millisecond))
		t0 := e.now()
		_, err := s.Read(make([]byte, 1))
		l.add("read: %s waited>=80ms:%v", class(err), e.now().Sub(t0) >= 80*time.Millisecond)
		_, err = s.Read(make([]byte, 1))
		l.add("read again: %s", class(err))
		s.SetReadDeadline(time.Time{})
		c.Write([]byte("x"))
		n, err := s.Read(make([]byte, 1))
		l.add("after clearing: n=%d %s", n, class(err))
		s.Close()
	}},
	{"expired-deadline-wins-over-buffered-data", func(e env, l *log) {
		ln, c, s := pair(e)
		defer ln.Close()
		defer c.Close()
		c.Write([]byte("data"))
		e.settle()
		s.SetReadDeadline(e.now().Add(-time.Second))
		_, err := s.Read(make([]byte, 4))
		l.add("read with expired deadline and buffered data: %s", class(err))
		s.Close()
	}},
	{"set-deadline-now-wakes-blocked-reader", func(e env, l *log) {
		ln, c, s := pair(e)
		defer ln.Close()
		defer c.Close()
		wait := e.spawn(func() { _, err := s.Read(make([]byte, 1)); l.add("blocked read: %s", class(err)) })
		e.settle()
		s.SetReadDeadline(e.now())
		wait()
		s.Close()
	}},
	{"read-and-write-after-own-close", func(e env, l *log) {
		ln, c, s := pair(e)
		defer ln.Close()
		defer c.Close()
		s.Close()
		_, err := s.Read(make([]byte, 1))
		l.add("read: %s", class(err))
		_, err = s.Write([]byte("x"))
		l.add("write: %s", class(err))
		l.add("close again: %s", class(s.Close()))
		l.add("closewrite: %s", class(s.CloseWrite()))
		l.add("setdeadline: %s", class(s.SetReadDeadline(time.Time{})))
	}},
	{"close-unblocks-own-blocked-read", func(e env, l *log) {
		ln, c, s := pair(e)
		defer ln.Close()
		defer c.Close()
		wait := e.spawn(func() { _, err := s.Read(make([]byte, 1)); l.add("blocked read: %s", class(err)) })
		e.settle()
		s.Close()
		wait()
	}},
	{"write-after-own-closewrite", func(e env, l *log) {
		ln, c, s := pair(e)
		defer ln.Close()
		defer c.Close()
		s.CloseWrite()
		_, err := s.Write([]byte("x"))
		l.add("write: %s", class(err))
		s.Close()
	}},
	{"closeread-then-read", func(e env, l *log) {
		ln, c, s := pair(e)
		defer ln.Close()
		defer c.Close()
		s.CloseRead()
		n, err := s.Read(make([]byte, 1))
		l.add("read after CloseRead: n=%d %s", n, class(err))
		_, err = c.Write([]byte("still accepted"))
		l.add("peer write: %s", class(err))
		s.Close()
	}},
	{"listener-close-resets-unaccepted", func(e env, l *log) {
		ln, _ := e.listenTCP("127.0.0.1:0")
		c, err := e.dialTCP(ln.Addr().String())
		l.add("dial: %s", class(err))
		e.settle()
		ln.Close()
		e.settle()
		readAll(c, l, "client")
		c.Close()
	}},
	{"dial-closed-port-refused", func(e env, l *log) {
		ln, _ := e.listenTCP("127.0.0.1:0")
		addr := ln.Addr().String()
		ln.Close()
		_, err := e.dialTCP(addr)
		l.add("dial: %s", class(err))
	}},
	{"rebind-after-close-and-conflict", func(e env, l *log) {
		ln, _ := e.listenTCP("127.0.0.1:0")
		addr := ln.Addr().String()
		_, err := e.listenTCP(addr)
		l.add("second bind while open: %s", class(err))
		ln.Close()
		ln2, err := e.listenTCP(addr)
		l.add("bind after close: %s", class(err))
		if ln2 != nil {
			ln2.Close()
		}
	}},
	{"accepted-conn-addresses", func(e env, l *log) {
		ln, c, s := pair(e)
		defer ln.Close()
		l.add("server remote == client local: %v", s.RemoteAddr().String() == c.LocalAddr().String())
		l.add("client remote == listener addr: %v", c.RemoteAddr().String() == ln.Addr().String())
		_, isTCP := s.RemoteAddr().(*net.TCPAddr)
		l.add("remote is *net.TCPAddr: %v", isTCP)
		c.Close()
		s.Close()
	}},
	{"udp-roundtrip-truncation-and-source", func(e env, l *log) {
		a, _ := e.listenUDP("127.0.0.1:0")
		b, _ := e.listenUDP("127.0.0.1:0")
		defer a.Close()
		defer b.Close()
		n, err := a.WriteTo([]byte("0123456789"), b.LocalAddr())
		l.add("writeto: n=%d %s", n, class(err))
		e.settle()
		buf := make([]byte, 4)
		b.SetReadDeadline(e.now().Add(500 * time.Millisecond))
		n, from, err := b.ReadFrom(buf)
		l.add("readfrom small buffer: n=%d %s from==a:%v", n, class(err), from != nil && from.String() == a.LocalAddr().String())
		_, isUDP := from.(*net.UDPAddr)
		l.add("from is *net.UDPAddr: %v iplen=%d", isUDP, len(from.(*net.UDPAddr).IP))
		b.SetReadDeadline(e.now().Add(50 * time.Millisecond))
		_, _, err = b.ReadFrom(buf)
		l.add("rest of the datagram is gone: %s", class(err))
	}},
	{"udp-wildcard-socket-reports-mapped-ipv4", func(e env, l *log) {
		w, _ := e.listenUDP(":0")
		s, _ := e.listenUDP("127.0.0.1:0")
		defer w.Close()
		defer s.Close()
		port := w.LocalAddr().(*net.UDPAddr).Port
		l.add("wildcard local ip unspecified: %v", w.LocalAddr().(*net.UDPAddr).IP.IsUnspecified())
		s.WriteTo([]byte("x"), &net.UDPAddr{IP: net.IPv4(127, 0, 0, 1), Port: port})
		e.settle()
		w.SetReadDeadline(e.now().Add(500 * time.Millisecond))
		_, from, err := w.ReadFrom(make([]byte, 8))
		if err != nil {
			l.add("read: %s", class(err))
			return
		}
		ua := from.(*net.UDPAddr)
		l.add("read ok; source prints as %s; ip length %d; To4 != nil: %v", ua.IP.String(), len(ua.IP), ua.IP.To4() != nil)
	}},
	{"udp-deadline-close-and-wake", func(e env, l *log) {
		a, _ := e.listenUDP("127.0.0.1:0")
		a.SetReadDeadline(e.now().Add(60 * time.Millisecond))
		_, _, err := a.ReadFrom(make([]byte, 8))
		l.add("deadline: %s", class(err))
		a.SetReadDeadline(time.Time{})
		wait := e.spawn(func() { _, _, err := a.ReadFrom(make([]byte, 8)); l.add("blocked readfrom woken by SetReadDeadline(now): %s", class(err)) })
		e.settle()
		a.SetReadDeadline(e.now())
		wait()
		a.SetReadDeadline(time.Time{})
		wait = e.spawn(func() { _, _, err := a.ReadFrom(make([]byte, 8)); l.add("blocked readfrom woken by Close: %s", class(err)) })
		e.settle()
		a.Close()
		wait()
		_, _, err = a.ReadFrom(make([]byte, 8))
		l.add("readfrom after close: %s", class(err))
		_, err = a.WriteTo([]byte("x"), &net.UDPAddr{IP: net.IPv4(127, 0, 0, 1), Port: 9})
		l.add("writeto after close: %s", class(err))
	}},
	{"udp-oversized-datagram", func(e env, l *log) {
		a, _ := e.listenUDP("127.0.0.1:0")
		b, _ := e.listenUDP("127.0.0.1:0")
		defer a.Close()
		defer b.Close()
		_, err := a.WriteTo(make([]byte, 65508), b.LocalAddr())
		l.add("65508 bytes: %s", class(err))
		n, err := a.WriteTo(make([]byte, 65507), b.LocalAddr())
		l.add("65507 bytes: n=%d %s", n, class(err))
		_, err = a.WriteTo([]byte("x"), &net.UDPAddr{IP: net.IPv4(127, 0, 0, 1), Port: 0})
		l.add("destination port 0: %s einval=%v", class(err), errors.Is(err, syscall.EINVAL))
	}},
	{"udp-rebind-conflict", func(e env, l *log) {
		a, _ := e.listenUDP("127.0.0.1:0")
		addr := a.LocalAddr().String()
		_, err := e.listenUDP(addr)
		l.add("second bind: %s", class(err))
		a.Close()
		b, err := e.listenUDP(addr)
		l.add("bind after close: %s", class(err))
		if b != nil {
			b.Close()
		}
	}},
	{"dialer-control-sequence", func(e env, l *log) {
		for _, addr := range []string{"127.0.0.1:81", "[::1]:81", "[::ffff:10.1.2.3]:81", ":81", "[::]:81", "0.0.0.0:81", "10.1.2.3:81", "[fe80::1%lo]:81"} {
			var calls []string
			d := e.dialer(func(network, address string, c syscall.RawConn) error {
				calls = append(calls, network+" "+address)
				return errors.New("stop here")
			})
			_, err := d.DialContext(context.Background(), "tcp", addr)
			l.add("dial %q: control calls %v; error mentions control error: %v", addr, calls, err != nil && strings.Contains(err.Error(), "stop here"))
		}
	}},
	{"dialer-cancelled-context", func(e env, l *log) {
		ctx, cancel := context.WithCancel(context.Background())
		cancel()
		called := false
		d := e.dialer(func(network, address string, c syscall.RawConn) error { called = true; return nil })
		_, err := d.DialContext(ctx, "tcp", "127.0.0.1:81")
		l.add("dial with cancelled context: failed=%v control called=%v canceled=%v", err != nil, called, errors.Is(err, context.Canceled))
	}},
	{"dialer-deadline-passed-and-pending", func(e env, l *log) {
		ln, err := e.listenTCP("127.0.0.1:0")
		if err != nil {
			l.add("listen: %v", err)
			return
		}
		defer ln.Close()
		for _, fromNow := range []time.Duration{-time.Second, -time.Hour, time.Hour} {
			called := false
			d := e.dialerDeadline(func(network, address string, c syscall.RawConn) error { called = true; return nil }, fromNow)
			c, err := d.DialContext(context.Background(), "tcp", ln.Addr().String())
			var oe *net.OpError
			l.add("deadline %v from now: %s control called=%v op-error=%v deadline-exceeded=%v", fromNow, class(err), called, errors.As(err, &oe) && oe.Op == "dial", errors.Is(err, context.DeadlineExceeded))
			if c != nil {
				c.Close()
			}
		}
	}},
	{"resolve-udp-literals", func(e env, l *log) {
		for _, a := range []string{":53", "[::]:53", "0.0.0.0:53", "127.0.0.1:53", "[::1]:53", "[::ffff:10.0.0.1]:53", "[fe80::1%lo]:53", "10.0.0.1:0", "bad:port:53", "1.2.3.4"} {
			u, err := e.resolveUDP(a)
			if err != nil {
				l.add("resolve %q: error", a)
				continue
			}
			l.add("resolve %q: ip=%v iplen=%d port=%d zone=%q", a, u.IP, len(u.IP), u.Port, u.Zone)
		}
	}},
	{"write-to-fully-closed-peer", func(e env, l *log) {
		ln, c, s := pair(e)
		defer ln.Close()
		s.Close()
		e.settle()
		_, err := c.Write([]byte("first"))
		l.add("first write to a closed peer: %s", class(err))
		e.settle()
		_, err = c.Write([]byte("second"))
		l.add("second write: %v", err != nil)
		c.Close()
	}},
}

type Result struct {
	Name   string   `json:"scenario"`
	Real   []string `json:"real"`
	Vnet   []string `json:"vnet"`
	Agree  bool     `json:"agree"`
	Note   string   `json:"note,omitempty"`
}

func runReal(sc Scenario) (out []string, panicked string) {
	l := &log{}
	done := make(chan struct{})
	go func() {
		defer close(done)
		defer func() {
			if r := recover(); r != nil {
				panicked = fmt.Sprint(r)
			}
		}()
		sc.Run(realEnv{}, l)
	}()
	select {
	case <-done:
	case <-time.After(20 * time.Second):
		panicked = "timeout"
	}
	return l.out, panicked
}

func runVnet(sc Scenario) ([]string, string) {
	l := &log{}
	x := vrt.Run(vrt.Options{Horizon: time.Hour}, func() {
		vnet.Reset()
		sc.Run(vnetEnv{}, l)
	})
	if x.Crash != "" {
		return l.out, x.Crash
	}
	if x.Deadlock {
		return l.out, "deadlock: " + strings.Join(x.Blocked, "; ")
	}
	return l.out, ""
}

// RunAll executes every scenario on both sides.
func RunAll() []Result {
	var out []Result
	for _, sc := range Scenarios {
		r := Result{Name: sc.Name}
		var pr, pv string
		r.Real, pr = runReal(sc)
		r.Vnet, pv = runVnet(sc)
		r.Agree = pr == "" && pv == "" && strings.Join(r.Real, "\n") == strings.Join(r.Vnet, "\n")
		if pr != "" {
			r.Note += "real side: " + pr + " "
		}
		if pv != "" {
			r.Note += "vnet side: " + pv
		}
		out = append(out, r)
	}
	return out
}
