// Package c19: shared server state is free of data races under concurrent use, with results
// equal to some sequential order of the same calls.
//
// Engine S with the happens-before monitor on every instrumented field, map and list, plus a
// linearizability check (porcupine) whose sequential specification is the implementation
// itself run sequentially on a fresh instance:
//
//	keylist   {Snapshot || MarkUsed || Update} on the real CipherList
//	replay    {Add || Add || Add || Resize} on the real ReplayCache
//	natmap    association table: datagrams, replies, expiry and shutdown racing on the real
//	          packet handler (the table is used by the handler loop and by every association's
//	          relay goroutine)
//	listeners the C12 scenarios (Acquire / Close / Accept on shared listeners)
//	collectors the C17 concurrent scenarios (traffic against scrapes)
package c19

import (
	"container/list"
	"fmt"
	"net/netip"
	"strings"
	"time"

	"github.com/Jigsaw-Code/outline-ss-server/service"
	"github.com/anishathalye/porcupine"

	"verif/engine"
	"verif/harness/c03"
	"verif/harness/c12"
	"verif/harness/c13"
	"verif/harness/c14"
	"verif/harness/c17"
	"verif/harness/hk"
	"verif/harness/udpx"
	"verif/harness/world"
	"verif/rt/vrt"
)

// ---- recording ----

type opRec struct {
	client   int
	in       any
	out      any
	call, ret int64
}

type recorder struct {
	clock int64
	ops   []*opRec
}

func (r *recorder) do(client int, in any, f func() any) {
	r.clock++
	o := &opRec{client: client, in: in, call: r.clock}
	r.ops = append(r.ops, o)
	o.out = f()
	r.clock++
	o.ret = r.clock
}

func (r *recorder) history() []porcupine.Operation {
	var h []porcupine.Operation
	for _, o := range r.ops {
		if o.ret == 0 {
			continue
		}
		h = append(h, porcupine.Operation{ClientId: o.client, Input: o.in, Call: o.call, Output: o.out, Return: o.ret})
	}
	return h
}

// seqModel: the state is the sequence of inputs applied so far; Step replays it on a fresh
// instance (run) and compares the last output.
func seqModel(run func(seq []any) any) porcupine.Model {
	return porcupine.Model{
		Init: func() interface{} { return []any{} },
		Step: func(state, input, output interface{}) (bool, interface{}) {
			seq := append(append([]any{}, state.([]any)...), input)
			got := run(seq)
			return fmt.Sprint(got) == fmt.Sprint(output), seq
		},
		Equal: func(a, b interface{}) bool { return fmt.Sprint(a) == fmt.Sprint(b) },
	}
}

// ---- key list ----

type klOp struct {
	Kind string // S | M | U
	ID   string
	IP   int
	Ver  int
}

var ipsKL = []netip.Addr{netip.MustParseAddr("203.0.113.5"), netip.MustParseAddr("2001:db8::5"), {}}

func klKeys(ver int) []*world.Key {
	ks := []*world.Key{world.MakeKey("k0", world.Ciphers[0], "s0"), world.MakeKey("k1", world.Ciphers[1], "s1"), world.MakeKey("k2", world.Ciphers[0], "s2")}
	if ver == 1 {
		return []*world.Key{ks[2], world.MakeKey("k9", world.Ciphers[3], "s9"), ks[0]}
	}
	return ks
}

type klInst struct {
	cl    service.CipherList
	elems map[string]*list.Element
}

func newKL() *klInst {
	l := world.MakeList(klKeys(0))
	in := &klInst{cl: service.NewCipherList(), elems: map[string]*list.Element{}}
	in.cl.Update(l)
	for e := l.Front(); e != nil; e = e.Next() {
		in.elems["0/"+e.Value.(*service.CipherEntry).ID] = e
	}
	return in
}

func (in *klInst) apply(o klOp) any {
	switch o.Kind {
	case "S":
		var ids []string
		for _, e := range in.cl.SnapshotForClientIP(ipsKL[o.IP]) {
			ids = append(ids, e.Value.(*service.CipherEntry).ID)
		}
		return strings.Join(ids, ",")
	case "M":
		in.cl.MarkUsedByClientIP(in.elems["0/"+o.ID], ipsKL[o.IP])
		return nil
	case "U":
		in.cl.Update(world.MakeList(klKeys(o.Ver)))
		return nil
	}
	return nil
}

func klScenario(name string, progs [][]klOp) *engine.Scenario {
	rec := &recorder{}
	sc := &engine.Scenario{Name: name}
	sc.Body = func() {
		*rec = recorder{}
		in := newKL()
		var ts []*vrt.Thread
		for i, p := range progs {
			i, p := i, p
			ts = append(ts, vrt.Spawn(fmt.Sprintf("t%d", i), func() {
				for _, o := range p {
					o := o
					rec.do(i, o, func() any { return in.apply(o) })
				}
			}))
		}
		vrt.Join(ts...)
	}
	sc.Check = func(x *vrt.Exec) (string, bool, []*engine.Finding) {
		fs := hk.Generic(x, hk.Opts{Races: true})
		if x.Crash == "" && !x.Deadlock {
			model := seqModel(func(seq []any) any {
				in := newKL()
				var last any
				for _, s := range seq {
					last = in.apply(s.(klOp))
				}
				return last
			})
			if !porcupine.CheckOperations(model, rec.history()) {
				fs = append(fs, &engine.Finding{Sig: "not-linearizable{keylist}", Msg: fmt.Sprintf("no sequential order of the calls explains the results: %v", describe(rec))})
			}
		}
		return describe(rec), true, fs
	}
	return sc
}

func describe(r *recorder) string {
	var b strings.Builder
	for _, o := range r.ops {
		fmt.Fprintf(&b, "c%d[%d,%d] %v -> %v; ", o.client, o.call, o.ret, o.in, o.out)
	}
	return b.String()
}

// ---- replay cache ----

type rcOp struct {
	Kind string // A | R
	H    int
	N    int
}

func rcSalt(h int) []byte {
	s := make([]byte, 32)
	s[1] = byte(h)
	return s
}

func rcApply(c *service.ReplayCache, o rcOp) any {
	if o.Kind == "A" {
		return c.Add("key", rcSalt(o.H))
	}
	return c.Resize(o.N) == nil
}

func rcScenario(name string, cap0 int, progs [][]rcOp) *engine.Scenario {
	rec := &recorder{}
	sc := &engine.Scenario{Name: name}
	sc.Body = func() {
		*rec = recorder{}
		c := service.NewReplayCache(cap0)
		var ts []*vrt.Thread
		for i, p := range progs {
			i, p := i, p
			ts = append(ts, vrt.Spawn(fmt.Sprintf("t%d", i), func() {
				for _, o := range p {
					o := o
					rec.do(i, o, func() any { return rcApply(&c, o) })
				}
			}))
		}
		vrt.Join(ts...)
	}
	sc.Check = func(x *vrt.Exec) (string, bool, []*engine.Finding) {
		fs := hk.Generic(x, hk.Opts{Races: true})
		if x.Crash == "" && !x.Deadlock {
			model := seqModel(func(seq []any) any {
				c := service.NewReplayCache(cap0)
				var last any
				for _, s := range seq {
					last = rcApply(&c, s.(rcOp))
				}
				return last
			})
			if !porcupine.CheckOperations(model, rec.history()) {
				fs = append(fs, &engine.Finding{Sig: "not-linearizable{replay}", Msg: fmt.Sprintf("no sequential order of the calls explains the results: %v", describe(rec))})
			}
		}
		return describe(rec), true, fs
	}
	return sc
}

// ---- association table ----

func natScenario(i int, ops []udpx.Op) *engine.Scenario {
	tr := &udpx.Trace{}
	sc := &engine.Scenario{Name: fmt.Sprintf("natmap-%d", i), Opt: vrt.Options{Horizon: udpx.Horizon}}
	sc.Body = func() {
		udpx.Run(udpx.Config{Keys: udpx.DefaultKeys(), NatTimeout: 10 * time.Second}, ops, tr)
	}
	sc.Check = func(x *vrt.Exec) (string, bool, []*engine.Finding) {
		fs := hk.Generic(x, hk.Opts{Races: true, Leaks: true})
		obs := ""
		for _, st := range tr.Steps {
			obs += fmt.Sprintf("%s:%d/%d;", st.Op.K, len(st.TargetRecv), len(st.ClientRecv))
		}
		return obs, true, fs
	}
	return sc
}

func natInputs() [][]udpx.Op {
	T := 10 * time.Second
	open0 := udpx.Op{K: "S", C: 0, Key: 0, T: 1, N: 20}
	return [][]udpx.Op{
		{open0, {K: "P", Par: []udpx.Op{{K: "S", C: 0, Key: 0, T: 1, N: 12, D: T}, {K: "S", C: 1, Key: 1, T: 1, N: 12, D: T}, {K: "R", C: 0, T: 1, N: 14, D: T}}}},
		{open0, {K: "S", C: 1, Key: 1, T: 0, N: 20}, {K: "P", Par: []udpx.Op{{K: "R", C: 1, T: 0, N: 4}, {K: "S", C: 2, Key: 2, T: 1, N: 5}}}, {K: "Q"}},
	}
}

func all(tier string) (sets []*engine.Scenario, bounds []int) {
	b := func(quick, thorough int) int {
		if tier == "thorough" {
			return thorough
		}
		return quick
	}
	addS := func(sc *engine.Scenario, bound int) { sets, bounds = append(sets, sc), append(bounds, bound) }
	addS(klScenario("keylist-smu", [][]klOp{{{Kind: "S", IP: 0}, {Kind: "S", IP: 1}}, {{Kind: "M", ID: "k1", IP: 0}, {Kind: "M", ID: "k2", IP: 1}}, {{Kind: "U", Ver: 1}}}), b(4, -1))
	addS(klScenario("keylist-mm", [][]klOp{{{Kind: "M", ID: "k2", IP: 0}, {Kind: "S", IP: 0}}, {{Kind: "M", ID: "k1", IP: 0}, {Kind: "S", IP: 2}}}), b(-1, -1))
	addS(rcScenario("replay-aar", 2, [][]rcOp{{{Kind: "A", H: 1}, {Kind: "A", H: 2}}, {{Kind: "A", H: 1}, {Kind: "A", H: 3}}, {{Kind: "R", N: 1}, {Kind: "R", N: 3}}}), b(-1, -1))
	addS(rcScenario("replay-aaa", 1, [][]rcOp{{{Kind: "A", H: 1}}, {{Kind: "A", H: 2}}, {{Kind: "A", H: 1}}, {{Kind: "R", N: 0}}}), b(-1, -1))
	for i, in := range natInputs() {
		addS(natScenario(i, in), b(2, 3))
	}
	for _, sc := range c12.Scenarios(tier) {
		sc.Name = "listeners-" + sc.Name
		// besides races: outcomes no sequential order of the calls can give (an accept/read issued
		// after Close has returned that still delivers; one connection or datagram delivered twice)
		// (and, for two reads at once on one handle, a read that returns what nobody sent or a
		// datagram returned twice)
		addS(racesAnd(sc, "call-after-close", "delivered-twice", "datagram-mangled{concurrent-reads}", "delivery-count{concurrent-reads}"), b(2, 3))
	}
	for _, sc := range c14.RaceScenarios() {
		sc.Name = "association-" + sc.Name
		// a second datagram racing the DNS answer that fast-closes the association: in every sequential
		// order either the answer closes it first (the datagram opens a new one) or the datagram
		// keeps it alive; a deadline that was extended by the datagram and then moved back by the
		// answer is the result of neither
		addS(racesAndAs(sc, "not-linearizable{association:", "deadline-moved-earlier"), b(3, 3))
	}
	for _, sc := range c13.RaceScenarios() {
		sc.Name = "listen-close-" + sc.Name
		addS(racesOnly(sc), b(2, 3))
	}
	for _, sc := range c03.TwoListenerScenarios() {
		sc.Name = "udp-handler-" + sc.Name
		addS(racesOnly(sc), b(2, 3))
	}
	for _, sc := range c17.ConcScenarios() {
		concurrentStarts := strings.HasSuffix(sc.Name, "-3")
		sc.Name = "collectors-" + sc.Name
		if concurrentStarts {
			// two tunnels of one client starting at once: the reported time must be the one some
			// sequential order of the calls gives (the union of the two intervals)
			inner := sc.Check
			sc.Check = func(x *vrt.Exec) (string, bool, []*engine.Finding) {
				obs, nt, fs := inner(x)
				out := hk.Generic(x, hk.Opts{Races: true})
				for _, f := range fs {
					if f.Sig == "tunnel-time-per-key" || f.Sig == "tunnel-time-per-location" {
						out = append(out, &engine.Finding{Sig: "not-linearizable{collectors}", Msg: "concurrent start/stop calls gave a result no sequential order gives: " + f.Msg})
					}
				}
				return obs, nt, out
			}
			addS(sc, b(2, 4))
			continue
		}
		addS(racesOnly(sc), b(2, 4))
	}
	return
}

// racesOnly keeps, of another property's scenario, the findings C19 is about: data races,
// crashes and deadlocks.
// racesAnd keeps, besides the races, those findings of the scenario's own oracle that say the
// result equals no sequential order of the calls.
func racesAnd(sc *engine.Scenario, sigs ...string) *engine.Scenario {
	return racesAndAs(sc, "not-linearizable{listeners:", sigs...)
}

func racesAndAs(sc *engine.Scenario, prefix string, sigs ...string) *engine.Scenario {
	inner := sc.Check
	sc.Check = func(x *vrt.Exec) (string, bool, []*engine.Finding) {
		obs, nt, fs := inner(x)
		out := hk.Generic(x, hk.Opts{Races: true})
		for _, f := range fs {
			for _, s := range sigs {
				if f.Sig == s {
					out = append(out, &engine.Finding{Sig: prefix + s + "}", Msg: f.Msg})
				}
			}
		}
		return obs, nt, out
	}
	return sc
}

func racesOnly(sc *engine.Scenario) *engine.Scenario {
	inner := sc.Check
	sc.Check = func(x *vrt.Exec) (string, bool, []*engine.Finding) {
		obs, nt, _ := inner(x)
		return obs, nt, hk.Generic(x, hk.Opts{Races: true})
	}
	return sc
}

func init() {
	hk.Register("C19", func(ctx *engine.Ctx) {
		scs, bounds := all(ctx.Tier)
		for i, sc := range scs {
			engine.ExploreS(ctx, sc, engine.SConfig{BothPolicies: bounds[i] >= 0, Bound: bounds[i], Shard: ctx.Shard, NShards: ctx.NShards, Deadline: ctx.Deadline})
		}
	})
	hk.Replayers["C19"] = func(ctx *engine.Ctx, rp engine.Replay) []*engine.Finding {
		scs, _ := all("thorough")
		return engine.ReplayScenario(scs, rp)
	}
}
