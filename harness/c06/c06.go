// Package c06: unauthenticated TCP input is absorbed silently until the timeout.
//
// Handler world on the virtual clock. Engine E enumerates probes (every length, every
// truncation of a valid stream, every single-bit flip of a valid stream, random bytes,
// replays) x ciphers x key-list sizes x client behaviours; the reference model says for
// each probe whether it authenticates and what the server may do.
package c06

import (
	"encoding/json"
	"fmt"
	"io"
	"strings"
	"time"

	"verif/engine"
	"verif/harness/hk"
	"verif/harness/world"
	"verif/rt/vnet"
	"verif/rt/vrt"
)

const T = 59 * time.Second

type Spec struct {
	Cipher int    `json:"cipher"`
	Keys   int    `json:"keys"`             // key-list size (the probe's key, if any, is the last one)
	Kind   string `json:"kind"`             // random | trunc | flip | valid-badaddr | replay
	N      int    `json:"n"`                // length / truncation length / bit index
	Client string `json:"client"`           // K keep open, F half-close after sending, M more data at T/2
	Cache  int    `json:"cache"`            // replay cache capacity (0 = off)
	Target string `json:"target,omitempty"` // "rst": the target takes the first bytes and resets its connection 2 s later
	After  int    `json:"after,omitempty"`  // kind split-addr: junk bytes sent right after the first chunk (0: silence)
}

func (s Spec) String() string { b, _ := json.Marshal(s); return string(b) }

type obsT struct {
	sent        int
	clientGot   int
	clientEOF   time.Duration
	clientRST   time.Duration
	srvClosedAt time.Duration
	srvFinAt    time.Duration
	srvRST      bool
	order       []string
	status      string
	probes      []world.ProbeRec
	targetConns int
	connects    int
	clientClose time.Duration
	tgtFinEarly bool
	open        []string
	closedCount int
	srvRead     int64
}

// validStream: address + two payload chunks
func validStream(key *world.Key, seed uint64) ([]byte, [][]byte) {
	chunks := [][]byte{world.Addr("93.184.216.34:80"), world.Pattern(1, 40), world.Pattern(2, 25)}
	return world.EncodeStream(key, seed, chunks...), chunks
}

func build(s Spec) *engine.Scenario {
	var o obsT
	keys := world.MixedKeys(s.Keys - 1)
	key := world.MakeKey("probe-key", world.Ciphers[s.Cipher], "pr0be")
	keys = append(keys, key)
	sc := &engine.Scenario{Name: "probe" + s.String(), Opt: vrt.Options{Horizon: 10 * time.Minute}}
	authenticates := false // reference model
	postAuthInvalid := false
	region := "" // where the stream turns invalid: "addr-chunk" or "data-chunk"
	sc.Body = func() {
		o = obsT{clientEOF: -1, clientRST: -1}
		vw := vnet.Reset()
		hk.ResetLogs()
		w := world.NewTCP(keys, s.Cache, T)
		w.Start()
		tgt := world.StartTarget("93.184.216.34:80", func(t *world.Target, i int, c *vnet.TCPConn) {
			if s.Kind == "reflect" {
				c.Write(world.Pattern(9, 120)) // so that the server has something to say
			}
			if s.Target == "rst" {
				io.ReadFull(c, make([]byte, 1))
				vrt.Sleep(2 * time.Second)
				c.SetLinger(0)
				c.Close()
				return
			}
			t.ReadAll(i, c)
			c.Close()
		})
		wire, _ := validStream(key, 7)
		saltLen := key.K.SaltSize()
		var probe []byte
		switch s.Kind {
		case "random":
			probe = make([]byte, s.N)
			io.ReadFull(vrt.DetRand(uint64(s.N)+99), probe)
			authenticates = false
		case "trunc":
			probe = wire[:s.N]
			// the server needs 50 bytes before it tries the keys; salt+2+tag of them must be valid
			total := s.N
			if s.Client == "M" {
				total += 100
			}
			authenticates = total >= 50 && s.N >= saltLen+2+16
			postAuthInvalid = authenticates // what follows the valid prefix is junk
			region = "addr-chunk"
		case "flip":
			probe = append([]byte(nil), wire...)
			probe[s.N/8] ^= 1 << (s.N % 8)
			authenticates = s.N/8 >= saltLen+2+16
			postAuthInvalid = authenticates
			region = "addr-chunk"
			if off := s.N / 8; off >= len(world.EncodeStream(key, 7, world.Addr("93.184.216.34:80"))) {
				// which block (length block or payload block of a chunk) fails, and how much follows it
				region = "data-chunk,trailing<18"
				pos := len(world.EncodeStream(key, 7, world.Addr("93.184.216.34:80")))
				for _, n := range []int{40, 25} {
					for _, blk := range []int{2 + 16, n + 16} {
						if off >= pos && off < pos+blk {
							trailing := len(wire) - (pos + blk)
							if s.Client == "M" {
								trailing += 100
							}
							if trailing >= 18 {
								region = "data-chunk,trailing>=18"
							}
						}
						pos += blk
					}
				}
			}
		case "split-addr":
			// a valid first chunk that carries only the first N bytes of the address header; then
			// junk or nothing: the address can never be completed
			a := world.Addr("93.184.216.34:80")
			probe = world.EncodeStream(key, 7, a[:s.N])
			if s.After > 0 {
				junk := make([]byte, s.After)
				io.ReadFull(vrt.DetRand(uint64(s.After)+5), junk)
				probe = append(probe, junk...)
			}
			authenticates, postAuthInvalid, region = true, true, "addr-split"
		case "replay":
			probe = wire
			authenticates = false // second presentation
		case "reflect":
			authenticates = false // the server's own output (ciphers whose salt can carry the server's mark)
		}
		if s.Kind == "replay" || s.Kind == "reflect" {
			// first presentation: a complete, accepted connection
			c0 := world.Dial("203.0.113.9:0")
			c0.Send(wire, 0)
			c0.C.CloseWrite()
			c0.ReadAll()
			c0.C.Close()
			vrt.WaitIdle()
			if s.Kind == "reflect" {
				// what the server said on that connection, sent back to it as a new connection
				probe = append([]byte(nil), c0.Got...)
				if s.N > 0 && s.N < len(probe) {
					probe = probe[:s.N]
				}
			}
		}
		t0 := vrt.NowQuiet()
		cl := world.Dial("203.0.113.7:0")
		rd := vrt.Spawn("client-reader", func() { cl.ReadAll() })
		cl.Send(probe, 0)
		o.sent = len(probe)
		switch s.Client {
		case "K":
			vrt.Sleep(T + 30*time.Second)
		case "F":
			vrt.Sleep(time.Second)
			cl.C.CloseWrite()
			o.clientClose = vrt.NowQuiet().Sub(t0)
			vrt.Sleep(T + 30*time.Second)
		case "M":
			vrt.Sleep(T / 2)
			more := make([]byte, 100)
			io.ReadFull(vrt.DetRand(4242), more)
			if cl.Send(more, 0) == nil {
				o.sent += len(more)
			}
			vrt.Sleep(T)
		}
		// observe the server side before the client goes away
		idx := len(w.Conns) - 1
		if idx >= 0 && w.Conns[idx].Srv != nil {
			srv := w.Conns[idx].Srv
			o.srvClosedAt, o.srvFinAt, o.srvRST = srv.ClosedAt, srv.FinAt, srv.SentRST
			o.srvRead = srv.BytesRead
			if t0s := t0.Sub(vrt.Epoch); o.srvClosedAt >= 0 {
				o.srvClosedAt -= t0s
				if o.srvFinAt >= 0 {
					o.srvFinAt -= t0s
				}
			}
		}
		cl.C.Close()
		vrt.Join(rd)
		vrt.WaitIdle()
		w.Stop()
		tgt.Ln.Close()
		o.clientGot = len(cl.Got)
		o.clientEOF, o.clientRST = cl.EOFAt, cl.RSTAt
		if idx >= 0 {
			r := w.Conns[idx]
			o.order, o.status, o.probes, o.closedCount = r.Order, r.Status(), r.Probes, len(r.Closed)
		}
		o.targetConns = len(tgt.Accepted)
		for _, ev := range x().Events {
			if ev.Kind == "tcp.connect" && ev.B == "93.184.216.34:80" {
				o.connects++
			}
		}
		o.open = vw.OpenSockets("srv")
	}
	sc.Check = func(x *vrt.Exec) (string, bool, []*engine.Finding) {
		fs := hk.Generic(x, hk.Opts{})
		add := func(sig, format string, a ...any) {
			fs = append(fs, &engine.Finding{Sig: sig, Msg: fmt.Sprintf(format, a...) + " spec=" + s.String()})
		}
		if len(fs) > 0 {
			return "generic", true, fs
		}
		expectConnects := 0
		if s.Kind == "replay" || s.Kind == "reflect" {
			expectConnects = 1
		}
		switch {
		case !authenticates:
			if o.clientGot != 0 {
				add("probe-got-bytes", "server wrote %d bytes to an unauthenticated client", o.clientGot)
			}
			if o.connects != expectConnects {
				add("probe-dialed", "unauthenticated input caused %d target connection(s)", o.connects-expectConnects)
			}
			want := T
			if s.Client == "F" {
				want = o.clientClose
			}
			if o.srvClosedAt != want {
				add("probe-close-time", "server closed the probe connection at %v, want exactly %v (client %s)", o.srvClosedAt, want, s.Client)
			}
			if o.srvRST || o.clientRST >= 0 {
				add("probe-rst", "probe connection was reset instead of closed normally (unread data at close)")
			}
			if o.srvFinAt >= 0 && o.srvFinAt < want {
				add("probe-early-fin", "server half-closed at %v before %v", o.srvFinAt, want)
			}
			// "keeps reading everything the client sends": bytes the server took from the socket
			if o.srvRead != int64(o.sent) {
				add("probe-not-drained", "the server read %d of the %d bytes the client sent before the connection ended", o.srvRead, o.sent)
			}
		case postAuthInvalid:
			// authenticated, then invalid: drained, never actively closed while the client stays open
			limit := T + 30*time.Second
			if s.Client == "F" {
				limit = o.clientClose
			}
			if s.Client == "M" {
				limit = T/2 + T
			}
			if region == "addr-split" {
				// the address never arrives: the handshake timeout (or the client's close) ends the wait
				if limit > T {
					limit = T
				}
				if o.connects != 0 {
					add("postauth-dialed", "an address header that was never completed caused %d target connection(s)", o.connects)
				}
			}
			if s.Target == "rst" {
				// the target's reset may be passed on as a half-close; the connection itself stays
				o.srvFinAt = -1
			}
			if o.srvClosedAt >= 0 && o.srvClosedAt < limit {
				add("postauth-active-close{"+o.status+","+region+"}", "server closed an authenticated-then-invalid connection at %v while the client kept it open (until %v); status %s", o.srvClosedAt, limit, o.status)
			} else if o.srvFinAt >= 0 && o.srvFinAt < limit {
				add("postauth-active-fin{"+o.status+","+region+"}", "server half-closed an authenticated-then-invalid connection at %v while the client kept it open (until %v); status %s", o.srvFinAt, limit, o.status)
			}
			if o.srvRST || o.clientRST >= 0 {
				add("postauth-rst", "authenticated-then-invalid connection was reset")
			}
		}
		obs := fmt.Sprint(authenticates, postAuthInvalid, o.clientGot, o.srvClosedAt, o.srvFinAt, o.srvRST, o.order, o.connects)
		return obs, true, fs
	}
	return sc
}

// pairScenario: two unauthenticated connections arriving back to back (both are in the accept
// backlog before the server runs): each one must be read and closed at its own deadline.
func pairScenario(n1, n2 int) *engine.Scenario {
	type res struct {
		closedAt time.Duration
		read     int64
		got      int
		rst      bool
	}
	var r [2]res
	var handled int
	sc := &engine.Scenario{Name: fmt.Sprintf("probe-pair[%d,%d]", n1, n2), Opt: vrt.Options{Horizon: 10 * time.Minute}}
	sc.Body = func() {
		r = [2]res{}
		vnet.Reset()
		hk.ResetLogs()
		w := world.NewTCP(world.MixedKeys(3), 0, T)
		w.Start()
		var cls [2]*world.Client
		var rds []*vrt.Thread
		for i, n := range []int{n1, n2} {
			cls[i] = world.Dial(fmt.Sprintf("203.0.113.%d:0", 20+i))
			probe := make([]byte, n)
			io.ReadFull(vrt.DetRand(uint64(900+i)), probe)
			cls[i].Send(probe, 0)
		}
		for i := range cls {
			cl := cls[i]
			rds = append(rds, vrt.Spawn("reader", func() { cl.ReadAll() }))
		}
		vrt.Sleep(T + 30*time.Second)
		handled = len(w.Conns)
		for i, cl := range cls {
			srv := cl.C.Peer()
			r[i] = res{closedAt: srv.ClosedAt, read: srv.BytesRead, got: len(cl.Got), rst: srv.SentRST || cl.C.GotRST()}
		}
		for _, cl := range cls {
			cl.Close()
		}
		vrt.Join(rds...)
		vrt.WaitIdle()
		w.Stop()
	}
	sc.Check = func(x *vrt.Exec) (string, bool, []*engine.Finding) {
		fs := hk.Generic(x, hk.Opts{})
		if len(fs) == 0 {
			for i, n := range []int{n1, n2} {
				if r[i].closedAt != T || r[i].got != 0 || r[i].rst || r[i].read != int64(n) {
					fs = append(fs, &engine.Finding{Sig: "probe-pair-not-absorbed", Msg: fmt.Sprintf("probe %d of two arriving back to back (%d bytes): read %d bytes, wrote %d, closed at %v (want %v), reset=%v; %d connections were handled", i, n, r[i].read, r[i].got, r[i].closedAt, T, r[i].rst, handled)})
				}
			}
		}
		return fmt.Sprint(r), true, fs
	}
	return sc
}

// replayPair: two copies of one valid handshake arriving at the same time with the replay history
// on: one of them is a replay and must get nothing back (whichever the server serves first).
func replayPair(cipher int) *engine.Scenario {
	var got [2]int
	sc := &engine.Scenario{Name: fmt.Sprintf("replay-pair[%d]", cipher), Opt: vrt.Options{Horizon: 10 * time.Minute}}
	sc.Body = func() {
		got = [2]int{}
		vnet.Reset()
		hk.ResetLogs()
		key := world.MakeKey("probe-key", world.Ciphers[cipher], "pr0be")
		w := world.NewTCP([]*world.Key{key}, 10, T)
		w.Start()
		tgt := world.StartTarget("93.184.216.34:80", func(t *world.Target, i int, c *vnet.TCPConn) {
			c.Write([]byte("reply from the target"))
			t.ReadAll(i, c)
			c.Close()
		})
		wire := world.EncodeStream(key, 77, world.Addr("93.184.216.34:80"), []byte("hello"))
		var ts []*vrt.Thread
		for i := 0; i < 2; i++ {
			i := i
			ts = append(ts, vrt.Spawn(fmt.Sprintf("client%d", i), func() {
				cl := world.Dial(fmt.Sprintf("203.0.113.%d:0", 30+i))
				rd := vrt.Spawn("reader", func() { cl.ReadAll() })
				cl.Send(wire, 0)
				vrt.Sleep(time.Second)
				cl.CloseWrite()
				vrt.Join(rd)
				cl.Close()
				got[i] = len(cl.Got)
			}))
		}
		vrt.Join(ts...)
		vrt.WaitIdle()
		w.Stop()
		tgt.Ln.Close()
	}
	sc.Check = func(x *vrt.Exec) (string, bool, []*engine.Finding) {
		fs := hk.Generic(x, hk.Opts{})
		if len(fs) == 0 && got[0] > 0 && got[1] > 0 {
			fs = append(fs, &engine.Finding{Sig: "replay-served", Msg: fmt.Sprintf("two copies of one handshake presented at the same time with the replay history on: both clients received data (%d and %d bytes); the replay must be absorbed silently", got[0], got[1])})
		}
		return fmt.Sprint(got[0] > 0, got[1] > 0), true, fs
	}
	return sc
}

// probeVsAuth: a probe arriving at the same time as a legitimate connection. The legitimate
// client comes from the same IP address as the probe (sameIP), or from another address after the
// probe's address was the last one to use the key. Whatever the interleaving of the two
// handshakes (key search of the probe against the usage marking of the legitimate connection),
// the probe is absorbed like any other and the legitimate connection is served.
func probeVsAuth(sameIP bool, n int) *engine.Scenario {
	type res struct {
		closedAt time.Duration
		read     int64
		got      int
		rst      bool
	}
	var r res
	var okPlain string
	sc := &engine.Scenario{Name: fmt.Sprintf("probe-vs-auth[sameip=%v,%d]", sameIP, n), Opt: vrt.Options{Horizon: 10 * time.Minute}}
	sc.Body = func() {
		r, okPlain = res{}, ""
		vnet.Reset()
		hk.ResetLogs()
		keys := world.MixedKeys(4)
		w := world.NewTCP(keys, 0, T)
		w.Start()
		tgt := world.StartTarget("93.184.216.34:80", func(t *world.Target, i int, c *vnet.TCPConn) {
			c.Write([]byte("reply from the target"))
			t.ReadAll(i, c)
			c.Close()
		})
		probeIP, legitIP := "203.0.113.30", "203.0.113.30"
		if !sameIP {
			legitIP = "203.0.113.31"
			// the probe's address is the one that used key 2 last
			pre := world.Dial(probeIP + ":0")
			pre.Send(world.EncodeStream(keys[2], 70, world.Addr("93.184.216.34:80"), []byte("earlier")), 0)
			pre.CloseWrite()
			pre.ReadAll()
			pre.Close()
			vrt.WaitIdle()
		}
		probe := make([]byte, n)
		io.ReadFull(vrt.DetRand(uint64(950+n)), probe)
		pc := world.Dial(probeIP + ":0")
		prd := vrt.Spawn("probe-reader", func() { pc.ReadAll() })
		legit := vrt.Spawn("legit", func() {
			cl := world.Dial(legitIP + ":0")
			cl.Send(world.EncodeStream(keys[2], 71, world.Addr("93.184.216.34:80"), []byte("hello")), 0)
			cl.CloseWrite()
			cl.ReadAll()
			cl.Close()
			plain, _ := world.DecodeStream(keys[2], cl.Got)
			okPlain = string(plain)
		})
		pc.Send(probe, 0)
		vrt.Join(legit)
		vrt.Sleep(T + 30*time.Second)
		srv := pc.C.Peer()
		r = res{closedAt: srv.ClosedAt, read: srv.BytesRead, got: len(pc.Got), rst: srv.SentRST || pc.C.GotRST()}
		pc.Close()
		vrt.Join(prd)
		vrt.WaitIdle()
		w.Stop()
		tgt.Ln.Close()
	}
	sc.Check = func(x *vrt.Exec) (string, bool, []*engine.Finding) {
		fs := hk.Generic(x, hk.Opts{})
		if len(fs) == 0 {
			if r.closedAt != T || r.got != 0 || r.rst || r.read != int64(n) {
				fs = append(fs, &engine.Finding{Sig: "probe-not-absorbed{concurrent-auth}", Msg: fmt.Sprintf("probe of %d bytes arriving while a legitimate client authenticates (same IP: %v): read %d bytes, wrote %d, closed at %v (want %v), reset=%v", n, sameIP, r.read, r.got, r.closedAt, T, r.rst)})
			}
		}
		return fmt.Sprint(r, okPlain), true, fs
	}
	return sc
}

// probeHistory: two legitimate clients from two addresses have used two keys (in either order of
// keys and addresses) before the probe arrives from one of those addresses or from a third one:
// the probe is absorbed like any other, whatever the usage marks on the key list are.
type histCase struct {
	First  [2]int `json:"first"`  // (address, key) of the first legitimate connection
	Second [2]int `json:"second"` // (address, key) of the second one
	From   int    `json:"probe_from"`
	N      int    `json:"n"`
}

func probeHistory(c histCase) *engine.Scenario {
	type res struct {
		closedAt time.Duration
		read     int64
		got      int
		rst      bool
	}
	var r res
	addrs := []string{"203.0.113.40", "203.0.113.41", "203.0.113.42"}
	sc := &engine.Scenario{Name: "probe-history", Opt: vrt.Options{Horizon: 10 * time.Minute}}
	sc.Body = func() {
		r = res{}
		vnet.Reset()
		hk.ResetLogs()
		keys := world.MixedKeys(4)
		w := world.NewTCP(keys, 0, T)
		w.Start()
		tgt := world.StartTarget("93.184.216.34:80", func(t *world.Target, i int, cn *vnet.TCPConn) {
			cn.Write([]byte("reply"))
			t.ReadAll(i, cn)
			cn.Close()
		})
		for i, use := range [][2]int{c.First, c.Second} {
			cl := world.Dial(addrs[use[0]] + ":0")
			cl.Send(world.EncodeStream(keys[use[1]], uint64(80+i), world.Addr("93.184.216.34:80"), []byte("hi")), 0)
			cl.CloseWrite()
			cl.ReadAll()
			cl.Close()
			vrt.WaitIdle()
		}
		probe := make([]byte, c.N)
		io.ReadFull(vrt.DetRand(uint64(970+c.N)), probe)
		pc := world.Dial(addrs[c.From] + ":0")
		prd := vrt.Spawn("probe-reader", func() { pc.ReadAll() })
		pc.Send(probe, 0)
		vrt.Sleep(T + 30*time.Second)
		srv := pc.C.Peer()
		r = res{closedAt: srv.ClosedAt, read: srv.BytesRead, got: len(pc.Got), rst: srv.SentRST || pc.C.GotRST()}
		pc.Close()
		vrt.Join(prd)
		vrt.WaitIdle()
		w.Stop()
		tgt.Ln.Close()
	}
	sc.Check = func(x *vrt.Exec) (string, bool, []*engine.Finding) {
		fs := hk.Generic(x, hk.Opts{})
		if len(fs) == 0 {
			if r.closedAt != T || r.got != 0 || r.rst || r.read != int64(c.N) {
				fs = append(fs, &engine.Finding{Sig: "probe-not-absorbed{after-usage}", Msg: fmt.Sprintf("probe of %d bytes after two legitimate clients had used two keys from two addresses: read %d bytes, wrote %d, closed at %v (want %v), reset=%v; case=%+v", c.N, r.read, r.got, r.closedAt, T, r.rst, c)})
			}
		}
		return fmt.Sprint(r), true, fs
	}
	return sc
}

func histCases() []histCase {
	var out []histCase
	for _, k := range [][2]int{{1, 2}, {2, 1}, {0, 3}, {3, 0}, {1, 1}} {
		for from := 0; from < 3; from++ {
			for _, n := range []int{50, 60} {
				out = append(out, histCase{First: [2]int{0, k[0]}, Second: [2]int{1, k[1]}, From: from, N: n})
			}
		}
	}
	return out
}

func pairScenarios() []*engine.Scenario {
	return []*engine.Scenario{pairScenario(60, 80), pairScenario(10, 200), pairScenario(0, 51), replayPair(0), replayPair(2),
		probeVsAuth(true, 60), probeVsAuth(false, 60)}
}

func x() *vrt.Exec { return vrt.Cur() }

func grid(tier string) []Spec {
	var out []Spec
	clients := []string{"K", "F", "M"}
	for cipher := 0; cipher < 4; cipher++ {
		k0 := world.MakeKey("x", world.Ciphers[cipher], "pr0be")
		wire, _ := validStream(k0, 7)
		keysSet := []int{1, 5}
		if tier == "thorough" {
			keysSet = []int{1, 5, 100}
		}
		for _, nk := range keysSet {
			for _, cl := range clients {
				full := cipher == 0 && nk == 1 || tier == "thorough"
				// random bytes of every length around the interesting boundaries
				for n := 0; n <= 120; n++ {
					if !full && !(n == 0 || n == 1 || n == 49 || n == 50 || n == 51 || n == 120) {
						continue
					}
					out = append(out, Spec{Cipher: cipher, Keys: nk, Kind: "random", N: n, Client: cl})
				}
				for _, n := range []int{500, 20000, 70000} {
					if full || cl == "K" {
						out = append(out, Spec{Cipher: cipher, Keys: nk, Kind: "random", N: n, Client: cl})
					}
				}
				// truncations of a valid stream below the authentication threshold
				for n := 0; n < 50; n++ {
					if !full && n%7 != 0 && n != 49 {
						continue
					}
					out = append(out, Spec{Cipher: cipher, Keys: nk, Kind: "trunc", N: n, Client: cl})
				}
				// single-bit flips at every bit of the stream
				for bit := 0; bit < len(wire)*8; bit++ {
					if !full && bit%8 != (bit/8)%8 {
						continue // one bit per byte
					}
					if cl != "K" && !full && bit%64 != 0 {
						continue
					}
					out = append(out, Spec{Cipher: cipher, Keys: nk, Kind: "flip", N: bit, Client: cl})
				}
				for _, cache := range []int{1, 100} {
					out = append(out, Spec{Cipher: cipher, Keys: nk, Kind: "replay", Client: cl, Cache: cache})
				}
				if cipher != 3 {
					// the server's own output reflected (whole, and cut after 60 bytes); aes-128-gcm's
					// 16-byte salt cannot carry the mark
					for _, cache := range []int{-1, 0, 100} { // no history at all (nil), disabled, on
						for _, n := range []int{0, 60} {
							out = append(out, Spec{Cipher: cipher, Keys: nk, Kind: "reflect", N: n, Client: cl, Cache: cache})
						}
					}
				}
				if nk == 1 {
					// the address header split over two chunks and never completed
					for n := 1; n < 7; n++ {
						for _, after := range []int{0, 1, 17, 40} {
							out = append(out, Spec{Cipher: cipher, Keys: nk, Kind: "split-addr", N: n, After: after, Client: cl})
						}
					}
					// a later chunk fails while the target resets its side
					pre := len(world.EncodeStream(k0, 7, world.Addr("93.184.216.34:80"), world.Pattern(1, 40)))
					for _, off := range []int{pre + 1, len(wire) - 20} {
						out = append(out, Spec{Cipher: cipher, Keys: nk, Kind: "flip", N: off * 8, Client: cl, Target: "rst"})
					}
				}
			}
		}
	}
	return out
}

func init() {
	hk.Register("C06", func(ctx *engine.Ctx) {
		for i, c := range histCases() {
			if ctx.Mine(int64(i)) {
				ctx.RunCase("probe-history", "E", probeHistory(c), c, nil)
			}
		}
		for i, s := range grid(ctx.Tier) {
			if !ctx.Mine(int64(i)) {
				continue
			}
			if ctx.Expired() {
				ctx.Incomplete("probes", "probes: time cap hit at case %d", i)
				break
			}
			ctx.RunCase("probes", "E", build(s), s, nil)
		}
		for _, sc := range pairScenarios() {
			engine.ExploreS(ctx, sc, engine.SConfig{BothPolicies: true, Bound: 2, Shard: ctx.Shard, NShards: ctx.NShards, Deadline: ctx.Deadline})
		}
	})
	hk.Replayers["C06"] = func(ctx *engine.Ctx, rp engine.Replay) []*engine.Finding {
		if strings.HasPrefix(rp.Unit, "probe-pair") || strings.HasPrefix(rp.Unit, "replay-pair") || strings.HasPrefix(rp.Unit, "probe-vs-auth") {
			return engine.ReplayScenario(pairScenarios(), rp)
		}
		if rp.Unit == "probe-history" {
			var c histCase
			if err := json.Unmarshal(rp.Input, &c); err != nil {
				return []*engine.Finding{{Sig: "BROKEN:bad-input", Msg: err.Error()}}
			}
			rp.Choices = nil
			return engine.ReplayCase("probe-history", probeHistory(c), rp)
		}
		var s Spec
		if err := json.Unmarshal(rp.Input, &s); err != nil {
			return []*engine.Finding{{Sig: "BROKEN:bad-input", Msg: err.Error()}}
		}
		rp.Choices = nil
		return engine.ReplayCase("probes", build(s), rp)
	}
}
