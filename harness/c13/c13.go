// Package c13: listener management never deadlocks.
//
// Engine S over the real service.ListenerManager on vnet: 2 and 3 user threads, each
// running a short program of ListenStream/ListenPacket/Close on addresses a and b.
// Oracle: every execution completes (no deadlock, no crash) and the manager is still
// usable afterwards (a listen on every address succeeds and can be closed).
package c13

import (
	"fmt"
	"io"
	"net"
	"strings"
	"syscall"

	"github.com/Jigsaw-Code/outline-ss-server/service"

	"verif/engine"
	"verif/harness/hk"
	"verif/rt/vnet"
	"verif/rt/vrt"
)

const (
	addrA = "127.0.0.1:9000"
	addrB = "127.0.0.1:9001"
)

// op codes: s/p = ListenStream/ListenPacket on a, S/P on b, c = close oldest own handle,
// x/y = ListenStream/ListenPacket on an address that cannot be bound (the call must fail, not hang),
// k = a client connects to address a and is never accepted, d = a datagram is sent to address a
// and never read (traffic that is pending when the handles close), r = close the most recently
// closed stream handle once more, a = accept / read on the most recently closed handle (both must return)
type program string

const addrBusy = "127.0.0.1:9002"

var menu = []program{"sc", "pc", "ssc c", "sSc c", "spc c", "scsc", "pcpc", "xsc", "ypc"}

func runProgram(m service.ListenerManager, p program, errs *[]string) {
	var handles, pending []io.Closer
	var lastClosed io.Closer
	for _, op := range p {
		switch op {
		case 's', 'S':
			a := addrA
			if op == 'S' {
				a = addrB
			}
			ln, err := m.ListenStream(a)
			if err != nil {
				*errs = append(*errs, "ListenStream: "+err.Error())
				continue
			}
			handles = append(handles, ln)
		case 'p', 'P':
			a := addrA
			if op == 'P' {
				a = addrB
			}
			pc, err := m.ListenPacket(a)
			if err != nil {
				*errs = append(*errs, "ListenPacket: "+err.Error())
				continue
			}
			handles = append(handles, pc)
		case 'x':
			if ln, err := m.ListenStream(addrBusy); err == nil {
				*errs = append(*errs, "ListenStream on an unbindable address succeeded")
				ln.Close()
			}
		case 'y':
			if pc, err := m.ListenPacket(addrBusy); err == nil {
				*errs = append(*errs, "ListenPacket on an unbindable address succeeded")
				pc.Close()
			}
		case 'k':
			if c, err := vnet.EnvDial(&net.TCPAddr{IP: net.IPv4(203, 0, 113, 9)}, addrA); err == nil {
				pending = append(pending, c)
			}
			vrt.WaitIdle()
		case 'd':
			if u, err := vnet.EnvListenUDP(&net.UDPAddr{IP: net.IPv4(203, 0, 113, 9), Port: 0}); err == nil {
				u.SendRaw([]byte("pending datagram"), &net.UDPAddr{IP: net.IPv4(127, 0, 0, 1), Port: 9000})
				pending = append(pending, u)
			}
			vrt.WaitIdle()
		case 'c':
			if len(handles) > 0 {
				handles[0].Close()
				lastClosed = handles[0]
				handles = handles[1:]
			}
		case 'r':
			// (stream handles only: a packet handle documents "must be called once, and only once")
			if _, isStream := lastClosed.(service.StreamListener); isStream {
				lastClosed.Close()
			}
		case 'a':
			switch h := lastClosed.(type) {
			case service.StreamListener:
				if c, err := h.AcceptStream(); err == nil {
					*errs = append(*errs, "AcceptStream on a closed handle succeeded")
					c.Close()
				}
			case net.PacketConn:
				if _, _, err := h.ReadFrom(make([]byte, 16)); err == nil {
					*errs = append(*errs, "ReadFrom on a closed handle succeeded")
				}
			}
		}
	}
	for _, h := range handles {
		h.Close()
	}
	for _, c := range pending {
		c.Close()
	}
}

func scenario(progs []program) *engine.Scenario {
	name := "mgr[" + strings.Join(strs(progs), "|") + "]"
	var errs []string
	var after []string
	sc := &engine.Scenario{Name: name}
	sc.Body = func() {
		errs, after = nil, nil
		vw := vnet.Reset()
		vw.BindErr["tcp/"+addrBusy] = syscall.EADDRINUSE
		vw.BindErr["udp/"+addrBusy] = syscall.EADDRINUSE
		m := service.NewListenerManager()
		var ts []*vrt.Thread
		for i, p := range progs {
			p := p
			ts = append(ts, vrt.Spawn(fmt.Sprintf("user%d", i), func() { runProgram(m, p, &errs) }))
		}
		vrt.Join(ts...)
		// the manager must still be usable
		for _, a := range []string{addrA, addrB} {
			ln, err := m.ListenStream(a)
			if err != nil {
				after = append(after, "stream "+a+": "+err.Error())
			} else {
				ln.Close()
			}
			pc, err := m.ListenPacket(a)
			if err != nil {
				after = append(after, "packet "+a+": "+err.Error())
			} else {
				pc.Close()
			}
		}
	}
	sc.Check = func(x *vrt.Exec) (string, bool, []*engine.Finding) {
		fs := hk.Generic(x, hk.Opts{})
		if len(fs) == 0 {
			for _, e := range after {
				fs = append(fs, &engine.Finding{Sig: "unusable{" + hknorm(e) + "}", Msg: "manager not usable after the calls completed: " + e})
			}
			for _, e := range errs {
				fs = append(fs, &engine.Finding{Sig: "listen-failed{" + hknorm(e) + "}", Msg: "a listen call failed although the address is free or shared: " + e})
			}
		}
		pre := 0
		for _, p := range x.Points {
			if p.Thread && p.Running && p.Chosen != 0 {
				pre++
			}
		}
		obs := fmt.Sprint(x.Deadlock, len(x.Blocked), errs, after, len(x.Points))
		return obs, pre > 0, fs
	}
	return sc
}

func hknorm(s string) string {
	if i := strings.Index(s, ": listen"); i > 0 {
		s = s[i+2:]
	}
	return s
}

func strs(p []program) []string {
	out := make([]string, len(p))
	for i, x := range p {
		out[i] = string(x)
	}
	return out
}

func scenarios(tier string) (two, three []*engine.Scenario) {
	mn := menu
	small := []program{"sc", "pc", "ssc c", "xsc"}
	if tier != "thorough" {
		// quick: the repeated open/close programs and the largest three-thread set are thorough-only
		mn = []program{"sc", "pc", "ssc c", "sSc c", "spc c", "xsc", "ypc"}
		small = []program{"sc", "pc", "xsc"}
	}
	for i := 0; i < len(mn); i++ {
		for j := i; j < len(mn); j++ {
			if tier != "thorough" && len(mn[i]) > 3 && len(mn[j]) > 3 && !(mn[i] == "sSc c" && mn[j] == "spc c") {
				// quick: of the pairs of two long programs only the mixed stream/packet one (the others are thorough-only)
				continue
			}
			if tier != "thorough" && len(mn[i]) > 3 && mn[i] != "ssc c" && (mn[j] == "xsc" || mn[j] == "ypc") {
				// quick: the failing-listen programs are paired with the short programs and with "ssc c" only
				continue
			}
			two = append(two, scenario([]program{mn[i], mn[j]}))
		}
	}
	// traffic pending on the shared socket when the handles close
	for _, ps := range [][]program{{"skc"}, {"pdc"}, {"skc", "sc"}, {"pdc", "pc"}, {"skc", "pdc"}, {"sksc c", "sc"},
		// handles closed again and used after their close
		{"scrr"}, {"scra"}, {"pca"}, {"scrra", "sc"}, {"pca", "pc"}, {"sscrr c", "scr"},
		// a closed handle used and then closed / used again; a last close overtaken by listen, close, listen
		{"scar"}, {"scaa"}, {"scaar", "sc"}, {"sc", "scss"}} {
		if tier != "thorough" && (len(ps) == 2 && (ps[0] == "sscrr c" || ps[0] == "scrra" || ps[0] == "sksc c" || (ps[0] == "skc" && ps[1] == "pdc"))) {
			continue // quick: the longest of these pairs are thorough-only
		}
		two = append(two, scenario(ps))
	}
	for i := 0; i < len(small); i++ {
		for j := i; j < len(small); j++ {
			for k := j; k < len(small); k++ {
				three = append(three, scenario([]program{small[i], small[j], small[k]}))
			}
		}
	}
	return
}

// RaceScenarios: listen/close programs in which a listen can land between a last close and the
// manager's clean-up (a shared listener is then acquired again): used by C19 with the race monitor.
func RaceScenarios() []*engine.Scenario {
	var out []*engine.Scenario
	for _, ps := range [][]program{{"pc", "pc"}, {"pc", "pcpc"}, {"sc", "sc"}, {"sc", "scsc"}, {"spc c", "pc"}} {
		out = append(out, scenario(ps))
	}
	return out
}

func init() {
	hk.Register("C13", func(ctx *engine.Ctx) {
		two, three := scenarios(ctx.Tier)
		b2, b3 := 2, 1
		if ctx.Tier == "thorough" {
			b3 = 2
		}
		for _, sc := range two {
			engine.ExploreS(ctx, sc, engine.SConfig{Bound: b2, Shard: ctx.Shard, NShards: ctx.NShards, Deadline: ctx.Deadline})
		}
		if ctx.Tier == "thorough" {
			// bound 3 on the pairs built from the shortest programs (the full menu at bound 3 is ~10^8 executions)
			core := []program{"sc", "pc", "xsc", "sSc c"}
			for i := 0; i < len(core); i++ {
				for j := i; j < len(core); j++ {
					sc := scenario([]program{core[i], core[j]})
					sc.Name += "@3"
					engine.ExploreS(ctx, sc, engine.SConfig{Bound: 3, Shard: ctx.Shard, NShards: ctx.NShards, Deadline: ctx.Deadline})
				}
			}
		}
		for _, sc := range three {
			engine.ExploreS(ctx, sc, engine.SConfig{Bound: b3, Shard: ctx.Shard, NShards: ctx.NShards, Deadline: ctx.Deadline})
		}
	})
	hk.Replayers["C13"] = func(ctx *engine.Ctx, rp engine.Replay) []*engine.Finding {
		two, three := scenarios("thorough")
		all := append(two, three...)
		core := []program{"sc", "pc", "xsc", "sSc c"}
		for i := 0; i < len(core); i++ {
			for j := i; j < len(core); j++ {
				sc := scenario([]program{core[i], core[j]})
				sc.Name += "@3"
				all = append(all, sc)
			}
		}
		return engine.ReplayScenario(all, rp)
	}
}
