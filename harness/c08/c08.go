// Package c08: server-issued salts are fresh, recognisable, and never accepted back.
//
// Handler world: N complete connections per cipher against a talking target; the salt of
// every server->client stream is recorded (freshness: exact pairwise set check;
// recognisability: the key's own generator recognises it). Then real recorded server output
// is reflected as a client opening (whole, every truncation >= 50 bytes in steps, extended
// with junk), with the replay cache off and on: refused as ERR_REPLAY_SERVER and handled
// like a probe (nothing written, no dial, closed at the timeout).
package c08

import (
	"encoding/hex"
	"encoding/json"
	"fmt"
	"io"
	"time"

	"github.com/Jigsaw-Code/outline-ss-server/service"

	"verif/engine"
	"verif/harness/hk"
	"verif/harness/world"
	"verif/rt/vnet"
	"verif/rt/vrt"
)

const T = 59 * time.Second

type Spec struct {
	Cipher         int  `json:"cipher"`
	Conns          int  `json:"conns"`
	Cache          int  `json:"cache"`                                // -1: nil cache, 0: disabled, >0 capacity
	Batch          int  `json:"batch"`                                // seed offset so that batches differ
	Shared128First bool `json:"shared_secret_aes128_first,omitempty"` // the key list starts with an aes-128-gcm key of the SAME secret
	EmptyID        bool `json:"empty_id,omitempty"`                   // the key's ID is the empty string
	EmptySecret    bool `json:"empty_secret,omitempty"`               // the key's secret is the empty string (legal)
	LateKey        int  `json:"late_key,omitempty"`                   // the handler is built around an empty (1) / aes-128-only (2) key list; the keys arrive afterwards through CipherList.Update (a reload)
	Between        bool `json:"other_key_between,omitempty"`          // before every reflection the reflecting client IP makes a valid connection under the OTHER key (another cipher, another salt size)
	RandFailAfter  int  `json:"rand_fail_after,omitempty"`            // the system's random source fails from its n-th read on (connections may then fail, but no salt may repeat)
}

func (s Spec) String() string { b, _ := json.Marshal(s); return string(b) }

type reflRes struct {
	kind        string
	status      string
	clientGot   int
	srvClosedAt time.Duration
	rst         bool
	probes      int
	connects    int
}

func build(s Spec) *engine.Scenario {
	secret := "s@lt"
	if s.Shared128First {
		// a secret nothing else in this process has used, so that its first use is the aes-128 key
		secret = fmt.Sprintf("s@lt-128-first-%d", s.Cipher)
	}
	if s.EmptySecret {
		secret = ""
	}
	keyID := "salt-key"
	if s.EmptyID {
		keyID = ""
	}
	key := world.MakeKey(keyID, world.Ciphers[s.Cipher], secret)
	other := world.MakeKey("other", world.Ciphers[(s.Cipher+2)%4], "0ther")
	// "recognises as its own for that key": the marking generator of the key's secret, taken
	// directly (not through MakeCipherEntry, which is part of what is being checked)
	recogniser := service.NewServerSaltGenerator(secret)
	var salts []string
	var unrecognised []string
	var statuses []string
	var refl []reflRes
	sc := &engine.Scenario{Name: "salts" + s.String(), Opt: vrt.Options{Horizon: 24 * time.Hour}}
	sc.Body = func() {
		salts, unrecognised, statuses, refl = nil, nil, nil, nil
		vrt.Seed = uint64(1000 + s.Batch)
		vrt.RandFailAfter = s.RandFailAfter
		defer func() { vrt.RandFailAfter = 0 }()
		vw := vnet.Reset()
		hk.ResetLogs()
		list := []*world.Key{other, key}
		if s.Shared128First && s.Cipher != 3 {
			list = []*world.Key{world.MakeKey("same-secret-aes128", world.Ciphers[3], key.Secret), other, key}
		}
		var w *world.TCP
		switch s.LateKey {
		case 0:
			w = world.NewTCP(list, s.Cache, T)
		case 1:
			w = world.NewTCP(nil, s.Cache, T)
		default:
			w = world.NewTCP([]*world.Key{world.MakeKey("early-aes128", world.Ciphers[3], "e@rly")}, s.Cache, T)
		}
		if s.LateKey > 0 {
			w.List.Update(world.MakeList(list))
			w.Keys = list
		}
		w.Start()
		reply := world.Pattern(9, 120)
		tgt := world.StartTarget("93.184.216.34:80", func(t *world.Target, i int, c *vnet.TCPConn) {
			c.Write(reply)
			t.ReadAll(i, c)
			c.Close()
		})
		saltLen := key.K.SaltSize()
		var recorded [][]byte
		for i := 0; i < s.Conns; i++ {
			cl := world.Dial("203.0.113.7:0")
			wire := world.EncodeStream(key, uint64(s.Batch*100000+i), world.Addr("93.184.216.34:80"), []byte("ping"))
			cl.Send(wire, 0)
			cl.C.CloseWrite()
			cl.ReadAll()
			cl.C.Close()
			vrt.WaitIdle()
			if len(cl.Got) < saltLen {
				statuses = append(statuses, fmt.Sprintf("conn %d: only %d bytes from the server", i, len(cl.Got)))
				continue
			}
			salt := cl.Got[:saltLen]
			salts = append(salts, hex.EncodeToString(salt))
			if saltLen >= 20 && !recogniser.IsServerSalt(salt) {
				unrecognised = append(unrecognised, hex.EncodeToString(salt))
			}
			if st := w.Conns[len(w.Conns)-1].Status(); st != "OK" {
				statuses = append(statuses, fmt.Sprintf("conn %d: %s", i, st))
			}
			if i < 3 {
				recorded = append(recorded, cl.Got)
			}
		}
		// reflections of real server output
		if saltLen >= 20 {
			junk := make([]byte, 40)
			io.ReadFull(vrt.DetRand(77), junk)
			for ri, rec := range recorded {
				var variants [][]byte
				var names []string
				variants, names = append(variants, rec), append(names, "whole")
				variants, names = append(variants, append(append([]byte{}, rec...), junk...)), append(names, "extended")
				step := 1
				if ri > 0 {
					step = 13
				}
				for n := 50; n < len(rec); n += step {
					variants, names = append(variants, rec[:n]), append(names, fmt.Sprintf("trunc%d", n))
				}
				for vi, v := range variants {
					if s.Between {
						oc := world.Dial("203.0.113.8:0")
						oc.Send(world.EncodeStream(other, uint64(s.Batch*100000+5000+ri*1000+vi), world.Addr("93.184.216.34:80"), []byte("ping")), 0)
						oc.C.CloseWrite()
						oc.ReadAll()
						oc.C.Close()
						vrt.WaitIdle()
						if st := w.Conns[len(w.Conns)-1].Status(); st != "OK" {
							statuses = append(statuses, fmt.Sprintf("connection under the other key before reflection %d/%d: %s", ri, vi, st))
						}
					}
					before := countConnects()
					t0 := vrt.NowQuiet()
					cl := world.Dial("203.0.113.8:0")
					rd := vrt.Spawn("refl-reader", func() { cl.ReadAll() })
					cl.Send(v, 0)
					vrt.Sleep(T + 10*time.Second)
					r := reflRes{kind: names[vi], clientGot: len(cl.Got)}
					rec := w.Conns[len(w.Conns)-1]
					if rec.Srv != nil {
						r.srvClosedAt = rec.Srv.ClosedAt - t0.Sub(vrt.Epoch)
						r.rst = rec.Srv.SentRST
					}
					cl.C.Close()
					vrt.Join(rd)
					vrt.WaitIdle()
					r.status, r.probes = rec.Status(), len(rec.Probes)
					r.connects = countConnects() - before
					refl = append(refl, r)
				}
			}
		}
		w.Stop()
		tgt.Ln.Close()
		_ = vw
	}
	sc.Check = func(x *vrt.Exec) (string, bool, []*engine.Finding) {
		fs := hk.Generic(x, hk.Opts{})
		add := func(sig, format string, a ...any) {
			fs = append(fs, &engine.Finding{Sig: sig, Msg: fmt.Sprintf(format, a...) + " spec=" + s.String()})
		}
		if len(fs) > 0 {
			return "generic", true, fs
		}
		if len(statuses) > 0 && s.RandFailAfter == 0 {
			add("connection-failed", "%v", statuses)
		}
		seen := map[string]int{}
		for i, h := range salts {
			if j, dup := seen[h]; dup {
				add("salt-reused", "connections %d and %d got the same server salt %s", j, i, h)
				break
			}
			seen[h] = i
		}
		if len(unrecognised) > 0 {
			add("salt-unrecognised", "%d of %d server salts are not recognised by the key's own generator, e.g. %s", len(unrecognised), len(salts), unrecognised[0])
		}
		for _, r := range refl {
			if r.status != "ERR_REPLAY_SERVER" {
				add("reflection-status{"+r.status+"}", "reflected server output (%s) got status %s, want ERR_REPLAY_SERVER", r.kind, r.status)
				break
			}
			if r.clientGot != 0 || r.connects != 0 || r.rst || r.srvClosedAt != T {
				add("reflection-not-absorbed", "reflected server output (%s): wrote %d bytes, %d dials, rst=%v, closed at %v (want 0, 0, false, %v)", r.kind, r.clientGot, r.connects, r.rst, r.srvClosedAt, T)
				break
			}
		}
		return fmt.Sprint(len(salts), len(seen), len(refl), engine.Hash(salts...)), len(salts) > 1, fs
	}
	return sc
}

func countConnects() int {
	n := 0
	for _, ev := range vrt.Cur().Events {
		if ev.Kind == "tcp.connect" && ev.B == "93.184.216.34:80" {
			n++
		}
	}
	return n
}

func specs(tier string) []Spec {
	var out []Spec
	batches, per := 4, 50
	if tier == "thorough" {
		batches, per = 100, 50
	}
	for c := 0; c < 4; c++ {
		for b := 0; b < batches; b++ {
			cache := []int{-1, 0, 100}[b%3]
			out = append(out, Spec{Cipher: c, Conns: per, Cache: cache, Batch: b})
		}
		if c != 3 {
			out = append(out, Spec{Cipher: c, Conns: 5, Cache: -1, Batch: 900 + c, Shared128First: true})
		}
		// a key with an empty ID; another key (other salt size) used by the same client IP in between
		for _, cache := range []int{-1, 100} {
			out = append(out, Spec{Cipher: c, Conns: 4, Cache: cache, Batch: 960 + c, EmptyID: true}, Spec{Cipher: c, Conns: 4, Cache: cache, Batch: 970 + c, Between: true})
		}
		// a key whose secret is the empty string
		out = append(out, Spec{Cipher: c, Conns: 4, Cache: -1, Batch: 990 + c, EmptySecret: true})
		// the keys reach a handler that was built without them (configuration reload)
		for _, late := range []int{1, 2} {
			out = append(out, Spec{Cipher: c, Conns: 4, Cache: []int{-1, 100}[late-1], Batch: 980 + c, LateKey: late})
		}
		// the entropy source starts failing after a few connections: the server may fail them, but
		// whatever salts it still sends must not repeat
		for _, after := range []int{1, 2, 4} {
			out = append(out, Spec{Cipher: c, Conns: 6, Cache: -1, Batch: 950 + c, RandFailAfter: after})
		}
	}
	return out
}

func init() {
	hk.Register("C08", func(ctx *engine.Ctx) {
		for i, s := range specs(ctx.Tier) {
			if !ctx.Mine(int64(i)) {
				continue
			}
			if ctx.Expired() {
				ctx.Incomplete("salts", "salts: time cap hit at batch %d", i)
				break
			}
			x := ctx.RunCase("salts", "E", build(s), s, nil)
			_ = x
		}
		ctx.Res.Note("pairwise freshness is checked exactly within each batch of connections (one process lifetime each); batches use different DRBG seeds")
	})
	hk.Replayers["C08"] = func(ctx *engine.Ctx, rp engine.Replay) []*engine.Finding {
		var s Spec
		if err := json.Unmarshal(rp.Input, &s); err != nil {
			return []*engine.Finding{{Sig: "BROKEN:bad-input", Msg: err.Error()}}
		}
		rp.Choices = nil
		return engine.ReplayCase("salts", build(s), rp)
	}
}
