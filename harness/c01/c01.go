// Package c01: TCP access-key authentication is sound and complete for every key list.
//
//	auth-states  (Q) every state of the key list (every order x every last-client-IP
//	             assignment, constructed through the public API) x every (key, client IP):
//	             one real authentication, checked against the configuration; plus the
//	             snapshot-is-a-permutation invariant in every state and after every step.
//	auth-inputs  (E) position sweep over lists of 1..300 mixed keys, every single-bit flip and
//	             every truncation of the 50 key-finding bytes, streams under foreign keys.
//	auth-conc    (S) concurrent authentications racing a key-list replacement.
package c01

import (
	"container/list"
	"encoding/json"
	"fmt"
	"net"
	"net/netip"
	"sort"
	"strings"
	"time"

	"github.com/Jigsaw-Code/outline-ss-server/service"

	"verif/engine"
	"verif/harness/hk"
	"verif/harness/world"
	"verif/rt/vnet"
	"verif/rt/vrt"
)

var ips = []net.Addr{
	&net.TCPAddr{IP: net.ParseIP("203.0.113.5").To4(), Port: 1111},
	&net.TCPAddr{IP: net.ParseIP("2001:db8::5"), Port: 2222},
	nil,
}

func ipOf(a net.Addr) netip.Addr {
	if a == nil {
		return netip.Addr{}
	}
	return a.(*net.TCPAddr).AddrPort().Addr()
}

// universe: mixed ciphers, one duplicated (cipher, secret) under a second ID, one same
// secret under another cipher, one key that is never configured.
func universe(n int) (keys []*world.Key, foreign *world.Key) {
	all := []*world.Key{
		world.MakeKey("k0", world.Ciphers[0], "s0"),
		world.MakeKey("k1", world.Ciphers[1], "s1"),
		world.MakeKey("dup0", world.Ciphers[0], "s0"),
		world.MakeKey("k3", world.Ciphers[3], "s3"),
		world.MakeKey("k1c", world.Ciphers[0], "s1"),
		world.MakeKey("k2", world.Ciphers[2], "s2"),
	}
	return all[:n], world.MakeKey("foreign", world.Ciphers[1], "nope")
}

func allowedIDs(keys []*world.Key, k *world.Key) map[string]bool {
	out := map[string]bool{}
	for _, c := range keys {
		if c.Cipher == k.Cipher && c.Secret == k.Secret {
			out[c.ID] = true
		}
	}
	return out
}

// checkPermutation: the snapshot for every client IP lists every configured entry exactly once.
func checkPermutation(cl service.CipherList, keys []*world.Key) string {
	want := make([]string, 0, len(keys))
	for _, k := range keys {
		want = append(want, k.ID)
	}
	sort.Strings(want)
	for _, a := range ips {
		snap := cl.SnapshotForClientIP(ipOf(a))
		got := make([]string, 0, len(snap))
		for _, e := range snap {
			if e == nil {
				return fmt.Sprintf("snapshot for %v contains a nil element", a)
			}
			got = append(got, e.Value.(*service.CipherEntry).ID)
		}
		sort.Strings(got)
		if strings.Join(got, ",") != strings.Join(want, ",") {
			return fmt.Sprintf("snapshot for %v = %v, configured %v", a, got, want)
		}
	}
	return ""
}

// construct puts a fresh list into the state (order perm, last-client-IP class per entry).
func construct(keys []*world.Key, perm []int, ipClass []int) service.CipherList {
	l := world.MakeList(keys)
	cl := service.NewCipherList()
	cl.Update(l)
	elems := map[string]*list.Element{}
	for e := l.Front(); e != nil; e = e.Next() {
		elems[e.Value.(*service.CipherEntry).ID] = e
	}
	for i := len(perm) - 1; i >= 0; i-- {
		k := keys[perm[i]]
		cl.MarkUsedByClientIP(elems[k.ID], ipOf(ips[ipClass[perm[i]]]))
	}
	return cl
}

type authCase struct {
	Perm  []int `json:"perm"`
	IPs   []int `json:"ip_class"`
	Key   int   `json:"key"` // index into keys, len(keys) = foreign
	IP    int   `json:"ip"`
	NKeys int   `json:"nkeys"`
}

func authOnce(auth service.StreamAuthenticateFunc, k *world.Key, seed uint64, from net.Addr) (string, bool, int, string) {
	wire := world.EncodeStream(k, seed, world.Addr("93.184.216.34:80"), []byte("hello"))
	c := world.NewMemConn(wire, from)
	id, inner, err := auth(c)
	st := ""
	if err != nil {
		st = err.Status
	}
	return id, inner != nil, c.Out.Len(), st
}

func runAuthCase(ctx *engine.Ctx, ac authCase) {
	keys, foreign := universe(ac.NKeys)
	cl := construct(keys, ac.Perm, ac.IPs)
	fail := func(sig, msg string) {
		ctx.Fail("auth-states", sig, msg+fmt.Sprintf(" case=%+v", ac), ac, nil)
	}
	if m := checkPermutation(cl, keys); m != "" {
		fail("snapshot-not-permutation", m)
		return
	}
	auth := service.NewShadowsocksStreamAuthenticator(cl, nil, nil, nil)
	k := foreign
	if ac.Key < len(keys) {
		k = keys[ac.Key]
	}
	id, hasConn, wrote, status := authOnce(auth, k, uint64(ac.Key*7+ac.IP), ips[ac.IP])
	allowed := allowedIDs(keys, k)
	if len(allowed) > 0 {
		if status != "" || !hasConn {
			fail("configured-key-rejected", fmt.Sprintf("key %s (configured) was rejected with %s", k.ID, status))
		} else if !allowed[id] {
			fail("wrong-id", fmt.Sprintf("key %s authenticated as %q, allowed %v", k.ID, id, allowed))
		}
	} else {
		if status != "ERR_CIPHER" || hasConn {
			fail("foreign-key-accepted", fmt.Sprintf("unconfigured key authenticated: id=%q status=%q", id, status))
		}
		if wrote != 0 {
			fail("wrote-to-unauthenticated", fmt.Sprintf("%d bytes written to an unauthenticated client", wrote))
		}
	}
	if m := checkPermutation(cl, keys); m != "" {
		fail("snapshot-not-permutation-after", m)
	}
	// the same client again right away must still authenticate (usage history must not hide keys)
	if len(allowed) > 0 {
		id2, ok2, _, st2 := authOnce(auth, k, uint64(ac.Key*7+ac.IP)+500, ips[ac.IP])
		if !ok2 || !allowed[id2] {
			fail("second-auth-failed", fmt.Sprintf("second authentication of %s gave id=%q status=%q", k.ID, id2, st2))
		}
	}
	ctx.Record("auth-states", "Q", fmt.Sprint(ac, id, status), true, 1, 2)
}

func perms(n int) [][]int {
	var out [][]int
	var rec func(cur []int, used []bool)
	rec = func(cur []int, used []bool) {
		if len(cur) == n {
			out = append(out, append([]int(nil), cur...))
			return
		}
		for i := 0; i < n; i++ {
			if !used[i] {
				used[i] = true
				rec(append(cur, i), used)
				used[i] = false
			}
		}
	}
	rec(nil, make([]bool, n))
	return out
}

func authStates(ctx *engine.Ctx) {
	n := 5
	if ctx.Tier == "thorough" {
		n = 6
	}
	var idx int64
	ps := perms(n)
	nIP := 1
	for i := 0; i < n; i++ {
		nIP *= 3
	}
	for _, p := range ps {
		for code := 0; code < nIP; code++ {
			if !ctx.Mine(idx) {
				idx++
				continue
			}
			idx++
			if ctx.Expired() {
				ctx.Incomplete("auth-states", "auth-states: time cap hit")
				return
			}
			cls := make([]int, n)
			c := code
			for i := 0; i < n; i++ {
				cls[i] = c % 3
				c /= 3
			}
			for key := 0; key <= n; key++ {
				for ip := 0; ip < 3; ip++ {
					ac := authCase{Perm: p, IPs: cls, Key: key, IP: ip, NKeys: n}
					hk.Guard(ctx, "auth-states", ac, func() { runAuthCase(ctx, ac) })
					if idx == 1 && key == 0 && ip == 0 {
						ctx.Res.Sample(map[string]any{"unit": "auth-states", "case": ac})
					}
				}
			}
		}
	}
}

type inputCase struct {
	Kind   string `json:"kind"` // position | flip | trunc | repeat | same-salt | many | foreign
	Size   int    `json:"size"`
	Pos    int    `json:"pos"`
	Cipher int    `json:"cipher"`
	N      int    `json:"n"`
}

func runInputCase(ctx *engine.Ctx, ic inputCase) {
	keys := world.MixedKeys(ic.Size)
	cl := world.NewList(keys)
	auth := service.NewShadowsocksStreamAuthenticator(cl, nil, nil, nil)
	fail := func(sig, msg string) {
		ctx.Fail("auth-inputs", sig, msg+fmt.Sprintf(" case=%+v", ic), ic, nil)
	}
	from := ips[ic.Pos%2]
	switch ic.Kind {
	case "position":
		k := keys[ic.Pos]
		id, ok, _, st := authOnce(auth, k, uint64(ic.Pos), from)
		if !ok || id != k.ID {
			fail("position-auth", fmt.Sprintf("key at position %d of %d: id=%q status=%q", ic.Pos, ic.Size, id, st))
		}
	case "flip", "trunc":
		k := keys[ic.Pos]
		wire := world.EncodeStream(k, 3, world.Addr("93.184.216.34:80"), []byte("hello world, this is payload"))
		var in []byte
		wantOK := false
		if ic.Kind == "flip" {
			in = append([]byte(nil), wire...)
			in[ic.N/8] ^= 1 << (ic.N % 8)
			wantOK = ic.N/8 >= k.K.SaltSize()+2+16
		} else {
			in = wire[:ic.N]
		}
		c := world.NewMemConn(in, from)
		id, inner, err := auth(c)
		if wantOK {
			if err != nil || inner == nil || id != k.ID {
				fail("flip-outside-header-rejected", fmt.Sprintf("bit %d is outside salt+length+tag, yet id=%q err=%v", ic.N, id, err))
			}
		} else {
			if err == nil || inner != nil {
				fail("invalid-opening-accepted", fmt.Sprintf("%s %d authenticated as %q", ic.Kind, ic.N, id))
			} else if err.Status != "ERR_CIPHER" {
				fail("invalid-opening-status", fmt.Sprintf("status %s", err.Status))
			}
			if c.Out.Len() != 0 {
				fail("wrote-to-unauthenticated", fmt.Sprintf("%d bytes written", c.Out.Len()))
			}
		}
	case "repeat":
		// a disabled replay history (capacity 0) must not refuse anything: the same valid
		// opening presented N times in a row, then a fresh one, all authenticate
		cache := service.NewReplayCache(0)
		auth = service.NewShadowsocksStreamAuthenticator(cl, &cache, nil, nil)
		k := keys[ic.Pos]
		for r := 0; r <= ic.N; r++ {
			seed := uint64(40 + ic.Pos)
			if r == ic.N {
				seed++
			}
			id, ok, _, st := authOnce(auth, k, seed, from)
			if !ok || id != k.ID {
				fail("configured-key-rejected", fmt.Sprintf("replay history disabled, presentation %d of the same opening: id=%q status=%q", r+1, id, st))
				break
			}
		}
	case "many":
		// a long run of fresh openings of one key with a long replay history: every one is new
		// and authenticates (the history's checksum carries the whole salt)
		cache := service.NewReplayCache(5000)
		auth = service.NewShadowsocksStreamAuthenticator(cl, &cache, nil, nil)
		k := keys[ic.Pos]
		for r := 0; r < ic.N; r++ {
			id, ok, _, st := authOnce(auth, k, uint64(100000+ic.Pos*10000+r), from)
			if !ok || id != k.ID {
				fail("configured-key-rejected", fmt.Sprintf("replay history 5000: fresh opening number %d of key %s gave id=%q status=%q", r+1, k.ID, id, st))
				break
			}
		}
	case "same-salt":
		// two different keys (same cipher) whose clients happen to pick the same salt, replay history
		// on: both openings are new, both authenticate (in either order)
		cache := service.NewReplayCache(ic.N)
		auth = service.NewShadowsocksStreamAuthenticator(cl, &cache, nil, nil)
		for r, k := range []*world.Key{keys[ic.Pos], keys[ic.Pos+4], keys[(ic.Pos+8)%ic.Size]} {
			id, ok, _, st := authOnce(auth, k, uint64(70+ic.Pos), from)
			if !ok || id != k.ID {
				fail("configured-key-rejected", fmt.Sprintf("replay history %d: opening %d (key %s, a salt that another key's client has used) gave id=%q status=%q", ic.N, r+1, k.ID, id, st))
				break
			}
		}
	case "foreign":
		k := world.MakeKey("foreign", world.Ciphers[ic.Cipher], fmt.Sprintf("secret-%d", ic.N)) // same secret text, other cipher (or unknown secret)
		allowed := allowedIDs(keys, k)
		id, ok, wrote, st := authOnce(auth, k, 11, from)
		if len(allowed) == 0 && (ok || st != "ERR_CIPHER" || wrote != 0) {
			fail("foreign-key-accepted", fmt.Sprintf("id=%q status=%q wrote=%d", id, st, wrote))
		}
		if len(allowed) > 0 && (!ok || !allowed[id]) {
			fail("configured-key-rejected", fmt.Sprintf("id=%q status=%q", id, st))
		}
	}
	ctx.Record("auth-inputs", "E", fmt.Sprint(ic), true, 1, 1)
}

func authInputs(ctx *engine.Ctx) {
	var cases []inputCase
	sizes := []int{1, 2, 5, 100}
	if ctx.Tier == "thorough" {
		sizes = append(sizes, 300)
	}
	for _, n := range sizes {
		for p := 0; p < n; p++ {
			cases = append(cases, inputCase{Kind: "position", Size: n, Pos: p})
		}
	}
	for pos := 0; pos < 4; pos++ { // positions 0..3 of a 5-key list = the four ciphers
		for bit := 0; bit < 50*8; bit++ {
			cases = append(cases, inputCase{Kind: "flip", Size: 5, Pos: pos, N: bit})
		}
		for n := 0; n < 50; n++ {
			cases = append(cases, inputCase{Kind: "trunc", Size: 5, Pos: pos, N: n})
		}
	}
	for pos := 0; pos < 4; pos++ {
		for n := 1; n <= 4; n++ {
			cases = append(cases, inputCase{Kind: "repeat", Size: 5, Pos: pos, N: n})
		}
	}
	for pos := 0; pos < 4; pos++ {
		for _, n := range []int{1, 10, 1000} {
			cases = append(cases, inputCase{Kind: "same-salt", Size: 12, Pos: pos, N: n})
		}
		cases = append(cases, inputCase{Kind: "many", Size: 5, Pos: pos, N: 1500})
	}
	for c := 0; c < 4; c++ {
		for s := 0; s < 7; s++ {
			cases = append(cases, inputCase{Kind: "foreign", Size: 5, Cipher: c, N: s})
		}
	}
	for i, ic := range cases {
		if !ctx.Mine(int64(i)) {
			continue
		}
		if ctx.Expired() {
			ctx.Incomplete("auth-inputs", "auth-inputs: time cap hit")
			return
		}
		hk.Guard(ctx, "auth-inputs", ic, func() { runInputCase(ctx, ic) })
		if i < 1 {
			ctx.Res.Sample(map[string]any{"unit": "auth-inputs", "case": ic})
		}
	}
}

// ---- attribution through the handler ----

// attribCase: a stream that authenticates under key Pos of a 5-key list and then asks for something
// the server cannot do (unknown address type, truncated address, private destination, a target that
// refuses): whatever happens next, the connection is attributed to that key's ID, once.
type attribCase struct {
	Pos  int    `json:"pos"`
	Kind string `json:"kind"`
}

func attribScenario(ac attribCase) *engine.Scenario {
	var auths []string
	var status string
	keys := world.MixedKeys(5)
	sc := &engine.Scenario{Name: "auth-attribution", Opt: vrt.Options{Horizon: time.Hour}}
	sc.Body = func() {
		auths, status = nil, ""
		vnet.Reset()
		hk.ResetLogs()
		w := world.NewTCP(keys, -1, 59*time.Second)
		w.Start()
		k := keys[ac.Pos]
		var wire []byte
		switch ac.Kind {
		case "bad-type":
			wire = world.EncodeStream(k, 3, []byte{9, 1, 2, 3, 4, 0, 80}, []byte("x"))
		case "trunc-addr":
			wire = world.EncodeStream(k, 3, world.Addr("93.184.216.34:80")[:3])
		case "private":
			wire = world.EncodeStream(k, 3, world.Addr("10.1.2.3:80"), []byte("x"))
		case "refused":
			wire = world.EncodeStream(k, 3, world.Addr("93.184.216.34:81"), []byte("x"))
		}
		cl := world.Dial("203.0.113.7:0")
		cl.Send(wire, 0)
		vrt.Sleep(time.Second)
		cl.CloseWrite()
		cl.ReadAll()
		cl.Close()
		vrt.WaitIdle()
		w.Stop()
		if len(w.Conns) == 1 {
			auths, status = w.Conns[0].Auth, w.Conns[0].Status()
		}
	}
	sc.Check = func(x *vrt.Exec) (string, bool, []*engine.Finding) {
		fs := hk.Generic(x, hk.Opts{})
		if len(fs) == 0 && (len(auths) != 1 || auths[0] != keys[ac.Pos].ID) {
			fs = append(fs, &engine.Finding{Sig: "not-attributed{" + ac.Kind + "}", Msg: fmt.Sprintf("a stream encrypted under key %s (then %s, closed with %s) was attributed to %v, want exactly [%s]", keys[ac.Pos].ID, ac.Kind, status, auths, keys[ac.Pos].ID)})
		}
		return fmt.Sprint(auths, status), true, fs
	}
	return sc
}

func attribCases() []attribCase {
	var out []attribCase
	for pos := 0; pos < 4; pos++ {
		for _, k := range []string{"bad-type", "trunc-addr", "private", "refused"} {
			out = append(out, attribCase{pos, k})
		}
	}
	return out
}

// ---- concurrency ----

func concScenario(variant int) *engine.Scenario {
	type res struct {
		id     string
		ok     bool
		status string
		wrote  int
	}
	var r [2]res
	var perm string
	keys, _ := universe(4)
	newKeys := []*world.Key{keys[1], keys[3]} // k0 and dup0 removed
	sc := &engine.Scenario{Name: fmt.Sprintf("auth-conc-%d", variant)}
	sc.Body = func() {
		r = [2]res{}
		perm = ""
		cl := world.NewList(keys)
		auth := service.NewShadowsocksStreamAuthenticator(cl, nil, nil, nil)
		who := [2]*world.Key{keys[0], keys[1]}
		from := [2]net.Addr{ips[0], ips[0]}
		if variant == 1 {
			who = [2]*world.Key{keys[1], keys[1]}
			from = [2]net.Addr{ips[0], ips[1]}
		}
		if variant == 2 {
			// two clients behind one address using one key at the same time; the key was last
			// used from another address (the last-client hint flips while a lookup is under way)
			who = [2]*world.Key{keys[1], keys[1]}
			from = [2]net.Addr{ips[0], ips[0]}
			authOnce(auth, keys[1], 90, ips[1])
			authOnce(auth, keys[3], 91, ips[0])
		}
		var ts []*vrt.Thread
		for i := 0; i < 2; i++ {
			i := i
			ts = append(ts, vrt.Spawn(fmt.Sprintf("auth%d", i), func() {
				id, ok, wrote, st := authOnce(auth, who[i], uint64(i), from[i])
				r[i] = res{id, ok, st, wrote}
			}))
		}
		ts = append(ts, vrt.Spawn("update", func() {
			if variant == 2 {
				return
			}
			if variant == 0 {
				cl.Update(world.MakeList(newKeys))
			} else {
				// usage-marking storm on the same list
				for j := 0; j < 2; j++ {
					snap := cl.SnapshotForClientIP(ipOf(ips[j]))
					if len(snap) > 0 {
						cl.MarkUsedByClientIP(snap[len(snap)-1], ipOf(ips[j]))
					}
				}
			}
		}))
		vrt.Join(ts...)
		final := keys
		if variant == 0 {
			final = newKeys
		}
		perm = checkPermutation(cl, final)
	}
	sc.Check = func(x *vrt.Exec) (string, bool, []*engine.Finding) {
		fs := hk.Generic(x, hk.Opts{})
		add := func(sig, msg string) { fs = append(fs, &engine.Finding{Sig: sig, Msg: msg}) }
		if x.Crash == "" && !x.Deadlock {
			if perm != "" {
				add("snapshot-not-permutation", perm)
			}
			who := [2]*world.Key{keys[0], keys[1]}
			if variant >= 1 {
				who = [2]*world.Key{keys[1], keys[1]}
			}
			for i := 0; i < 2; i++ {
				allowed := allowedIDs(keys, who[i])
				stillThere := len(allowedIDs(newKeys, who[i])) > 0 || variant >= 1
				switch {
				case r[i].ok && !allowed[r[i].id]:
					add("wrong-id", fmt.Sprintf("thread %d: key %s authenticated as %q", i, who[i].ID, r[i].id))
				case !r[i].ok && stillThere:
					add("configured-key-rejected", fmt.Sprintf("thread %d: key %s is configured before and after the update, got %s", i, who[i].ID, r[i].status))
				case !r[i].ok && r[i].status != "ERR_CIPHER":
					add("bad-status", r[i].status)
				}
				if !r[i].ok && r[i].wrote != 0 {
					add("wrote-to-unauthenticated", "bytes written")
				}
			}
		}
		return fmt.Sprint(r, perm), len(x.Points) > 0, fs
	}
	return sc
}

func concScenarios() []*engine.Scenario {
	return []*engine.Scenario{concScenario(0), concScenario(1), concScenario(2)}
}

func init() {
	hk.Register("C01", func(ctx *engine.Ctx) {
		authInputs(ctx)
		for i, ac := range attribCases() {
			if ctx.Mine(int64(i)) {
				ctx.RunCase("auth-attribution", "E", attribScenario(ac), ac, nil)
			}
		}
		authStates(ctx)
		bound := 3
		if ctx.Tier == "thorough" {
			bound = -1
		}
		for _, sc := range concScenarios() {
			engine.ExploreS(ctx, sc, engine.SConfig{Bound: bound, Shard: ctx.Shard, NShards: ctx.NShards, Deadline: ctx.Deadline})
		}
	})
	hk.Replayers["C01"] = func(ctx *engine.Ctx, rp engine.Replay) []*engine.Finding {
		sub := &engine.Ctx{Res: engine.NewResult("C01", ctx.Tier)}
		switch rp.Unit {
		case "auth-states":
			var ac authCase
			json.Unmarshal(rp.Input, &ac)
			hk.Guard(sub, "auth-states", ac, func() { runAuthCase(sub, ac) })
			return sub.Res.Findings
		case "auth-attribution":
			var ac attribCase
			if err := json.Unmarshal(rp.Input, &ac); err != nil {
				return []*engine.Finding{{Sig: "BROKEN:bad-input", Msg: err.Error()}}
			}
			rp.Choices = nil
			return engine.ReplayCase("auth-attribution", attribScenario(ac), rp)
		case "auth-inputs":
			var ic inputCase
			json.Unmarshal(rp.Input, &ic)
			hk.Guard(sub, "auth-inputs", ic, func() { runInputCase(sub, ic) })
			return sub.Res.Findings
		}
		return engine.ReplayScenario(concScenarios(), rp)
	}
}
