// Package c10: configuration reload is all-or-nothing.
//
// Engine Q with fault enumeration on the real server (package main) over vnet and real
// scratch files: all sequences up to depth d over a menu of reloads (valid configurations
// that share addresses and keys, drop keys, switch format; and every way a reload can fail:
// missing file, malformed YAML, each validation error, bad cipher in the i-th service or a
// legacy key, the j-th listener unbindable). After every step, at quiescence: the bound
// sockets are exactly those of the last configuration that loaded, the authentication
// matrix (C09 probe) is that configuration's, no thread of a failed or replaced generation
// is left; after the final Stop nothing is bound and nothing runs.
package c10

import (
	"encoding/json"
	"fmt"
	"sort"
	"strings"
	"syscall"
	"time"

	"verif/engine"
	"verif/harness/c09"
	"verif/harness/hk"
	"verif/harness/srv"
	"verif/rt/vrt"
)

var (
	kA = srv.Key{ID: "a", Cipher: "chacha20-ietf-poly1305", Secret: "s-a"}
	kB = srv.Key{ID: "b", Cipher: "aes-256-gcm", Secret: "s-b"}
	kC = srv.Key{ID: "c", Cipher: "aes-128-gcm", Secret: "s-c"}
	kBad = srv.Key{ID: "bad", Cipher: "rc4-md5", Secret: "x"}
)

type reload struct {
	Name string
	Cfg  srv.Cfg
	OK   bool
	Busy []string // addresses that cannot be bound while this reload runs ("tcp/127.0.0.1:9100")
}

func svc(keys []srv.Key, lns ...srv.Ln) srv.Svc { return srv.Svc{Listeners: lns, Keys: keys} }
func tcp(a string) srv.Ln                       { return srv.Ln{Type: "tcp", Addr: a} }
func udp(a string) srv.Ln                       { return srv.Ln{Type: "udp", Addr: a} }

func menu() []reload {
	A := srv.Cfg{Services: []srv.Svc{svc([]srv.Key{kA, kB}, tcp("127.0.0.1:9000"), udp("127.0.0.1:9000"))}}
	B := srv.Cfg{Services: []srv.Svc{svc([]srv.Key{kA, kC}, tcp("127.0.0.1:9000"), tcp("127.0.0.1:9001"))}}
	C := srv.Cfg{Services: []srv.Svc{svc([]srv.Key{kB}, tcp("127.0.0.1:9000"), udp("127.0.0.1:9000"))}}
	L := srv.Cfg{Legacy: []srv.Legacy{{Key: kA, Port: 9005}}}
	two := func(k0, k1 []srv.Key) srv.Cfg {
		return srv.Cfg{Services: []srv.Svc{svc(k0, tcp("127.0.0.1:9000"), udp("127.0.0.1:9002")), svc(k1, tcp("127.0.0.1:9003"), udp("127.0.0.1:9000"))}}
	}
	return []reload{
		{Name: "A", Cfg: A, OK: true},
		{Name: "B", Cfg: B, OK: true},
		{Name: "C", Cfg: C, OK: true},
		{Name: "L", Cfg: L, OK: true},
		{Name: "two", Cfg: two([]srv.Key{kA}, []srv.Key{kC}), OK: true},
		// two keys with one secret under different ciphers (both must authenticate afterwards)
		{Name: "D", Cfg: srv.Cfg{Services: []srv.Svc{svc([]srv.Key{kB, {ID: "d", Cipher: "aes-192-gcm", Secret: "s-b"}}, tcp("127.0.0.1:9000"), udp("127.0.0.1:9000"))}}, OK: true},
		// the secret of ID "a" rotated (same ID and cipher, new secret): the old secret is out
		{Name: "R", Cfg: srv.Cfg{Services: []srv.Svc{svc([]srv.Key{{ID: "a", Cipher: kA.Cipher, Secret: "s-a-second"}, kB}, tcp("127.0.0.1:9000"), udp("127.0.0.1:9000"))}}, OK: true},
		// a valid configuration with nothing in it: everything stops
		{Name: "empty", Cfg: srv.Cfg{Raw: "services: []\n"}, OK: true},
		{Name: "missing", Cfg: srv.Cfg{Missing: true}},
		{Name: "malformed", Cfg: srv.Cfg{Raw: "services:\n  - listeners: [\n"}},
		{Name: "bad-type", Cfg: srv.Cfg{Services: []srv.Svc{svc([]srv.Key{kA}, srv.Ln{Type: "quic", Addr: "127.0.0.1:9000"})}}},
		// a listener type that differs from a valid one only in its case (invalid as a whole)
		{Name: "bad-type-case", Cfg: srv.Cfg{Services: []srv.Svc{svc([]srv.Key{kA, kC}, srv.Ln{Type: "TCP", Addr: "127.0.0.1:9000"}, udp("127.0.0.1:9000"))}}},
		{Name: "hostname", Cfg: srv.Cfg{Services: []srv.Svc{svc([]srv.Key{kA}, tcp("localhost:9000"))}}},
		{Name: "dup-listener", Cfg: srv.Cfg{Services: []srv.Svc{svc([]srv.Key{kA}, tcp("127.0.0.1:9007")), svc([]srv.Key{kB}, tcp("127.0.0.1:9007"))}}},
		{Name: "bad-cipher-0", Cfg: two([]srv.Key{kA, kBad}, []srv.Key{kC})},
		{Name: "bad-cipher-1", Cfg: two([]srv.Key{kA}, []srv.Key{kBad})},
		// an unsupported cipher on a key that repeats the secret of an earlier, valid key
		{Name: "bad-cipher-same-secret", Cfg: two([]srv.Key{kA, {ID: "bad2", Cipher: "rc4-md5", Secret: kA.Secret}}, []srv.Key{kC})},
		{Name: "bad-cipher-nolisten", Cfg: srv.Cfg{Services: []srv.Svc{svc([]srv.Key{kA}, tcp("127.0.0.1:9000")), {Keys: []srv.Key{kBad}}}}},
		{Name: "bad-cipher-legacy", Cfg: srv.Cfg{Services: []srv.Svc{svc([]srv.Key{kC}, tcp("127.0.0.1:9004"))}, Legacy: []srv.Legacy{{Key: kBad, Port: 9005}}}},
		{Name: "busy-0", Cfg: two([]srv.Key{kA}, []srv.Key{kC}), Busy: []string{"tcp/127.0.0.1:9000"}},
		{Name: "busy-1", Cfg: two([]srv.Key{kA}, []srv.Key{kC}), Busy: []string{"udp/127.0.0.1:9002"}},
		{Name: "busy-2", Cfg: two([]srv.Key{kA}, []srv.Key{kC}), Busy: []string{"tcp/127.0.0.1:9003"}},
		{Name: "busy-3", Cfg: two([]srv.Key{kA}, []srv.Key{kC}), Busy: []string{"udp/127.0.0.1:9000"}},
		{Name: "busy-legacy-udp", Cfg: srv.Cfg{Services: []srv.Svc{svc([]srv.Key{kC}, tcp("127.0.0.1:9004"))}, Legacy: []srv.Legacy{{Key: kA, Port: 9005}}}, Busy: []string{"udp/:9005"}},
	}
}

func boundOf(c srv.Cfg) []string {
	var out []string
	for _, l := range c.Listeners() {
		out = append(out, fmt.Sprintf("%s/%d", l.Type, l.Port()))
	}
	sort.Strings(out)
	return out
}

func systemThreads(x *vrt.Exec) int {
	n := 0
	for _, t := range x.Threads() {
		if !t.Done() && !t.Harness && !t.Daemon {
			n++
		}
	}
	return n
}

type input struct {
	Seq []string `json:"reloads"`
}

func scenario(in input) *engine.Scenario {
	var findings []*engine.Finding
	var obs string
	m := map[string]reload{}
	for _, r := range menu() {
		m[r.Name] = r
	}
	sc := &engine.Scenario{Name: "reload-seq", Opt: vrt.Options{Horizon: 24 * time.Hour}}
	sc.Body = func() {
		findings, obs = nil, ""
		add := func(sig, msg string) {
			for _, f := range findings {
				if f.Sig == sig {
					return
				}
			}
			findings = append(findings, &engine.Finding{Sig: sig, Msg: msg})
		}
		w := srv.NewWorld()
		good := m["A"].Cfg
		if err := w.Boot(good, 0); err != nil {
			add("valid-config-rejected", "initial configuration A failed: "+err.Error())
			return
		}
		x := vrt.Cur()
		verify := func(step string, seed uint64) {
			got := w.Bound()
			sort.Strings(got)
			if want := boundOf(good); strings.Join(got, ",") != strings.Join(want, ",") {
				add("bound-set{"+stepKind(step)+"}", fmt.Sprintf("after %s the server is bound to %v, the last configuration that loaded has %v", step, got, want))
				return
			}
			c09.Matrix(w, good, seed, func(sig, msg string) { add(sig+"{"+stepKind(step)+"}", "after "+step+": "+msg) })
		}
		verify("boot", 1000)
		for i, name := range in.Seq {
			r := m[name]
			if len(r.Busy) > 0 {
				// a bind can only fail for an address the running configuration does not hold already
				// (shared listeners are not bound again): decide the expectation from the current state
				r.OK = true
				held := map[string]bool{}
				for _, l := range good.Listeners() {
					held[fmt.Sprintf("%s/%d", l.Type, l.Port())] = true
				}
				for _, b := range r.Busy {
					var port int
					fmt.Sscanf(b[strings.LastIndex(b, ":")+1:], "%d", &port)
					if !held[fmt.Sprintf("%s/%d", b[:3], port)] {
						r.OK = false
					}
				}
			}
			for _, b := range r.Busy {
				w.VW.BindErr[b] = syscall.EADDRINUSE
			}
			threadsBefore := systemThreads(x)
			failed := w.Reload(r.Cfg)
			for _, b := range r.Busy {
				delete(w.VW.BindErr, b)
			}
			step := fmt.Sprintf("reload #%d (%s)", i+1, name)
			obs += fmt.Sprintf("%s:%v;", name, failed)
			switch {
			case r.OK && failed:
				add("valid-reload-failed{"+name+"}", step+": a valid configuration was reported as failed")
			case !r.OK && !failed:
				add("invalid-reload-accepted{"+name+"}", step+": the reload should have failed but no failure was reported")
			}
			if r.OK && !failed {
				good = r.Cfg
			}
			if !r.OK {
				if after := systemThreads(x); after != threadsBefore {
					add("failed-generation-left-running{"+stepKind(name)+"}", fmt.Sprintf("%s failed, but the number of server threads went from %d to %d: part of the failed configuration is still running", step, threadsBefore, after))
				}
			}
			verify(step, uint64(2000+i*500))
		}
		if err := w.Shutdown(); err != nil {
			add("stop-error", err.Error())
		}
		if b := w.Bound(); len(b) > 0 {
			add("bound-after-stop", fmt.Sprintf("after Stop the server is still bound to %v", b))
		}
		if open := w.VW.OpenSockets("srv"); len(open) > 0 {
			add("sockets-after-stop", fmt.Sprintf("after Stop: %v", open))
		}
	}
	sc.Check = func(x *vrt.Exec) (string, bool, []*engine.Finding) {
		fs := hk.Generic(x, hk.Opts{})
		fs = append(fs, findings...)
		if x.Crash == "" && !x.Deadlock {
			// after the final Stop only the SIGHUP loop may be parked
			var left []string
			for _, b := range x.Leaked() {
				if strings.Contains(b.Site, "RunOutlineServer") {
					continue
				}
				left = append(left, b.Kind+"@"+b.Site)
			}
			if len(left) > 0 {
				sort.Strings(left)
				fs = append(fs, &engine.Finding{Sig: "threads-after-stop{" + strings.Join(uniq(left), " | ") + "}", Msg: fmt.Sprintf("after Stop %d server thread(s) are still parked: %v", len(left), left)})
			}
		}
		for _, f := range fs {
			f.Msg += fmt.Sprintf(" [sequence A,%s]", strings.Join(in.Seq, ","))
		}
		return obs, true, fs
	}
	return sc
}

func stepKind(s string) string {
	switch {
	case strings.Contains(s, "busy"):
		return "bind-failure"
	case strings.Contains(s, "bad-cipher"):
		return "bad-cipher"
	case strings.Contains(s, "boot"):
		return "boot"
	case strings.Contains(s, "missing"), strings.Contains(s, "malformed"), strings.Contains(s, "bad-type"), strings.Contains(s, "hostname"), strings.Contains(s, "dup-listener"):
		return "parse-or-validate"
	}
	return "valid"
}

func uniq(s []string) []string {
	var out []string
	for i, x := range s {
		if i == 0 || x != s[i-1] {
			out = append(out, x)
		}
	}
	return out
}

func init() {
	hk.Register("C10", func(ctx *engine.Ctx) {
		depth := 2
		if ctx.Tier == "thorough" {
			depth = 3
		}
		mn := menu()
		total := int64(1)
		for i := 0; i < depth; i++ {
			total *= int64(len(mn))
		}
		for code := int64(0); code < total; code++ {
			if !ctx.Mine(code) {
				continue
			}
			if ctx.Expired() {
				ctx.Incomplete("reload-seq", "reload-seq: time cap hit at sequence %d of %d (depth %d)", code, total, depth)
				break
			}
			seq := make([]string, depth)
			c := code
			for i := 0; i < depth; i++ {
				seq[i] = mn[c%int64(len(mn))].Name
				c /= int64(len(mn))
			}
			in := input{seq}
			ctx.RunCase("reload-seq", "Q", scenario(in), in, nil)
		}
		ctx.Res.Note("reload-seq: all %d^%d reload sequences after booting configuration A", len(mn), depth)
	})
	hk.Replayers["C10"] = func(ctx *engine.Ctx, rp engine.Replay) []*engine.Finding {
		var in input
		if err := json.Unmarshal(rp.Input, &in); err != nil {
			return []*engine.Finding{{Sig: "BROKEN:bad-input", Msg: err.Error()}}
		}
		rp.Choices = nil
		return engine.ReplayCase("reload-seq", scenario(in), rp)
	}
}
