// Package c02: TCP relay delivers both byte streams intact, in order, with half-close.
//
// Handler world: the real StreamServe + streamHandler.Handle + default validating dialer
// on vnet; scripted client and target. Engine E runs the default schedule over the
// payload-size x chunking x address-type x cipher x coalescing grid; engine S explores
// the interleavings of the two copy directions and the half-close orders.
package c02

import (
	"bytes"
	"encoding/json"
	"fmt"
	"net"
	"time"

	"verif/engine"
	"verif/harness/hk"
	"verif/harness/tcpx"
	"verif/harness/world"
	"verif/rt/vnet"
	"verif/rt/vrt"
)

type Spec struct {
	Cipher   int    `json:"cipher"`
	AddrType int    `json:"addr_type"` // 0 ipv4, 1 ipv6, 2 domain
	Coalesce int    `json:"coalesce"`  // 0 address alone, 1 address+first data in one chunk, 2 address split over two chunks
	Up       int    `json:"up"`        // client->target payload bytes
	Down     int    `json:"down"`      // target->client payload bytes
	Chunk    int    `json:"chunk"`     // client chunk size
	Seg      int    `json:"seg"`       // TCP segment size of the client's writes (0 = one write)
	Order    int    `json:"order"`     // 0 client half-closes first; 1 target speaks and half-closes first; 2 both at once; 3 target answers and goes away while the client keeps uploading and reads only at the end
	TCPBuf   int    `json:"tcpbuf"`
	IdleS    int    `json:"idle_s"` // seconds both sides stay silent after the handshake before data flows
	Manager  bool   `json:"listener_from_manager,omitempty"` // the listener is obtained from the listener manager (the server's accept path); the client half-closes and reads the answer late, with a small receive buffer
	FirstCut int    `json:"first_cut,omitempty"`     // the client's first write carries only this many bytes; the rest follows once the server has taken them
	StartS   int    `json:"start_after_s,omitempty"` // the client connects this many seconds after the server started
	StopMid  bool   `json:"listener_closed_mid_relay,omitempty"` // the listener stops accepting (StreamServe's context is cancelled) after the handshake; the relay goes on
}

func (s Spec) String() string { b, _ := json.Marshal(s); return string(b) }

var targets = []string{"93.184.216.34:80", "[2606:2800:220:1:248:1893:25c8:1946]:443", "target.example:8080"}

type obsT struct {
	targetGot, clientGot []byte
	clientErr            string
	decodeErr            string
	status               string
	order                []string
	targetEOF            bool
	nconns               int
	recProxyTarget, recTargetProxy, recClientProxy, recProxyClient int64
	wireUp, wireDown     int64
	serveOK              bool
	open                 []string
}

func build(s Spec) *engine.Scenario {
	var o obsT
	key := world.MakeKey("key-"+world.Ciphers[s.Cipher], world.Ciphers[s.Cipher], "s3cret")
	other := world.MakeKey("other", world.Ciphers[(s.Cipher+1)%4], "0ther")
	up := world.Pattern(0x11, s.Up)
	down := world.Pattern(0x5a, s.Down)
	sc := &engine.Scenario{Name: "relay" + s.String(), Opt: vrt.Options{Horizon: 6 * time.Hour}}
	sc.Body = func() {
		o = obsT{}
		vw := vnet.Reset()
		if s.TCPBuf > 0 {
			vw.TCPBuf = s.TCPBuf
		}
		vw.Hosts["target.example"] = []net.IP{net.ParseIP("93.184.216.34")}
		hk.ResetLogs()
		w := world.NewTCP([]*world.Key{other, key}, 0, 59*time.Second)
		if s.Manager {
			vw.TCPSndBuf = 1 << 20
			w.StartShared()
		} else {
			w.Start()
		}
		taddr := targets[s.AddrType]
		listenAddr := taddr
		if s.AddrType == 2 {
			listenAddr = "93.184.216.34:8080"
		}
		tgt := world.StartTarget(listenAddr, func(t *world.Target, i int, c *vnet.TCPConn) {
			switch s.Order {
			case 0:
				if t.ReadAll(i, c) == nil {
					o.targetEOF = true
				}
				if s.IdleS > 0 {
					vrt.Sleep(time.Duration(s.IdleS) * time.Second)
				}
				c.Write(down)
				c.Close()
			case 1:
				c.Write(down)
				c.CloseWrite()
				if t.ReadAll(i, c) == nil {
					o.targetEOF = true
				}
				c.Close()
			case 3:
				// answer as soon as the first byte has arrived, then go away for good
				one := make([]byte, 1)
				if n, _ := c.Read(one); n == 1 {
					t.Got[i] = append(t.Got[i], one[0])
				}
				c.Write(down)
				c.Close()
			default:
				done := vrt.Spawn("target-writer", func() { c.Write(down); c.CloseWrite() })
				if t.ReadAll(i, c) == nil {
					o.targetEOF = true
				}
				vrt.Join(done)
				c.Close()
			}
		})
		// client stream
		addr := world.Addr(taddr)
		var chunks [][]byte
		rest := up
		switch s.Coalesce {
		case 0:
			chunks = append(chunks, addr)
		case 1:
			n := s.Chunk - len(addr)
			if n > len(rest) {
				n = len(rest)
			}
			if n < 0 {
				n = 0
			}
			chunks = append(chunks, append(append([]byte{}, addr...), rest[:n]...))
			rest = rest[n:]
		case 2:
			chunks = append(chunks, addr[:3], addr[3:])
		}
		for len(rest) > 0 {
			n := s.Chunk
			if n > len(rest) {
				n = len(rest)
			}
			chunks = append(chunks, rest[:n])
			rest = rest[n:]
		}
		wire := world.EncodeStream(key, 1, chunks...)
		if s.Order == 3 {
			// kernel send buffers: what the proxy has written to a client that is not reading sits in
			// the proxy's send queue (and is lost if that connection is reset)
			vw.TCPSndBuf = 1 << 20
		}
		if s.StartS > 0 {
			vrt.Sleep(time.Duration(s.StartS) * time.Second)
		}
		cl := world.Dial("203.0.113.7:0")
		if s.Order == 3 || s.Manager {
			cl.C.SetReadBuffer(256)
		}
		switch {
		case s.Manager:
			// everything is sent and the client half-closes; it reads the answer only two seconds later
			cl.Send(wire, s.Seg)
			cl.C.CloseWrite()
			vrt.Sleep(2 * time.Second)
			cl.ReadAll()
		}
		switch s.Order {
		case 0, 2:
			if s.Manager {
				break
			}
			rd := vrt.Spawn("client-reader", func() { cl.ReadAll() })
			if s.StopMid && len(chunks) > 1 {
				// the connection is relaying when its listener is closed: it runs to completion
				hs := len(world.EncodeStream(key, 1, chunks[0]))
				cl.Send(wire[:hs], s.Seg)
				vrt.WaitIdle()
				w.CloseListener()
				vrt.WaitIdle()
				cl.Send(wire[hs:], s.Seg)
			} else if s.IdleS > 0 && len(chunks) > 1 {
				// handshake and address now, the payload only after a long silence
				hs := len(world.EncodeStream(key, 1, chunks[0]))
				cl.Send(wire[:hs], s.Seg)
				vrt.Sleep(time.Duration(s.IdleS) * time.Second)
				cl.Send(wire[hs:], s.Seg)
			} else if s.FirstCut > 0 && s.FirstCut < len(wire) {
				cl.Send(wire[:s.FirstCut], 0)
				vrt.WaitIdle()
				cl.Send(wire[s.FirstCut:], s.Seg)
			} else {
				cl.Send(wire, s.Seg)
			}
			cl.C.CloseWrite()
			vrt.Join(rd)
		case 3:
			// the upload goes on in three parts with pauses while the target has long gone; the client
			// reads the answer only after it has finished uploading
			third := len(wire) / 3
			cl.Send(wire[:third], s.Seg)
			vrt.Sleep(time.Second)
			cl.Send(wire[third:2*third], s.Seg)
			vrt.Sleep(time.Second)
			cl.Send(wire[2*third:], s.Seg)
			vrt.Sleep(time.Second)
			cl.C.CloseWrite()
			cl.ReadAll()
		case 1:
			// handshake first so that the proxy connects; the target then speaks and half-closes;
			// only after the client has seen EOF does it send its payload.
			hs := len(wire)
			if len(chunks) > 1 {
				hs = len(world.EncodeStream(key, 1, chunks[0]))
				if s.Coalesce == 2 {
					hs = len(world.EncodeStream(key, 1, chunks[0], chunks[1]))
				}
			}
			cl.Send(wire[:hs], s.Seg)
			cl.ReadAll()
			cl.Send(wire[hs:], s.Seg)
			cl.C.CloseWrite()
		}
		cl.C.Close()
		vrt.WaitIdle()
		if s.StopMid {
			w.Stop2()
		} else if s.Manager {
			w.CloseListener()
			w.Stop2()
		} else {
			w.Stop()
		}
		tgt.Ln.Close()
		// observations
		o.clientErr = cl.Err
		o.clientGot, _ = world.DecodeStream(key, cl.Got)
		if _, err := world.DecodeStream(key, cl.Got); err != nil {
			o.decodeErr = err.Error()
		}
		o.nconns = len(tgt.Accepted)
		if len(tgt.Got) > 0 {
			o.targetGot = tgt.Got[0]
		}
		if len(w.Conns) == 1 {
			r := w.Conns[0]
			o.status = r.Status()
			o.order = r.Order
			if len(r.Closed) == 1 {
				d := r.Closed[0].Data
				o.recClientProxy, o.recProxyTarget, o.recTargetProxy, o.recProxyClient = d.ClientProxy, d.ProxyTarget, d.TargetProxy, d.ProxyClient
			}
		}
		o.wireUp, o.wireDown = int64(len(wire)), int64(len(cl.Got))
		o.serveOK = w.ServeReturned && w.RunningAtReturn == 0
		o.open = vw.OpenSockets("srv")
	}
	sc.Check = func(x *vrt.Exec) (string, bool, []*engine.Finding) {
		// only C02's own clauses: byte streams and end-of-stream; metrics, leaks and shutdown order
		// belong to C15 / C18 and are checked there on the same worlds
		fs := hk.Generic(x, hk.Opts{})
		add := func(sig, format string, a ...any) {
			fs = append(fs, &engine.Finding{Sig: sig, Msg: fmt.Sprintf(format, a...) + " spec=" + s.String()})
		}
		if len(fs) == 0 {
			if s.Order == 3 {
				// the target left after the first byte: nothing is promised about the upload
				if !bytes.Equal(o.clientGot, down) {
					add("down-stream-corrupt", "the target answered and went away while the client was still uploading: client decrypted %d bytes, target sent %d (first difference at %d) decodeErr=%q clientErr=%q", len(o.clientGot), len(down), firstDiff(o.clientGot, down), o.decodeErr, o.clientErr)
				}
			} else if !bytes.Equal(o.targetGot, up) {
				add("up-stream-corrupt", "target received %d bytes, client sent %d (first difference at %d)", len(o.targetGot), len(up), firstDiff(o.targetGot, up))
			}
			if !o.targetEOF && s.Order != 3 {
				add("up-eof-missing", "target never saw end-of-stream after the client's half-close")
			}
			if s.Order != 3 && !bytes.Equal(o.clientGot, down) {
				add("down-stream-corrupt", "client decrypted %d bytes, target sent %d (first difference at %d) decodeErr=%q clientErr=%q", len(o.clientGot), len(down), firstDiff(o.clientGot, down), o.decodeErr, o.clientErr)
			}
			if o.nconns != 1 {
				add("target-conns", "target saw %d connections, want 1", o.nconns)
			}
		}
		devs := 0
		for _, p := range x.Points {
			if p.Thread && p.Chosen != 0 {
				devs++
			}
		}
		obs := fmt.Sprint(len(o.targetGot), len(o.clientGot), o.status, o.order, len(x.Points), x.Elapsed(), o.recClientProxy, o.recProxyClient)
		return obs, devs > 0 || s.Up+s.Down > 0, fs
	}
	return sc
}

func firstDiff(a, b []byte) int {
	n := len(a)
	if len(b) < n {
		n = len(b)
	}
	for i := 0; i < n; i++ {
		if a[i] != b[i] {
			return i
		}
	}
	return n
}

func gridE(tier string) []Spec {
	var out []Spec
	sizes := []int{0, 1, 16382, 16383, 16384, 2*16383 + 1}
	for cipher := 0; cipher < 4; cipher++ {
		for at := 0; at < 3; at++ {
			for co := 0; co < 3; co++ {
				for _, up := range sizes {
					for _, down := range sizes {
						// full product only for the first cipher; others take the diagonal and the extremes
						if cipher > 0 && tier != "thorough" && !(up == down || up == 0 || down == 0) {
							continue
						}
						for _, chunk := range []int{16383, 100, 1} {
							if chunk == 1 && up > 1 {
								continue
							}
							if chunk == 100 && up > 16384 && tier != "thorough" {
								continue
							}
							for _, seg := range []int{0, 1, 1000} {
								if seg == 1 && up > 1 {
									continue
								}
								if seg == 1000 && (cipher != at%4) && tier != "thorough" {
									continue
								}
								out = append(out, Spec{Cipher: cipher, AddrType: at, Coalesce: co, Up: up, Down: down, Chunk: chunk, Seg: seg})
							}
						}
					}
				}
			}
		}
	}
	// the server's accept path (listener manager), a client that half-closes and reads a large answer late
	for cipher := 0; cipher < 4; cipher++ {
		out = append(out, Spec{Cipher: cipher, AddrType: cipher % 3, Coalesce: 0, Up: 2000, Down: 30000, Chunk: 1000, Order: 0, Manager: true})
	}
	// the listener is closed while the connection is relaying
	for cipher := 0; cipher < 4; cipher++ {
		for _, order := range []int{0, 2} {
			out = append(out, Spec{Cipher: cipher, AddrType: cipher % 3, Coalesce: 0, Up: 5000, Down: 7000, Chunk: 1000, Order: order, StopMid: true})
		}
	}
	// the target answers and goes away while the client keeps uploading (and reads late)
	for cipher := 0; cipher < 4; cipher++ {
		for _, down := range []int{1, 200, 2000, 16384} {
			out = append(out, Spec{Cipher: cipher, AddrType: cipher % 3, Coalesce: cipher % 2, Up: 3000, Down: down, Chunk: 500, Order: 3})
		}
	}
	// connections that outlive the handshake timeout (59 s) by far: silence, then data both ways
	for cipher := 0; cipher < 4; cipher++ {
		for _, idle := range []int{58, 60, 3600} {
			out = append(out, Spec{Cipher: cipher, AddrType: cipher % 3, Coalesce: 0, Up: 5000, Down: 7000, Chunk: 16383, IdleS: idle})
		}
	}
	// the client's stream reaches the proxy split inside its first 50 bytes (salt alone, salt +
	// length block, one byte short of what the key search needs, ...)
	for cipher := 0; cipher < 4; cipher++ {
		for _, cut := range []int{1, 16, 24, 32, 34, 49, 50, 51} {
			out = append(out, Spec{Cipher: cipher, AddrType: cut % 3, Coalesce: cut % 2, Up: 100, Down: 50, Chunk: 16383, FirstCut: cut})
		}
	}
	// the target half-closes first and has nothing to say (an empty target stream): the client
	// sees the end of stream and only then uploads
	for cipher := 0; cipher < 4; cipher++ {
		for _, up := range []int{0, 100} {
			out = append(out, Spec{Cipher: cipher, AddrType: cipher % 3, Coalesce: 0, Up: up, Down: 0, Chunk: 16383, Order: 1})
		}
	}
	// connections that arrive long after the server started (6 s, 1 h, 5 h)
	for cipher := 0; cipher < 4; cipher++ {
		for _, start := range []int{6, 3600, 18000} {
			out = append(out, Spec{Cipher: cipher, AddrType: cipher % 3, Coalesce: 0, Up: 300, Down: 200, Chunk: 16383, StartS: start})
		}
	}
	return out
}

func gridS() []Spec {
	var out []Spec
	for order := 0; order < 3; order++ {
		for _, co := range []int{0, 1} {
			out = append(out, Spec{Cipher: order % 4, AddrType: (order + co) % 3, Coalesce: co, Up: 300, Down: 200, Chunk: 200, Seg: 0, Order: order, TCPBuf: 256})
		}
	}
	out = append(out, Spec{Cipher: 1, AddrType: 0, Coalesce: 0, Up: 600, Down: 1000, Chunk: 100, Order: 3})
	out = append(out, Spec{Cipher: 2, AddrType: 1, Coalesce: 0, Up: 300, Down: 200, Chunk: 100, Order: 2, StopMid: true, TCPBuf: 256})
	return out
}

// pairScenario: two authenticated connections handled at the same time by one handler (replay
// history on, so that the authentication path has its lock operations): each target must get
// exactly its client's bytes and each client exactly its target's.
func pairScenario(c0, c1 int) *engine.Scenario {
	s := tcpx.Spec{Concurrent: true, Cache: 100, Conns: []tcpx.ConnSpec{{Class: "ok", Cipher: c0, Up: 40, Down: 60}, {Class: "ok", Cipher: c1, Up: 70, Down: 30}}}
	o := &tcpx.Obs{}
	sc := &engine.Scenario{Name: fmt.Sprintf("relay-pair[%d,%d]", c0, c1), Opt: vrt.Options{Horizon: time.Hour}}
	sc.Body = tcpx.Build(s, o, nil)
	sc.Check = func(x *vrt.Exec) (string, bool, []*engine.Finding) {
		fs := hk.Generic(x, hk.Opts{})
		obs := ""
		if len(fs) == 0 {
			for i, co := range o.Conns {
				if co == nil {
					continue
				}
				wantUp := append([]byte{byte(co.Spec.Down >> 8), byte(co.Spec.Down)}, world.Pattern(0x21, co.Spec.Up)...)
				wantDown := world.Pattern(0x33, co.Spec.Down)
				obs += fmt.Sprint(len(co.TargetGot), len(co.Plain), ";")
				if !bytes.Equal(co.TargetGot, wantUp) {
					fs = append(fs, &engine.Finding{Sig: "up-stream-corrupt", Msg: fmt.Sprintf("connection %d of two concurrent ones: its target received %d bytes, the client sent %d (first difference at %d)", i, len(co.TargetGot), len(wantUp), firstDiff(co.TargetGot, wantUp))})
				}
				if !bytes.Equal(co.Plain, wantDown) {
					fs = append(fs, &engine.Finding{Sig: "down-stream-corrupt", Msg: fmt.Sprintf("connection %d of two concurrent ones: the client decrypted %d bytes, its target sent %d", i, len(co.Plain), len(wantDown))})
				}
			}
		}
		return obs, true, fs
	}
	return sc
}

func pairScenarios() []*engine.Scenario {
	return []*engine.Scenario{pairScenario(0, 0), pairScenario(1, 3)}
}

func init() {
	hk.Register("C02", func(ctx *engine.Ctx) {
		// engine E: default schedule over the grid
		for i, s := range gridE(ctx.Tier) {
			if !ctx.Mine(int64(i)) {
				continue
			}
			if ctx.Expired() {
				ctx.Incomplete("relay-grid", "relay-grid: time cap hit at case %d", i)
				break
			}
			ctx.RunCase("relay-grid", "E", build(s), s, nil)
		}
		// engine S
		bound := 3
		if ctx.Tier == "thorough" {
			bound = 4
		}
		for _, s := range gridS() {
			engine.ExploreS(ctx, build(s), engine.SConfig{BothPolicies: true, Bound: bound, Shard: ctx.Shard, NShards: ctx.NShards, Deadline: ctx.Deadline})
		}
		for _, sc := range pairScenarios() {
			engine.ExploreS(ctx, sc, engine.SConfig{BothPolicies: true, Bound: bound - 1, Shard: ctx.Shard, NShards: ctx.NShards, Deadline: ctx.Deadline})
		}
	})
	hk.Replayers["C02"] = func(ctx *engine.Ctx, rp engine.Replay) []*engine.Finding {
		var s Spec
		if rp.Unit == "relay-grid" {
			if err := json.Unmarshal(rp.Input, &s); err != nil {
				return []*engine.Finding{{Sig: "BROKEN:bad-input", Msg: err.Error()}}
			}
			rp.Choices = nil
			return engine.ReplayCase("relay-grid", build(s), rp)
		}
		var scs []*engine.Scenario
		for _, s := range gridS() {
			scs = append(scs, build(s))
		}
		scs = append(scs, pairScenarios()...)
		return engine.ReplayScenario(scs, rp)
	}
}
