// Package c05: the proxy never sends traffic to non-public destinations.
//
//	policy-v4 / policy-v6 (E) the real RequirePublicIP over the IPv4 space (quick: every block
//	          boundary +-2 and one address per /16; thorough: all 2^32 addresses) in 4-byte and
//	          IPv4-mapped 16-byte form, and over all 65536 leading /16s of IPv6 x tail patterns,
//	          against an independent bit-level classifier.
//	e2e-tcp   (E) real handler + default dialer on vnet: every SOCKS encoding x representative
//	          addresses of every class x resolver answers; oracle on the vnet log.
//	e2e-udp   (E) real packet handler + default validator: every encoding x address at packet
//	          positions 1, 2, 3 of an association.
package c05

import (
	"encoding/binary"
	"encoding/hex"
	"encoding/json"
	"fmt"
	"log/slog"
	"net"
	"strings"
	"time"

	onet "github.com/Jigsaw-Code/outline-ss-server/net"

	"verif/engine"
	"verif/harness/hk"
	"verif/harness/udpx"
	"verif/harness/world"
	"verif/rt/vnet"
	"verif/rt/vrt"
)

type polCase struct {
	IP string `json:"ip"`
	// where in the run the address was judged (a policy that keeps state between calls judges by
	// history: the replay then repeats this worker's whole run)
	Shard   int    `json:"shard"`
	NShards int    `json:"nshards"`
	Tier    string `json:"tier"`
}

func polCaseOf(ctx *engine.Ctx, ip net.IP) polCase {
	return polCase{IP: fmt.Sprintf("%x", []byte(ip)), Shard: ctx.Shard, NShards: ctx.NShards, Tier: ctx.Tier}
}

func checkIP(ctx *engine.Ctx, unit string, ip net.IP) {
	c := classifyIP(ip)
	err := onet.RequirePublicIP(ip)
	switch {
	case c == reject && err == nil:
		ctx.Fail(unit, "nonpublic-accepted{"+blockOf(ip)+"}", fmt.Sprintf("RequirePublicIP(%v) [% x] accepted a non-public address", ip, []byte(ip)), polCaseOf(ctx, ip), nil)
	case c == accept && err != nil:
		ctx.Fail(unit, "public-rejected{"+blockOf(ip)+"}", fmt.Sprintf("RequirePublicIP(%v) rejected an ordinary public address: %v", ip, err), polCaseOf(ctx, ip), nil)
	}
}

// blockOf names the block for signatures (first octets only: stable and coarse)
func blockOf(ip net.IP) string {
	if len(ip) == 4 {
		return fmt.Sprintf("%d.%d/16", ip[0], ip[1])
	}
	if len(ip) == 16 {
		if ip4 := ip.To4(); ip4 != nil {
			return fmt.Sprintf("mapped:%d.%d/16", ip4[0], ip4[1])
		}
		return fmt.Sprintf("%02x%02x::/16", ip[0], ip[1])
	}
	return fmt.Sprintf("len%d", len(ip))
}

var boundaries4 = []uint32{
	0x00000000, 0x01000000, 0x0A000000, 0x0B000000, 0x64400000, 0x64800000, 0x7F000000, 0x80000000,
	0xA9FE0000, 0xA9FF0000, 0xAC100000, 0xAC200000, 0xC0000000, 0xC0000200, 0xC0A80000, 0xC0A90000,
	0xC6120000, 0xC6140000, 0xC6336400, 0xCB007100, 0xE0000000, 0xF0000000, 0xFFFFFFFF, 0x64000000, 0x643FFFFF, 0xAC0FFFFF, 0xC0A7FFFF,
}

func policyV4(ctx *engine.Ctx) {
	unit := "policy-v4"
	var n int64
	check := func(a uint32) {
		var b [4]byte
		binary.BigEndian.PutUint32(b[:], a)
		checkIP(ctx, unit, net.IP(b[:]))
		m := make(net.IP, 16)
		m[10], m[11] = 0xff, 0xff
		copy(m[12:], b[:])
		checkIP(ctx, unit, m)
		n += 2
	}
	if ctx.Tier == "thorough" {
		// all 2^32 addresses, sharded by the top bits
		per := uint64(1) << 32 / uint64(ctx.NShards)
		lo := per * uint64(ctx.Shard)
		hi := lo + per
		if ctx.Shard == ctx.NShards-1 {
			hi = 1 << 32
		}
		for a := lo; a < hi; a++ {
			if a&0xFFFFF == 0 && ctx.Expired() {
				ctx.Incomplete(unit, "policy-v4: time cap hit at %08x of shard [%08x,%08x)", a, lo, hi)
				break
			}
			check(uint32(a))
		}
		ctx.Res.Note("policy-v4: all 2^32 IPv4 addresses in 4-byte and IPv4-mapped form")
	} else {
		if ctx.Shard == 0 {
			for _, b := range boundaries4 {
				for d := -2; d <= 2; d++ {
					check(b + uint32(d))
				}
			}
		}
		for hi := 0; hi < 65536; hi++ {
			if !ctx.Mine(int64(hi)) {
				continue
			}
			for _, lo := range []uint32{0, 1, 0x00FF, 0x8000, 0xFFFE, 0xFFFF} {
				check(uint32(hi)<<16 | lo)
			}
		}
		ctx.Res.Note("policy-v4 (quick): every block boundary +-2 and six addresses in every /16, both forms")
	}
	us := ctx.Res.Units[unit]
	if us == nil {
		ctx.Record(unit, "E", "v4", true, 0, 0)
		us = ctx.Res.Units[unit]
		us.Evaluations = 0
		ctx.Res.Evaluations--
	}
	us.Evaluations += n
	us.States += n
	us.Transitions += n
	ctx.Res.Evaluations += n
	ctx.Res.States += n
	ctx.Res.Transitions += n
	ctx.Res.Outcomes[engine.Hash(unit, "reject")]++
	ctx.Res.Outcomes[engine.Hash(unit, "accept")]++
	ctx.Res.NonTrivial[engine.Hash(unit, "reject")] = true
	ctx.Res.NonTrivial[engine.Hash(unit, "accept")] = true
}

func policyV6(ctx *engine.Ctx) {
	unit := "policy-v6"
	var n int64
	tails := [][14]byte{
		{},
		{0xff, 0xff, 0xff, 0xff, 0xff, 0xff, 0xff, 0xff, 0xff, 0xff, 0xff, 0xff, 0xff, 0xff},
		{0, 0, 0, 0, 0, 0, 0, 0, 0, 0, 0, 0, 0, 1},
		{0, 0, 0, 0, 0, 0, 0, 0, 0xff, 0xff, 10, 0, 0, 1}, // looks mapped, is not (prefix non-zero) unless hi == 0
		{0x0d, 0xb8, 0, 0, 0, 0, 0, 0, 0, 0, 0, 0, 0, 1},  // 2001:db8 when hi == 2001
		{0x80, 0, 0, 0, 0, 0, 0, 0, 0, 0, 0, 0, 0, 0},
		{0, 0, 0, 0, 0, 0, 0, 0, 0xff, 0xff, 0x5d, 0xb8, 0xd8, 0x22}, // ::ffff:93.184.216.34 when hi == 0
		{0, 0, 0, 0, 0, 0, 0, 0, 0xff, 0xff, 127, 0, 0, 1},
	}
	for hi := 0; hi < 65536; hi++ {
		if !ctx.Mine(int64(hi)) {
			continue
		}
		for _, t := range tails {
			ip := make(net.IP, 16)
			ip[0], ip[1] = byte(hi>>8), byte(hi)
			copy(ip[2:], t[:])
			checkIP(ctx, unit, ip)
			n++
		}
	}
	if ctx.Shard == 0 {
		for _, odd := range []net.IP{nil, {}, {1}, {1, 2, 3}, {1, 2, 3, 4, 5}, make(net.IP, 15), make(net.IP, 17)} {
			checkIP(ctx, unit, odd)
			n++
		}
	}
	ctx.Record(unit, "E", "v6", true, 0, 0)
	us := ctx.Res.Units[unit]
	us.Evaluations += n - 1
	us.States += n
	us.Transitions += n
	ctx.Res.Evaluations += n - 1
	ctx.Res.States += n
	ctx.Res.Transitions += n
	ctx.Res.Note("policy-v6: all 65536 leading /16s x 8 tail patterns, plus non-address byte strings")
}

// ---- end to end ----

type e2eCase struct {
	Enc    string   `json:"enc"`  // ip4 | ip6 | mapped | lit4 | lit6 | litmapped | empty | name
	Addr   string   `json:"addr"` // address (or name)
	Answer []string `json:"answer,omitempty"`
	Cipher int      `json:"cipher"`
	Pos    int      `json:"pos,omitempty"`           // udp: packet position of the probe in the association (0 = first)
	Rep    int      `json:"rep,omitempty"`           // udp: the probe is sent this many times in a row (0 = once)
	Debug  bool     `json:"debug_logging,omitempty"` // tcp: the handler / service has a debug-enabled logger (the server's -verbose)
	Svc    bool     `json:"service,omitempty"`       // tcp: the connection is handled by a service built with NewShadowsocksService (as the server does)
}

var rejectReps = []string{"127.0.0.1", "127.255.255.254", "10.1.2.3", "172.16.0.1", "172.31.255.255", "192.168.1.1", "100.64.0.1", "100.127.255.255", "169.254.169.254", "0.0.0.0", "224.0.0.1", "239.255.255.255", "255.255.255.255",
	"::1", "::", "fe80::1", "febf::1", "fc00::1", "fd12:3456::1", "ff02::1"}
var acceptReps = []string{"93.184.216.34", "8.8.8.8", "100.63.255.255", "100.128.0.0", "172.15.255.255", "172.32.0.0", "11.0.0.0", "126.255.255.255", "128.0.0.1", "223.255.255.255", "2606:4700::1111", "2a00:1450:4001::200e"}

func socksBytes(c e2eCase, port int) []byte {
	pb := []byte{byte(port >> 8), byte(port)}
	ip := net.ParseIP(c.Addr)
	switch c.Enc {
	case "ip4":
		return append(append([]byte{1}, ip.To4()...), pb...)
	case "ip6":
		return append(append([]byte{4}, ip.To16()...), pb...)
	case "mapped":
		return append(append([]byte{4}, ip.To4().To16()...), pb...)
	case "lit4", "lit6", "litzone":
		return append(append([]byte{3, byte(len(c.Addr))}, c.Addr...), pb...)
	case "litmapped":
		s := "::ffff:" + c.Addr
		return append(append([]byte{3, byte(len(s))}, s...), pb...)
	case "empty":
		return append([]byte{3, 0}, pb...)
	case "name":
		return append(append([]byte{3, byte(len(c.Addr))}, c.Addr...), pb...)
	}
	panic("enc")
}

// candidates: the addresses the destination stands for
func candidates(c e2eCase) []net.IP {
	switch c.Enc {
	case "litzone":
		return []net.IP{net.ParseIP(c.Addr[:strings.Index(c.Addr, "%")])}
	case "empty":
		return []net.IP{nil}
	case "name":
		var out []net.IP
		for _, a := range c.Answer {
			out = append(out, net.ParseIP(a))
		}
		return out
	}
	return []net.IP{net.ParseIP(c.Addr)}
}

func norm(ip net.IP) net.IP {
	if ip == nil {
		return nil
	}
	if ip4 := ip.To4(); ip4 != nil {
		return ip4
	}
	return ip
}

func tcpScenario(c e2eCase) *engine.Scenario {
	var status string
	var outs []string
	var got int
	sc := &engine.Scenario{Name: "e2e-tcp", Opt: vrt.Options{Horizon: time.Hour}}
	sc.Body = func() {
		status, outs, got = "", nil, 0
		vw := vnet.Reset()
		hk.ResetLogs()
		if c.Enc == "name" {
			var ips []net.IP
			for _, a := range c.Answer {
				ips = append(ips, net.ParseIP(a))
			}
			vw.Hosts[c.Addr] = ips
		}
		key := world.MakeKey("k", world.Ciphers[c.Cipher], "secret")
		w := world.NewTCP([]*world.Key{key}, 0, 59*time.Second)
		var lg *slog.Logger
		if c.Debug {
			lg = slog.New(hk.LogRecorder())
			w.H.SetLogger(lg)
		}
		if c.Svc {
			w.UseService(lg)
		}
		w.Start()
		// a listener on every candidate so that a mistaken connect would even succeed
		var lns []*world.Target
		seen := map[string]bool{}
		for _, ip := range candidates(c) {
			t := ip
			if t == nil || t.IsUnspecified() {
				t = net.IPv4(127, 0, 0, 1)
			}
			a := net.JoinHostPort(t.String(), "8080")
			if seen[a] {
				continue
			}
			seen[a] = true
			lns = append(lns, world.StartTarget(a, func(t *world.Target, i int, cn *vnet.TCPConn) {
				cn.Write([]byte("hello from target"))
				t.ReadAll(i, cn)
				cn.Close()
			}))
		}
		wire := world.EncodeStream(key, 5, socksBytes(c, 8080), []byte("ping"))
		cl := world.Dial("203.0.113.7:0")
		rd := vrt.Spawn("reader", func() { cl.ReadAll() })
		cl.Send(wire, 0)
		vrt.Sleep(time.Second)
		cl.CloseWrite()
		vrt.Join(rd)
		cl.Close()
		vrt.WaitIdle()
		w.Stop()
		for _, l := range lns {
			l.Ln.Close()
		}
		if len(w.Conns) == 1 {
			status = w.Conns[0].Status()
		}
		plain, _ := world.DecodeStream(key, cl.Got)
		got = len(plain)
		for _, ev := range vrt.Cur().Events {
			if ev.Kind == "srv.tcp.out" {
				outs = append(outs, ev.B)
			}
		}
	}
	sc.Check = func(x *vrt.Exec) (string, bool, []*engine.Finding) {
		fs := hk.Generic(x, hk.Opts{})
		add := func(sig, format string, a ...any) {
			fs = append(fs, &engine.Finding{Sig: sig, Msg: fmt.Sprintf(format, a...) + fmt.Sprintf(" case=%+v", c)})
		}
		if len(fs) > 0 {
			return "generic", true, fs
		}
		anyAccept, allReject := false, true
		for _, ip := range candidates(c) {
			switch classifyIP(norm(ip)) {
			case accept:
				anyAccept = true
				allReject = false
			case dontcare:
				allReject = false
			}
		}
		for _, o := range outs {
			h, _, _ := net.SplitHostPort(o)
			ip := net.ParseIP(h)
			if classifyIP(norm(ip)) == reject || (c.Enc == "empty") {
				add("traffic-to-nonpublic{tcp,"+c.Enc+"}", "the proxy connected to %s (status %s)", o, status)
			}
		}
		if allReject {
			if got != 0 {
				add("nonpublic-served", "client received %d bytes from a non-public destination", got)
			}
		}
		if anyAccept && c.Enc != "name" {
			if status != "OK" || len(outs) != 1 || got == 0 {
				add("public-not-served{"+c.Enc+"}", "public destination: status %s, %d connects, %d bytes relayed", status, len(outs), got)
			}
		}
		if anyAccept && c.Enc == "name" && status != "OK" {
			// some candidate is public: the dialer must reach it, whatever the order of the answers
			add("public-candidate-not-used", "resolver answer %v contains a public address but the status is %s (connects %v)", c.Answer, status, outs)
		}
		return fmt.Sprint(status, outs, got), true, fs
	}
	return sc
}

func tcpCases() []e2eCase {
	var out []e2eCase
	i := 0
	addFor := func(addr string) {
		ip := net.ParseIP(addr)
		if ip.To4() != nil {
			out = append(out, e2eCase{Enc: "ip4", Addr: addr, Cipher: i % 4}, e2eCase{Enc: "mapped", Addr: addr, Cipher: (i + 1) % 4},
				e2eCase{Enc: "lit4", Addr: addr, Cipher: (i + 2) % 4}, e2eCase{Enc: "litmapped", Addr: addr, Cipher: (i + 3) % 4})
		} else {
			out = append(out, e2eCase{Enc: "ip6", Addr: addr, Cipher: i % 4}, e2eCase{Enc: "lit6", Addr: addr, Cipher: (i + 1) % 4})
		}
		i++
	}
	for _, a := range rejectReps {
		addFor(a)
	}
	for _, a := range acceptReps {
		addFor(a)
	}
	out = append(out, e2eCase{Enc: "empty"})
	// IPv6 literals with a zone, written in the domain field (net.ParseIP does not parse them)
	for _, z := range []string{"::1%lo", "fe80::1%eth0", "fe80::dead:beef%lo", "fd00::1%eth0"} {
		out = append(out, e2eCase{Enc: "litzone", Addr: z, Cipher: len(z) % 4})
	}
	pub4, pub6, priv4, priv6 := "93.184.216.34", "2606:4700::1111", "10.0.0.7", "fd00::7"
	answers := [][]string{{priv4}, {priv6}, {pub4}, {pub6}, {pub4, priv4}, {priv4, pub4}, {priv6, pub4}, {pub4, priv6}, {priv4, priv6}, {priv4, "127.0.0.1", "169.254.169.254"},
		{pub6, priv4}, {priv4, pub6}, {"127.0.0.1", pub4, "10.0.0.1"}, {"0.0.0.0"}, {"::"}, {"::ffff:10.0.0.1"}, {"::ffff:93.184.216.34"}}
	for j, ans := range answers {
		out = append(out, e2eCase{Enc: "name", Addr: fmt.Sprintf("host%d.example", j), Answer: ans, Cipher: j % 4})
	}
	// the same through a service built the way the server builds it
	for _, c := range append([]e2eCase{}, out...) {
		c.Svc = true
		out = append(out, c)
	}
	// and both with a debug-enabled logger (what -verbose gives the handler)
	for _, c := range append([]e2eCase{}, out...) {
		c.Debug = true
		out = append(out, c)
	}
	return out
}

func udpScenario(c e2eCase) *engine.Scenario {
	tr := &udpx.Trace{}
	okOp := udpx.Op{K: "S", C: 0, Key: 0, T: 1, N: 10}
	dst := c.Addr
	switch c.Enc {
	case "lit6", "ip6":
		dst = "[" + c.Addr + "]"
	case "mapped", "litmapped":
		dst = "[::ffff:" + c.Addr + "]"
	case "empty":
		dst = ""
	}
	probe := udpx.Op{K: "S", C: 0, Key: 0, N: 10, Raw: append(socksBytes(c, 53), []byte("0123456789")...)}
	_ = dst
	rep := c.Rep
	if rep == 0 {
		rep = 1
	}
	isProbe := func(i int) bool { return i >= c.Pos && i < c.Pos+rep }
	var ops []udpx.Op
	for i := 0; i < 2+rep; i++ {
		if isProbe(i) {
			ops = append(ops, probe)
		} else {
			ops = append(ops, okOp)
		}
	}
	sc := &engine.Scenario{Name: "e2e-udp", Opt: vrt.Options{Horizon: udpx.Horizon}}
	sc.Body = func() {
		cfg := udpx.Config{Keys: udpx.DefaultKeys(), NatTimeout: 5 * time.Minute}
		if c.Enc == "name" {
			cfg.Hosts = map[string][]string{c.Addr: c.Answer}
		}
		udpx.Run(cfg, ops, tr)
	}
	sc.Check = func(x *vrt.Exec) (string, bool, []*engine.Finding) {
		fs := hk.Generic(x, hk.Opts{})
		add := func(sig, format string, a ...any) {
			fs = append(fs, &engine.Finding{Sig: sig, Msg: fmt.Sprintf(format, a...) + fmt.Sprintf(" case=%+v", c)})
		}
		if len(fs) > 0 {
			return "generic", true, fs
		}
		obs := ""
		for i, st := range tr.Steps {
			var outs []string
			for _, ev := range st.Net {
				if ev.Kind == "srv.udp.out" && !strings.HasPrefix(ev.B, "203.0.113.") {
					outs = append(outs, ev.B)
				}
			}
			obs += fmt.Sprint(len(outs), ";")
			for _, o := range outs {
				h, _, _ := net.SplitHostPort(o)
				if i := strings.Index(h, "%"); i >= 0 {
					h = h[:i]
				}
				if classifyIP(norm(net.ParseIP(h))) == reject {
					add("traffic-to-nonpublic{udp,"+c.Enc+"}", "step %d: the proxy sent a datagram to %s", i, o)
				}
			}
			if isProbe(i) {
				cls := classifyIP(norm(net.ParseIP(c.Addr)))
				if c.Enc == "empty" {
					cls = reject
				}
				if c.Enc == "name" {
					cls = dontcare
					if len(c.Answer) > 0 {
						// ResolveUDPAddr uses one address: the first IPv4, else the first
						pick := net.ParseIP(c.Answer[0])
						for _, a := range c.Answer {
							if ip := net.ParseIP(a); ip.To4() != nil {
								pick = ip
								break
							}
						}
						cls = classifyIP(norm(pick))
					}
				}
				if cls == reject && len(outs) != 0 {
					add("traffic-to-nonpublic{udp,"+c.Enc+"}", "packet %d of the association was sent to a non-public destination: %v", i, outs)
				}
				if cls == accept && c.Enc != "name" && len(outs) != 1 {
					add("public-not-served{udp,"+c.Enc+"}", "packet %d to a public destination was not sent (%d datagrams)", i, len(outs))
				}
			} else if i < len(ops) && len(outs) != 1 {
				add("allowed-packet-dropped", "packet %d (allowed destination) of the association was not forwarded", i)
			}
		}
		return obs, true, fs
	}
	return sc
}

func udpCases() []e2eCase {
	var out []e2eCase
	for _, c := range tcpCases() {
		for pos := 0; pos < 3; pos++ {
			cc := c
			cc.Pos = pos
			out = append(out, cc)
		}
		// the same destination several times in a row (every datagram is checked, not only the
		// first one naming a destination), at the start of an association and inside it
		for _, pr := range [][2]int{{0, 2}, {1, 2}, {1, 3}} {
			cc := c
			cc.Pos, cc.Rep = pr[0], pr[1]
			out = append(out, cc)
		}
	}
	return out
}

// dialPair: two clients at the same time, one asking for a non-public and one for a public
// destination; whatever the interleaving of the two dials (including inside the dial-time check:
// accesses to closure-shared variables are scheduling points here), the first is never connected
// and the second is served.
func dialPair(bad, good string, badFirst bool) *engine.Scenario {
	var statuses [2]string
	var outs []string
	var got [2]int
	name := fmt.Sprintf("dial-pair{%s|%s|%v}", bad, good, badFirst)
	sc := &engine.Scenario{Name: name, Opt: vrt.Options{Horizon: time.Hour, VarYield: true}}
	sc.Body = func() {
		statuses, outs, got = [2]string{}, nil, [2]int{}
		vnet.Reset()
		hk.ResetLogs()
		key := world.MakeKey("k", world.Ciphers[0], "secret")
		w := world.NewTCP([]*world.Key{key}, 0, 59*time.Second)
		w.Start()
		var lns []*world.Target
		for _, a := range []string{bad, good} {
			lns = append(lns, world.StartTarget(net.JoinHostPort(a, "8080"), func(t *world.Target, i int, cn *vnet.TCPConn) {
				cn.Write([]byte("hello from target"))
				t.ReadAll(i, cn)
				cn.Close()
			}))
		}
		dsts := []string{bad, good}
		froms := []string{"203.0.113.7:0", "203.0.113.8:0"}
		order := []int{0, 1}
		if !badFirst {
			order = []int{1, 0}
		}
		var ts []*vrt.Thread
		for _, i := range order {
			i := i
			ts = append(ts, vrt.Spawn(fmt.Sprintf("client%d", i), func() {
				enc := "ip4"
				if net.ParseIP(dsts[i]).To4() == nil {
					enc = "ip6"
				}
				wire := world.EncodeStream(key, uint64(5+i), socksBytes(e2eCase{Enc: enc, Addr: dsts[i]}, 8080), []byte("ping"))
				cl := world.Dial(froms[i])
				cl.Send(wire, 0)
				cl.CloseWrite()
				cl.ReadAll()
				cl.Close()
				plain, _ := world.DecodeStream(key, cl.Got)
				got[i] = len(plain)
			}))
		}
		vrt.Join(ts...)
		vrt.WaitIdle()
		w.Stop()
		for _, l := range lns {
			l.Ln.Close()
		}
		for _, c := range w.Conns {
			for i := range froms {
				if strings.HasPrefix(c.Remote, strings.TrimSuffix(froms[i], ":0")+":") {
					statuses[i] = c.Status()
				}
			}
		}
		for _, ev := range vrt.Cur().Events {
			if ev.Kind == "srv.tcp.out" {
				outs = append(outs, ev.B)
			}
		}
	}
	sc.Check = func(x *vrt.Exec) (string, bool, []*engine.Finding) {
		fs := hk.Generic(x, hk.Opts{})
		if len(fs) > 0 {
			return "generic", true, fs
		}
		for _, o := range outs {
			h, _, _ := net.SplitHostPort(o)
			if classifyIP(norm(net.ParseIP(h))) == reject {
				fs = append(fs, &engine.Finding{Sig: "traffic-to-nonpublic{tcp,concurrent}", Msg: fmt.Sprintf("with a dial to %s in flight at the same time, the proxy connected to %s (statuses %v)", good, o, statuses)})
			}
		}
		if got[0] != 0 {
			fs = append(fs, &engine.Finding{Sig: "nonpublic-served{concurrent}", Msg: fmt.Sprintf("client received %d bytes from %s", got[0], bad)})
		}
		if statuses[1] != "OK" || got[1] == 0 {
			fs = append(fs, &engine.Finding{Sig: "public-not-served{concurrent}", Msg: fmt.Sprintf("with a dial to %s in flight at the same time, the public destination %s was not served: status %s, %d bytes", bad, good, statuses[1], got[1])})
		}
		return fmt.Sprint(statuses, outs, got), true, fs
	}
	return sc
}

// firstUse: the very first validations of a process, two at the same time (every execution runs in
// a process of its own, so that whatever the policy builds lazily on first use is not built yet):
// an address of the last private block and one of the first are both refused, a public one is
// accepted, whatever the interleaving.
func firstUse() *engine.Scenario {
	var errs [3]error
	sc := &engine.Scenario{Name: "first-use", Fresh: true}
	sc.Body = func() {
		errs = [3]error{}
		ips := []net.IP{net.ParseIP("100.64.0.1"), net.ParseIP("10.1.2.3"), net.ParseIP("93.184.216.34")}
		var ts []*vrt.Thread
		for i := 0; i < 2; i++ {
			i := i
			ts = append(ts, vrt.Spawn(fmt.Sprintf("validate%d", i), func() { errs[i] = onet.RequirePublicIP(ips[i]) }))
		}
		vrt.Join(ts...)
		errs[2] = onet.RequirePublicIP(ips[2])
	}
	sc.Check = func(x *vrt.Exec) (string, bool, []*engine.Finding) {
		fs := hk.Generic(x, hk.Opts{})
		if len(fs) == 0 {
			if errs[0] == nil {
				fs = append(fs, &engine.Finding{Sig: "policy-accepts-nonpublic{first-use}", Msg: "one of the first two validations of the process, made at the same time, accepted 100.64.0.1 (CGNAT)"})
			}
			if errs[1] == nil {
				fs = append(fs, &engine.Finding{Sig: "policy-accepts-nonpublic{first-use}", Msg: "one of the first two validations of the process, made at the same time, accepted 10.1.2.3 (RFC 1918)"})
			}
			if errs[2] != nil {
				fs = append(fs, &engine.Finding{Sig: "policy-rejects-public{first-use}", Msg: "93.184.216.34 rejected: " + errs[2].Error()})
			}
		}
		return fmt.Sprint(errs[0] == nil, errs[1] == nil, errs[2] == nil), true, fs
	}
	return sc
}

// history: the verdict on an address does not depend on what the process validated before. Every
// ordered pair (a, b) of representative addresses, each in a process of its own (whatever the
// policy keeps between calls starts from scratch): a, b, then a again.
func history(a, b string) *engine.Scenario {
	var errs [3]error
	sc := &engine.Scenario{Name: "policy-history|" + a + "|" + b, Fresh: true}
	sc.Body = func() {
		errs = [3]error{}
		for i, x := range []string{a, b, a} {
			errs[i] = onet.RequirePublicIP(net.ParseIP(x))
		}
	}
	public := func(x string) bool {
		for _, p := range acceptReps {
			if p == x {
				return true
			}
		}
		return false
	}
	sc.Check = func(x *vrt.Exec) (string, bool, []*engine.Finding) {
		fs := hk.Generic(x, hk.Opts{})
		if len(fs) == 0 {
			for i, addr := range []string{a, b, a} {
				if public(addr) && errs[i] != nil {
					fs = append(fs, &engine.Finding{Sig: "policy-rejects-public{history}", Msg: fmt.Sprintf("validations %s, %s, %s in a fresh process: number %d (%s, public) was rejected: %v", a, b, a, i+1, addr, errs[i])})
				}
				if !public(addr) && errs[i] == nil {
					fs = append(fs, &engine.Finding{Sig: "policy-accepts-nonpublic{history}", Msg: fmt.Sprintf("validations %s, %s, %s in a fresh process: number %d (%s, not public) was accepted", a, b, a, i+1, addr)})
				}
			}
		}
		return fmt.Sprint(errs[0] == nil, errs[1] == nil, errs[2] == nil), true, fs
	}
	return sc
}

func historyPairs(tier string) [][2]string {
	reps := append(append([]string{}, rejectReps...), acceptReps[:3]...)
	var out [][2]string
	for _, a := range reps {
		for _, b := range reps {
			out = append(out, [2]string{a, b})
		}
	}
	return out
}

func dialPairs() []*engine.Scenario {
	return []*engine.Scenario{
		dialPair("10.1.2.3", "93.184.216.34", true),
		dialPair("127.0.0.1", "8.8.8.8", false),
		dialPair("fd12:3456::1", "2606:4700::1111", true),
	}
}

func init() {
	hk.Register("C05", func(ctx *engine.Ctx) {
		for i, c := range tcpCases() {
			if ctx.Mine(int64(i)) {
				ctx.RunCase("e2e-tcp", "E", tcpScenario(c), c, nil)
			}
		}
		for i, c := range udpCases() {
			if ctx.Mine(int64(i)) {
				ctx.RunCase("e2e-udp", "E", udpScenario(c), c, nil)
			}
		}
		bound := 2
		if ctx.Tier == "thorough" {
			bound = 3
		}
		for _, sc := range dialPairs() {
			engine.ExploreS(ctx, sc, engine.SConfig{Bound: bound, Shard: ctx.Shard, NShards: ctx.NShards, Deadline: ctx.Deadline})
		}
		engine.ExploreS(ctx, firstUse(), engine.SConfig{Bound: bound, Shard: ctx.Shard, NShards: ctx.NShards, Deadline: ctx.Deadline})
		for i, p := range historyPairs(ctx.Tier) {
			if !ctx.Mine(int64(i)) {
				continue
			}
			if ctx.Expired() {
				ctx.Incomplete("policy-history", "policy-history: time cap hit at pair %d", i)
				break
			}
			engine.ExploreS(ctx, history(p[0], p[1]), engine.SConfig{Bound: 0, NShards: 1, Deadline: ctx.Deadline})
		}
		policyV6(ctx)
		policyV4(ctx)
	})
	hk.Replayers["C05"] = func(ctx *engine.Ctx, rp engine.Replay) []*engine.Finding {
		sub := &engine.Ctx{Res: engine.NewResult("C05", ctx.Tier)}
		if strings.HasPrefix(rp.Unit, "dial-pair") {
			return engine.ReplayScenario(dialPairs(), rp)
		}
		if strings.HasPrefix(rp.Unit, "policy-history|") {
			parts := strings.Split(strings.SplitN(rp.Unit, "#", 2)[0], "|")
			if len(parts) != 3 {
				return []*engine.Finding{{Sig: "BROKEN:bad-unit", Msg: rp.Unit}}
			}
			return engine.ReplayScenario([]*engine.Scenario{history(parts[1], parts[2])}, rp)
		}
		if strings.HasPrefix(rp.Unit, "first-use") {
			return engine.ReplayScenario([]*engine.Scenario{firstUse()}, rp)
		}
		switch rp.Unit {
		case "policy-v4", "policy-v6":
			var pc polCase
			json.Unmarshal(rp.Input, &pc)
			b, _ := hex.DecodeString(pc.IP)
			var ip net.IP
			if len(b) > 0 {
				ip = net.IP(b)
			}
			checkIP(sub, rp.Unit, ip)
			if len(sub.Res.Findings) == 0 && pc.NShards > 0 {
				// judged correctly on its own: repeat the run of the worker that reported it
				again := &engine.Ctx{Res: engine.NewResult("C05", pc.Tier), Tier: pc.Tier, Shard: pc.Shard, NShards: pc.NShards, Deadline: time.Now().Add(10 * time.Minute)}
				hk.Registry["C05"](again)
				for _, f := range again.Res.Findings {
					if f.Unit == rp.Unit && strings.Contains(string(f.Replay.Input), `"`+pc.IP+`"`) {
						return []*engine.Finding{f}
					}
				}
			}
			return sub.Res.Findings
		case "e2e-tcp", "e2e-udp":
			var c e2eCase
			if err := json.Unmarshal(rp.Input, &c); err != nil {
				return []*engine.Finding{{Sig: "BROKEN:bad-input", Msg: err.Error()}}
			}
			rp.Choices = nil
			if rp.Unit == "e2e-tcp" {
				return engine.ReplayCase("e2e-tcp", tcpScenario(c), rp)
			}
			return engine.ReplayCase("e2e-udp", udpScenario(c), rp)
		}
		return nil
	}
}
