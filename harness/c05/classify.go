package c05

import "net"

// The independent reference classifier of the statement. Three classes:
//   reject   : loopback, unspecified, link-local, multicast, broadcast, RFC 1918, CGNAT,
//              IPv6 unique-local, and the IPv4-mapped form of every IPv4 member;
//   accept   : ordinary public addresses (outside every IANA special-purpose block);
//   dontcare : other special-purpose blocks, unallocated IPv6 space.
// It works on raw bits only (no net.IP predicates, no CIDR parsing).

type class int

const (
	dontcare class = iota
	reject
	accept
)

func (c class) String() string { return [...]string{"dontcare", "reject", "accept"}[c] }

func classify4(a uint32) class {
	b0, b1 := byte(a>>24), byte(a>>16)
	switch {
	case a == 0: // unspecified
		return reject
	case b0 == 127: // loopback
		return reject
	case b0 == 169 && b1 == 254: // link-local
		return reject
	case b0 >= 224 && b0 <= 239: // multicast
		return reject
	case a == 0xFFFFFFFF: // broadcast
		return reject
	case b0 == 10: // RFC 1918
		return reject
	case b0 == 172 && b1 >= 16 && b1 <= 31:
		return reject
	case b0 == 192 && b1 == 168:
		return reject
	case b0 == 100 && b1 >= 64 && b1 <= 127: // CGNAT 100.64/10
		return reject
	}
	// other special-purpose blocks: the statement does not decide them
	switch {
	case b0 == 0, b0 >= 240: // "this network", reserved
		return dontcare
	case a>>8 == 0xC00000, a>>8 == 0xC00002, a>>8 == 0xC01FC4, a>>8 == 0xC034C1, a>>8 == 0xC05863, a>>8 == 0xC0AF30: // 192.0.0/24 192.0.2/24 192.31.196/24 192.52.193/24 192.88.99/24 192.175.48/24
		return dontcare
	case b0 == 198 && (b1 == 18 || b1 == 19): // benchmarking
		return dontcare
	case a>>8 == 0xC63364, a>>8 == 0xCB0071: // 198.51.100/24 203.0.113/24
		return dontcare
	}
	return accept
}

func classify16(ip [16]byte) class {
	allZero := func(b []byte) bool {
		for _, x := range b {
			if x != 0 {
				return false
			}
		}
		return true
	}
	// IPv4-mapped ::ffff:a.b.c.d
	if allZero(ip[:10]) && ip[10] == 0xff && ip[11] == 0xff {
		return classify4(uint32(ip[12])<<24 | uint32(ip[13])<<16 | uint32(ip[14])<<8 | uint32(ip[15]))
	}
	switch {
	case allZero(ip[:]): // ::
		return reject
	case allZero(ip[:15]) && ip[15] == 1: // ::1
		return reject
	case ip[0] == 0xfe && ip[1]&0xc0 == 0x80: // fe80::/10
		return reject
	case ip[0] == 0xff: // multicast
		return reject
	case ip[0]&0xfe == 0xfc: // fc00::/7
		return reject
	}
	// global unicast 2000::/3 minus the special-purpose blocks is "ordinary public"
	if ip[0]&0xe0 != 0x20 {
		return dontcare
	}
	switch {
	case ip[0] == 0x20 && ip[1] == 0x01 && ip[2]&0xfe == 0x00: // 2001::/23 (teredo, benchmarking, orchid, ...)
		return dontcare
	case ip[0] == 0x20 && ip[1] == 0x01 && ip[2] == 0x0d && ip[3] == 0xb8: // 2001:db8::/32
		return dontcare
	case ip[0] == 0x20 && ip[1] == 0x02: // 6to4
		return dontcare
	case ip[0] == 0x26 && ip[1] == 0x20 && ip[2] == 0x00 && ip[3] == 0x4f && ip[4] == 0x80 && ip[5] == 0x00: // 2620:4f:8000::/48
		return dontcare
	case ip[0] == 0x3f && ip[1] == 0xff && ip[2]&0xf0 == 0x00: // 3fff::/20 documentation
		return dontcare
	}
	return accept
}

func classifyIP(ip net.IP) class {
	switch len(ip) {
	case 4:
		return classify4(uint32(ip[0])<<24 | uint32(ip[1])<<16 | uint32(ip[2])<<8 | uint32(ip[3]))
	case 16:
		var a [16]byte
		copy(a[:], ip)
		return classify16(a)
	}
	return reject // nil / odd length: not an address, must never be dialed
}
