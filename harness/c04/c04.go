// Package c04: UDP associations give each client one stable, private outbound socket.
//
// Engine Q: sequences over three clients (same IP/different port, different IP; one key each),
// two targets, a stranger and time advances, checked with the C03 oracle plus the ownership
// invariant (no server socket ever carries datagrams of two clients; a datagram arriving at a
// client's source address is delivered to that client only). Engine S: a new datagram racing a
// reply and the expiry of the association, and two clients opening associations at once.
package c04

import (
	"bytes"
	"encoding/json"
	"fmt"
	"strings"
	"time"

	"verif/engine"
	"verif/harness/c03"
	"verif/harness/c14"
	"verif/harness/hk"
	"verif/harness/udpx"
	"verif/harness/world"
	"verif/rt/vrt"
)

type input struct {
	Timeout   time.Duration `json:"nat_timeout"`
	Ops       []udpx.Op     `json:"ops"`
	Listeners int           `json:"listeners,omitempty"`   // UDP listeners of the service (one handler), default 1
	NoExpiry  bool          `json:"no_expiry,omitempty"`   // the history is shorter than the timeout: no association can end
	Manager   bool          `json:"via_manager,omitempty"` // the handler reads from a listener-manager handle (the shared socket's reader sits in between), as in the server
}

// clientKey: client i always uses key i (so a misdelivered reply cannot be decrypted by accident)
// (the two clients that differ only in their zone, 4 and 5, share a key: one user on two interfaces)
func clientKey(tr *udpx.Trace, c int) *world.Key { return tr.Keys[[]int{0, 1, 2, 0, 1, 1}[c]] }

func ownership(tr *udpx.Trace) []*engine.Finding {
	var fs []*engine.Finding
	add := func(sig, format string, a ...any) {
		fs = append(fs, &engine.Finding{Sig: sig, Msg: fmt.Sprintf(format, a...)})
	}
	owner := map[int]int{} // server port -> client
	checkTarget := func(i int, r udpx.Recv, sends []*udpx.Step) {
		if len(r.Data) < 2 {
			return
		}
		c := int(r.Data[0])
		if o, ok := owner[r.FromUDP.Port]; ok && o != c {
			add("shared-source", "step %d: server port %d carried datagrams of client %d and client %d", i, r.FromUDP.Port, o, c)
		}
		owner[r.FromUDP.Port] = c
		found := false
		for _, s := range sends {
			if s.Op.K == "S" && bytes.Equal(s.Plain, r.Data) {
				found = true
			}
		}
		_ = found
	}
	for i, st := range tr.Steps {
		if st.Skipped {
			continue
		}
		sends := []*udpx.Step{st}
		if st.Op.K == "P" {
			sends = st.Sub
		}
		for _, r := range st.TargetRecv {
			checkTarget(i, r, sends)
		}
		// replies: delivered to the owner of the port they were addressed to, and to nobody else
		for _, r := range st.ClientRecv {
			k := clientKey(tr, r.Who)
			plain, err := world.UnpackUDP(k, r.Data)
			if err != nil {
				add("reply-to-wrong-client", "step %d: client %d received a datagram that is not under its own association key", i, r.Who)
				continue
			}
			matched := false
			for _, s := range sends {
				if (s.Op.K == "R" || s.Op.K == "X") && len(plain) >= len(s.Sent) && bytes.Equal(plain[len(plain)-len(s.Sent):], s.Sent) {
					matched = true
					if o, ok := owner[s.ReplyPort]; ok && o != r.Who {
						add("reply-to-wrong-client", "step %d: a datagram addressed to port %d (client %d) was delivered to client %d", i, s.ReplyPort, o, r.Who)
					}
				}
			}
			if !matched {
				add("reply-invented", "step %d: client %d received a datagram that no target sent in this step", i, r.Who)
			}
		}
	}
	return fs
}

// stable: for histories in which no association can end: every client's datagrams leave from one
// source, and there are exactly as many outbound sockets as clients that sent an authenticated
// datagram with an allowed destination.
func stable(tr *udpx.Trace) []*engine.Finding {
	var fs []*engine.Finding
	src := map[int]int{} // client -> server port
	authed := map[int]bool{}
	socks := 0
	for i, st := range tr.Steps {
		socks += len(st.NewSocks)
		ops := []udpx.Op{st.Op}
		if st.Op.K == "P" {
			ops = st.Op.Par
		}
		for _, o := range ops {
			if o.K == "S" && o.Key >= 0 && o.Mod == "" && o.Raw == nil {
				authed[o.C] = true
			}
		}
		for _, r := range st.TargetRecv {
			if len(r.Data) < 2 {
				continue
			}
			c := int(r.Data[0])
			if p, ok := src[c]; ok && p != r.FromUDP.Port {
				fs = append(fs, &engine.Finding{Sig: "source-changed", Msg: fmt.Sprintf("step %d: datagrams of client %d left from server port %d and from %d while its association was alive", i, c, p, r.FromUDP.Port)})
			}
			src[c] = r.FromUDP.Port
		}
	}
	if socks != len(authed) {
		fs = append(fs, &engine.Finding{Sig: "association-without-auth", Msg: fmt.Sprintf("%d outbound sockets were opened although only %d client addresses sent an authenticated datagram with an allowed destination", socks, len(authed))})
	}
	return fs
}

func scenario(name string, in input, sequential bool) *engine.Scenario {
	tr := &udpx.Trace{}
	sc := &engine.Scenario{Name: name, Opt: vrt.Options{Horizon: udpx.Horizon}}
	sc.Body = func() {
		udpx.Run(udpx.Config{Keys: udpx.DefaultKeys(), NatTimeout: in.Timeout, Listeners: in.Listeners, DualStack: in.Listeners <= 1 && !in.Manager, ViaManager: in.Manager}, in.Ops, tr)
	}
	sc.Check = func(x *vrt.Exec) (string, bool, []*engine.Finding) {
		fs := hk.Generic(x, hk.Opts{})
		if len(fs) > 0 {
			return "generic", true, fs
		}
		obs := ""
		if sequential {
			// of the C03 oracle only the clauses C04 states: one stable source while the association
			// is alive, sockets only for authenticated datagrams with allowed destinations, replies
			// to the owner only (payload integrity, attribution, lifetimes belong to C03 / C14)
			var more []*engine.Finding
			obs, more = c03.Oracle(tr, name, 65000)
			for _, f := range more {
				switch f.Sig {
				case "source-changed", "extra-socket", "socket-count", "association-without-auth", "reply-misdelivered", "reply-without-association", "unsolicited-to-client", "reply-lost", "valid-datagram-not-forwarded":
					// (a client's authenticated datagram that does not leave at all has no source address)
					fs = append(fs, f)
				}
			}
		}
		fs = append(fs, ownership(tr)...)
		if sequential {
			// "while an association is alive" is read with the lifetime the server promises (C14's
			// reference: the NAT timeout after a non-DNS datagram, 17 s after a DNS one, the single-query
			// fast close): a client whose datagrams are spaced within that promise keeps its source. An
			// association that is ended early and replaced makes the client's source change although,
			// as far as the client can tell, its association is alive. Only that consequence is taken
			// from the lifetime oracle (datagram steps), not the lifetime clauses themselves.
			_, life := c14.Oracle(tr)
			for _, f := range life {
				if (f.Sig == "association-expired-early" || f.Sig == "source-changed-while-promised") && strings.Contains(f.Msg, `{"k":"S"`) {
					fs = append(fs, &engine.Finding{Sig: "source-changed-within-promised-lifetime", Msg: "the client's next datagram cannot leave from the same source: " + f.Msg})
				}
			}
		}
		if in.NoExpiry {
			fs = append(fs, stable(tr)...)
		}
		for _, st := range tr.Steps {
			obs += fmt.Sprintf("%s:%d/%d/%d;", st.Op.K, len(st.TargetRecv), len(st.ClientRecv), len(st.NewSocks))
			for _, r := range st.TargetRecv {
				obs += fmt.Sprint(r.FromUDP.Port, ",")
			}
		}
		for _, f := range fs {
			f.Msg += fmt.Sprintf(" [timeout %v ops %v]", in.Timeout, in.Ops)
		}
		return obs, true, fs
	}
	return sc
}

func menu() []udpx.Op {
	var m []udpx.Op
	for c := 0; c < 3; c++ {
		m = append(m,
			udpx.Op{K: "S", C: c, Key: c, T: 1, N: 20},
			udpx.Op{K: "S", C: c, Key: c, T: 2, N: 8},
			udpx.Op{K: "R", C: c, T: 1, N: 16},
			udpx.Op{K: "X", C: c, T: 0, N: 9},
		)
		if c == 0 {
			// a target whose port merely ends in 53, and its reply
			m = append(m, udpx.Op{K: "S", C: c, Key: c, T: 6, N: 11}, udpx.Op{K: "R", C: c, T: 6, N: 12})
		}
	}
	// destinations that must not create an association: private literal, name resolving to a private address
	m = append(m, udpx.Op{K: "S", C: 0, Key: 0, T: 1, N: 4, Mod: "private"}, udpx.Op{K: "S", C: 1, Key: 1, T: 1, N: 4, Mod: "private-domain"},
		udpx.Op{K: "S", C: 2, Key: 2, T: 1, N: 4, Mod: "cgnat"}, udpx.Op{K: "S", C: 1, Key: 1, T: 1, N: 4, Mod: "cgnat-mapped"}, udpx.Op{K: "S", C: 0, Key: 0, T: 1, N: 4, Mod: "ula"},
		udpx.Op{K: "S", C: 2, Key: 2, T: 1, N: 4, Mod: "broadcast"}, udpx.Op{K: "S", C: 1, Key: 1, T: 1, N: 4, Mod: "empty-domain"})
	// two clients that differ only in the IPv6 zone of their address
	m = append(m, udpx.Op{K: "S", C: 4, Key: 1, T: 1, N: 20}, udpx.Op{K: "S", C: 5, Key: 1, T: 1, N: 20}, udpx.Op{K: "R", C: 4, T: 1, N: 16}, udpx.Op{K: "R", C: 5, T: 1, N: 16})
	// a datagram arriving at a client's source address from a host of the other address family,
	// and a datagram on the client's live association that does not decrypt (the association stays)
	m = append(m, udpx.Op{K: "R", C: 0, T: 2, N: 10}, udpx.Op{K: "S", C: 0, Key: 0, T: 1, N: 7, Mod: "flip"})
	// a reply too large to be relayed (the association stays)
	m = append(m, udpx.Op{K: "R", C: 0, T: 1, N: 65490})
	// an empty reply (delivered like any other)
	m = append(m, udpx.Op{K: "R", C: 1, T: 1, N: 0})
	// a transient, non-timeout error on a client's outbound socket (ICMP port unreachable): the
	// association stays
	m = append(m, udpx.Op{K: "E", C: 0})
	m = append(m, udpx.Op{K: "A", D: 9 * time.Second}, udpx.Op{K: "A", D: 11 * time.Second})
	return m
}

func raceInputs() []input {
	T := 10 * time.Second
	open0 := udpx.Op{K: "S", C: 0, Key: 0, T: 1, N: 20}
	open1 := udpx.Op{K: "S", C: 1, Key: 1, T: 1, N: 20}
	return []input{
		// a new datagram, a reply and the expiry of the association all at t = T
		{Timeout: T, Ops: []udpx.Op{open0, {K: "P", Par: []udpx.Op{{K: "S", C: 0, Key: 0, T: 1, N: 12, D: T}, {K: "R", C: 0, T: 1, N: 14, D: T}}}, {K: "S", C: 0, Key: 0, T: 2, N: 6}, {K: "R", C: 0, T: 2, N: 3}}},
		// two clients opening at once, replies crossing
		{Timeout: T, NoExpiry: true, Ops: []udpx.Op{{K: "P", Par: []udpx.Op{{K: "S", C: 0, Key: 0, T: 1, N: 12}, {K: "S", C: 1, Key: 1, T: 1, N: 13}}}, {K: "P", Par: []udpx.Op{{K: "R", C: 0, T: 1, N: 5}, {K: "R", C: 1, T: 1, N: 6}}}}},
		// client 1 opens while client 0's association expires and a stranger writes to it
		{Timeout: T, Ops: []udpx.Op{open0, open1, {K: "P", Par: []udpx.Op{{K: "X", C: 0, T: 0, N: 7, D: T}, {K: "S", C: 1, Key: 1, T: 2, N: 9, D: T}, {K: "R", C: 1, T: 1, N: 4, D: T}}}}},
		// a service with two UDP listeners (one handler): two clients with live associations send
		// at the same time, one on each listener
		{Timeout: T, Listeners: 2, NoExpiry: true, Ops: []udpx.Op{open0, {K: "S", C: 1, Key: 1, T: 1, N: 20, L: 1},
			{K: "P", Par: []udpx.Op{{K: "S", C: 0, Key: 0, T: 1, N: 12, L: 0}, {K: "S", C: 1, Key: 1, T: 2, N: 13, L: 1}}},
			{K: "R", C: 0, T: 1, N: 5}, {K: "R", C: 1, T: 2, N: 6}}},
		// two listeners: an authenticated first datagram on one, an unauthenticated one on the other
		{Timeout: T, Listeners: 2, NoExpiry: true, Ops: []udpx.Op{
			{K: "P", Par: []udpx.Op{{K: "S", C: 0, Key: 0, T: 1, N: 12, L: 0}, {K: "S", C: 1, Key: -1, T: 1, N: 13, L: 1}}},
			{K: "S", C: 0, Key: 0, T: 2, N: 9, L: 0}}},
	}
}

func init() {
	hk.Register("C04", func(ctx *engine.Ctx) {
		depth := 3
		if ctx.Tier == "thorough" {
			depth = 4
		}
		m := menu()
		total := int64(1)
		for i := 0; i < depth; i++ {
			total *= int64(len(m))
		}
		for code := int64(0); code < total; code++ {
			if !ctx.Mine(code) {
				continue
			}
			if ctx.Expired() {
				ctx.Incomplete("nat-seq", "nat-seq: time cap hit at sequence %d of %d (depth %d)", code, total, depth)
				break
			}
			ops := make([]udpx.Op, depth)
			c := code
			for i := 0; i < depth; i++ {
				ops[i] = m[c%int64(len(m))]
				c /= int64(len(m))
			}
			in := input{Timeout: 10 * time.Second, Ops: ops}
			ctx.RunCase("nat-seq", "Q", scenario("nat-seq", in, true), in, nil)
		}
		// one client, DNS and non-DNS destinations, DNS replies and 20 s pauses under a 300 s timeout:
		// all sequences; whenever two datagrams are within the promised lifetime they share a source
		dm := []udpx.Op{{K: "S", C: 0, Key: 0, T: 0, N: 20}, {K: "S", C: 0, Key: 0, T: 1, N: 20}, {K: "R", C: 0, T: 0, N: 16}, {K: "A", D: 20 * time.Second}}
		dd := 6
		if ctx.Tier == "thorough" {
			dm = append(dm, udpx.Op{K: "R", C: 0, T: 1, N: 16}, udpx.Op{K: "S", C: 0, Key: 0, T: 6, N: 20})
			dd = 7
		}
		dtotal := int64(1)
		for i := 0; i < dd; i++ {
			dtotal *= int64(len(dm))
		}
		for code := int64(0); code < dtotal; code++ {
			if !ctx.Mine(code) {
				continue
			}
			if ctx.Expired() {
				ctx.Incomplete("nat-seq-dns", "nat-seq-dns: time cap hit at sequence %d of %d", code, dtotal)
				break
			}
			ops := make([]udpx.Op, dd)
			c := code
			for i := 0; i < dd; i++ {
				ops[i] = dm[c%int64(len(dm))]
				c /= int64(len(dm))
			}
			in := input{Timeout: 300 * time.Second, Ops: ops}
			ctx.RunCase("nat-seq-dns", "Q", scenario("nat-seq-dns", in, true), in, nil)
		}
		// the way the server wires it: the handler reads from a listener-manager handle; three clients
		// interleaved, replies, expiry
		mm := []udpx.Op{{K: "S", C: 0, Key: 0, T: 1, N: 20}, {K: "S", C: 1, Key: 1, T: 1, N: 21}, {K: "S", C: 2, Key: 2, T: 2, N: 22},
			{K: "R", C: 0, T: 1, N: 16}, {K: "R", C: 1, T: 1, N: 17}, {K: "A", D: 9 * time.Second}, {K: "A", D: 11 * time.Second}}
		md := 4
		if ctx.Tier == "thorough" {
			md = 5
		}
		mtotal := int64(1)
		for i := 0; i < md; i++ {
			mtotal *= int64(len(mm))
		}
		for code := int64(0); code < mtotal; code++ {
			if !ctx.Mine(code) {
				continue
			}
			ops := make([]udpx.Op, md)
			c := code
			for i := 0; i < md; i++ {
				ops[i] = mm[c%int64(len(mm))]
				c /= int64(len(mm))
			}
			if ctx.Expired() {
				ctx.Incomplete("nat-seq-mgr", "nat-seq-mgr: time cap hit at sequence %d of %d", code, mtotal)
				break
			}
			in := input{Timeout: 10 * time.Second, Ops: ops, Manager: true}
			ctx.RunCase("nat-seq-mgr", "Q", scenario("nat-seq-mgr", in, true), in, nil)
		}
		// three datagrams of one client with gaps g1, g2 < timeout (every pair of whole seconds, and
		// of half seconds in the thorough tier): one source, and a reply after the third is relayed
		step := time.Second
		if ctx.Tier == "thorough" {
			step = 500 * time.Millisecond
		}
		var gidx int64
		for g1 := step; g1 < 10*time.Second; g1 += step {
			for g2 := step; g2 < 10*time.Second; g2 += step {
				gidx++
				if !ctx.Mine(gidx) {
					continue
				}
				if ctx.Expired() {
					ctx.Incomplete("nat-gaps", "nat-gaps: time cap hit at pair %d", gidx)
					break
				}
				in := input{Timeout: 10 * time.Second, Ops: []udpx.Op{{K: "S", C: 0, Key: 0, T: 1, N: 20}, {K: "A", D: g1}, {K: "S", C: 0, Key: 0, T: 2, N: 8},
					{K: "A", D: g2}, {K: "S", C: 0, Key: 0, T: 1, N: 12}, {K: "R", C: 0, T: 1, N: 16}}}
				ctx.RunCase("nat-gaps", "Q", scenario("nat-gaps", in, true), in, nil)
			}
		}
		bound := 3
		if ctx.Tier == "thorough" {
			bound = 5
		}
		for i, in := range raceInputs() {
			engine.ExploreS(ctx, scenario(fmt.Sprintf("nat-race-%d", i), in, false), engine.SConfig{BothPolicies: true, Bound: bound, Shard: ctx.Shard, NShards: ctx.NShards, Deadline: ctx.Deadline})
		}
	})
	hk.Replayers["C04"] = func(ctx *engine.Ctx, rp engine.Replay) []*engine.Finding {
		if rp.Unit == "nat-seq" || rp.Unit == "nat-seq-dns" || rp.Unit == "nat-gaps" || rp.Unit == "nat-seq-mgr" {
			var in input
			if err := json.Unmarshal(rp.Input, &in); err != nil {
				return []*engine.Finding{{Sig: "BROKEN:bad-input", Msg: err.Error()}}
			}
			rp.Choices = nil
			return engine.ReplayCase(rp.Unit, scenario(rp.Unit, in, true), rp)
		}
		var scs []*engine.Scenario
		for i, in := range raceInputs() {
			scs = append(scs, scenario(fmt.Sprintf("nat-race-%d", i), in, false))
		}
		return engine.ReplayScenario(scs, rp)
	}
}
