package world

import (
	"bytes"
	"io"
	"net"
	"time"
)

// MemConn is a non-blocking in-memory StreamConn for seams that only read a prepared
// byte string (the authenticator): reads come from In, writes are recorded in Out.
type MemConn struct {
	In     *bytes.Reader
	Out    bytes.Buffer
	Remote net.Addr
	Closed bool
}

func NewMemConn(in []byte, remote net.Addr) *MemConn {
	return &MemConn{In: bytes.NewReader(in), Remote: remote}
}

func (c *MemConn) Read(b []byte) (int, error) {
	n, err := c.In.Read(b)
	if err == io.EOF && n > 0 {
		err = nil
	}
	return n, err
}
func (c *MemConn) Write(b []byte) (int, error)      { return c.Out.Write(b) }
func (c *MemConn) Close() error                     { c.Closed = true; return nil }
func (c *MemConn) CloseRead() error                 { return nil }
func (c *MemConn) CloseWrite() error                { return nil }
func (c *MemConn) LocalAddr() net.Addr              { return &net.TCPAddr{IP: net.IPv4(127, 0, 0, 1), Port: 9000} }
func (c *MemConn) RemoteAddr() net.Addr             { return c.Remote }
func (c *MemConn) SetDeadline(time.Time) error      { return nil }
func (c *MemConn) SetReadDeadline(time.Time) error  { return nil }
func (c *MemConn) SetWriteDeadline(time.Time) error { return nil }
