// Package world builds the closed "handler worlds" the property harnesses run:
// real service handlers on vnet sockets, scripted clients and targets, recording
// metrics. Everything here must be called from inside a vrt execution.
package world

import (
	"bytes"
	"container/list"
	"fmt"
	"io"
	"net"

	"github.com/Jigsaw-Code/outline-sdk/transport/shadowsocks"
	"github.com/Jigsaw-Code/outline-ss-server/service"
	"github.com/shadowsocks/go-shadowsocks2/socks"

	"verif/rt/vrt"
)

var Ciphers = []string{"chacha20-ietf-poly1305", "aes-256-gcm", "aes-192-gcm", "aes-128-gcm"}

type Key struct {
	ID, Cipher, Secret string
	K                  *shadowsocks.EncryptionKey
}

func MakeKey(id, cipher, secret string) *Key {
	k, err := shadowsocks.NewEncryptionKey(cipher, secret)
	if err != nil {
		panic(err)
	}
	return &Key{ID: id, Cipher: cipher, Secret: secret, K: k}
}

// MixedKeys returns n keys cycling through the four ciphers with distinct secrets.
func MixedKeys(n int) []*Key {
	var out []*Key
	for i := 0; i < n; i++ {
		out = append(out, MakeKey(fmt.Sprintf("k%d", i), Ciphers[i%4], fmt.Sprintf("secret-%d", i)))
	}
	return out
}

// NewList builds a CipherList the way the server does (MakeCipherEntry per key).
func NewList(keys []*Key) service.CipherList {
	cl := service.NewCipherList()
	cl.Update(MakeList(keys))
	return cl
}

func MakeList(keys []*Key) *list.List {
	l := list.New()
	for _, k := range keys {
		e := service.MakeCipherEntry(k.ID, k.K, k.Secret)
		l.PushBack(&e)
	}
	return l
}

type detSalt struct{ r io.Reader }

func (d detSalt) GetSalt(salt []byte) error { _, err := io.ReadFull(d.r, salt); return err }

// SaltSeed gives a deterministic, per-seed client salt generator.
func SaltSeed(seed uint64) shadowsocks.SaltGenerator { return detSalt{vrt.DetRand(seed + 1000)} }

// EncodeStream returns the wire bytes of a Shadowsocks client stream whose chunks carry
// the given plaintexts (one chunk per element; elements must be <= 16383 bytes).
func EncodeStream(k *Key, seed uint64, chunks ...[]byte) []byte {
	var buf bytes.Buffer
	w := shadowsocks.NewWriter(&buf, k.K)
	w.SetSaltGenerator(SaltSeed(seed))
	for _, c := range chunks {
		if len(c) == 0 {
			continue
		}
		if _, err := w.Write(c); err != nil {
			panic(err)
		}
	}
	return buf.Bytes()
}

// DecodeStream decrypts a server->client stream as far as it is valid.
func DecodeStream(k *Key, wire []byte) ([]byte, error) {
	r := shadowsocks.NewReader(bytes.NewReader(wire), k.K)
	var out bytes.Buffer
	_, err := r.WriteTo(&out)
	return out.Bytes(), err
}

// Addr encodes host:port as a SOCKS address.
func Addr(hostport string) []byte {
	a := socks.ParseAddr(hostport)
	if a == nil {
		panic("bad address " + hostport)
	}
	return a
}

func PackUDP(k *Key, seed uint64, plaintext []byte) []byte {
	salt := make([]byte, k.K.SaltSize())
	io.ReadFull(vrt.DetRand(seed+5000), salt)
	// shadowsocks.Pack draws its salt from crypto/rand; build the packet by hand to own the salt
	aead, err := k.K.NewAEAD(salt)
	if err != nil {
		panic(err)
	}
	out := append([]byte(nil), salt...)
	var nonce [12]byte
	return aead.Seal(out, nonce[:aead.NonceSize()], plaintext, nil)
}

func UnpackUDP(k *Key, pkt []byte) ([]byte, error) {
	// Unpack decrypts in place when dst is nil: work on a copy, traces are read more than once
	return shadowsocks.Unpack(nil, append([]byte(nil), pkt...), k.K)
}

func TCPAddr(s string) *net.TCPAddr {
	a, err := net.ResolveTCPAddr("tcp", s)
	if err != nil {
		panic(err)
	}
	return a
}

func UDPAddr(s string) *net.UDPAddr {
	a, err := net.ResolveUDPAddr("udp", s)
	if err != nil {
		panic(err)
	}
	return a
}

// Pattern returns n deterministic bytes depending on tag (payloads that reveal reordering).
func Pattern(tag byte, n int) []byte {
	b := make([]byte, n)
	for i := range b {
		b[i] = byte(i*7) ^ tag ^ byte(i>>8)
	}
	return b
}

// RawChunk describes one hand-built chunk of a Shadowsocks stream: LenField overrides the
// encrypted length field (0 = len(Payload)); a nil Payload with LenField set sends only the
// length block.
type RawChunk struct {
	Payload  []byte
	LenField int
	NoBody   bool
}

// RawStream encrypts chunks by hand (salt drawn from seed) so that malformed length
// fields and zero-length chunks can be produced, which the SDK writer never emits.
func RawStream(k *Key, seed uint64, chunks []RawChunk) []byte {
	salt := make([]byte, k.K.SaltSize())
	io.ReadFull(vrt.DetRand(seed+1000), salt)
	aead, err := k.K.NewAEAD(salt)
	if err != nil {
		panic(err)
	}
	out := append([]byte(nil), salt...)
	nonce := make([]byte, aead.NonceSize())
	inc := func() {
		for i := range nonce {
			nonce[i]++
			if nonce[i] != 0 {
				return
			}
		}
	}
	for _, c := range chunks {
		l := c.LenField
		if l == 0 {
			l = len(c.Payload)
		}
		lb := []byte{byte(l >> 8), byte(l)}
		out = aead.Seal(out, nonce, lb, nil)
		inc()
		if c.NoBody {
			continue
		}
		out = aead.Seal(out, nonce, c.Payload, nil)
		inc()
	}
	return out
}
