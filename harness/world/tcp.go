package world

import (
	"context"
	"fmt"
	"io"
	"log/slog"
	"net"
	"time"

	"github.com/Jigsaw-Code/outline-sdk/transport"
	"github.com/Jigsaw-Code/outline-ss-server/service"
	"github.com/Jigsaw-Code/outline-ss-server/service/metrics"

	"verif/rt/vnet"
	"verif/rt/vrt"
)

const ProxyTCP = "127.0.0.1:9000"

// ConnRec records what the handler reported for one accepted connection.
type ConnRec struct {
	Remote           string
	Order            []string // call order: "auth:<id>", "probe:<status>/<drain>/<n>", "closed:<status>"
	Auth             []string
	Probes           []ProbeRec
	Closed           []ClosedRec
	Srv              *vnet.TCPConn // server side socket
	HandleReturnedAt time.Duration
	AuthAt           []time.Duration
}

type ProbeRec struct {
	Status, Drain string
	Bytes         int64
}

type ClosedRec struct {
	Status string
	Data   metrics.ProxyMetrics
	At     time.Duration
}

func (c *ConnRec) AddAuthenticated(accessKey string) {
	c.AuthAt = append(c.AuthAt, vrt.NowQuiet().Sub(vrt.Epoch))
	c.Auth = append(c.Auth, accessKey)
	c.Order = append(c.Order, "auth:"+accessKey)
}
func (c *ConnRec) AddClosed(status string, data metrics.ProxyMetrics, d time.Duration) {
	c.Closed = append(c.Closed, ClosedRec{status, data, vrt.NowQuiet().Sub(vrt.Epoch)})
	c.Order = append(c.Order, "closed:"+status)
}
func (c *ConnRec) AddProbe(status, drain string, n int64) {
	c.Probes = append(c.Probes, ProbeRec{status, drain, n})
	c.Order = append(c.Order, fmt.Sprintf("probe:%s/%s/%d", status, drain, n))
}

func (c *ConnRec) Status() string {
	if len(c.Closed) == 0 {
		return "<none>"
	}
	return c.Closed[len(c.Closed)-1].Status
}

// TCP is a TCP handler world.
type TCP struct {
	Keys    []*Key
	List    service.CipherList
	Cache   *service.ReplayCache
	Auth    service.StreamAuthenticateFunc
	H       service.StreamHandler
	Timeout time.Duration
	Ln      *vnet.TCPListener
	Conns   []*ConnRec
	serve   *vrt.Thread

	Running         int // handlers currently running
	ServeReturned   bool
	RunningAtReturn int // handlers still running when StreamServe returned
	// Accepted / Finished: connections StreamServe has accepted / whose handler has returned;
	// UnfinishedAtReturn: their difference at the moment StreamServe returned (handlers that were
	// still running, or had not even started)
	Accepted, Finished, UnfinishedAtReturn int
	// FailHandler: the handling of a connection from this remote address fails (panics) before the
	// stream handler runs: the recovery path of StreamServe
	FailHandler func(remote string) bool
	WrapMetrics func(conn transport.StreamConn, rec *ConnRec) service.TCPConnMetrics
	shared      service.StreamListener
	// Svc: connections are handled by a service built with NewShadowsocksService, the way the
	// server builds its services (UseService); the metrics it asks for are the records
	Svc     service.Service
	svcRecs map[string]*ConnRec
}

// UseService makes the world handle its connections through service.NewShadowsocksService.
func (w *TCP) UseService(l *slog.Logger) {
	w.svcRecs = map[string]*ConnRec{}
	opts := []service.Option{service.WithCiphers(w.List), service.WithMetrics(&svcMetrics{w})}
	if l != nil {
		opts = append(opts, service.WithLogger(l))
	}
	if w.Cache != nil {
		opts = append(opts, service.WithReplayCache(w.Cache))
	}
	svc, err := service.NewShadowsocksService(opts...)
	if err != nil {
		panic(err)
	}
	w.Svc = svc
}

type svcMetrics struct{ w *TCP }

func (m *svcMetrics) AddOpenTCPConnection(conn net.Conn) service.TCPConnMetrics {
	if rec := m.w.svcRecs[conn.RemoteAddr().String()]; rec != nil {
		return rec
	}
	return &service.NoOpTCPConnMetrics{}
}
func (m *svcMetrics) AddCipherSearch(proto string, accessKeyFound bool, timeToCipher time.Duration) {
}
func (m *svcMetrics) AddUDPNatEntry(clientAddr net.Addr, accessKey string) service.UDPConnMetrics {
	return &service.NoOpUDPConnMetrics{}
}

// NewTCP builds the handler with the real authenticator and the default (validating) dialer.
func NewTCP(keys []*Key, replayCap int, timeout time.Duration) *TCP {
	w := &TCP{Keys: keys, Timeout: timeout}
	w.List = NewList(keys)
	if replayCap >= 0 {
		c := service.NewReplayCache(replayCap)
		w.Cache = &c
	}
	w.Auth = service.NewShadowsocksStreamAuthenticator(w.List, w.Cache, nil, nil)
	w.H = service.NewStreamHandler(w.Auth, timeout)
	return w
}

// Start binds the proxy listener and runs the real StreamServe loop on a thread.
func (w *TCP) Start() {
	ln, err := vnet.ListenTCP("tcp", TCPAddr(ProxyTCP))
	if err != nil {
		panic(err)
	}
	w.Ln = ln
	w.serve = vrt.Spawn("serve", func() {
		accept := service.WrapStreamAcceptFunc(ln.AcceptTCP)
		service.StreamServe(func() (transport.StreamConn, error) {
			c, err := accept()
			if err == nil {
				w.Accepted++
			}
			return c, err
		}, func(ctx context.Context, conn transport.StreamConn) {
			rec := &ConnRec{Remote: conn.RemoteAddr().String()}
			if tc, ok := conn.(*vnet.TCPConn); ok {
				rec.Srv = tc
			}
			w.Conns = append(w.Conns, rec)
			w.Running++
			defer func() {
				w.Running--
				w.Finished++
				rec.HandleReturnedAt = vrt.NowQuiet().Sub(vrt.Epoch)
			}()
			if w.FailHandler != nil && w.FailHandler(rec.Remote) {
				panic("injected failure while handling a connection")
			}
			if w.Svc != nil {
				w.svcRecs[rec.Remote] = rec
				w.Svc.HandleStream(ctx, conn)
				return
			}
			var m service.TCPConnMetrics = rec
			if w.WrapMetrics != nil {
				m = w.WrapMetrics(conn, rec)
			}
			w.H.Handle(ctx, conn, m)
		})
		w.ServeReturned = true
		w.RunningAtReturn = w.Running
		w.UnfinishedAtReturn = w.Accepted - w.Finished
	})
}

// StartShared is Start with the listener obtained from a service.ListenerManager (the shared
// listener with its accept goroutine sits between the socket and StreamServe, as in the server).
func (w *TCP) StartShared() {
	m := service.NewListenerManager()
	sl, err := m.ListenStream(ProxyTCP)
	if err != nil {
		panic(err)
	}
	for _, l := range vnet.W.Listeners() {
		if !l.IsClosed() && l.Owner == "srv" {
			w.Ln = l
		}
	}
	w.shared = sl
	w.serve = vrt.Spawn("serve", func() {
		service.StreamServe(func() (transport.StreamConn, error) {
			c, err := sl.AcceptStream()
			if err == nil {
				w.Accepted++
			}
			return c, err
		}, func(ctx context.Context, conn transport.StreamConn) {
			rec := &ConnRec{Remote: conn.RemoteAddr().String()}
			if tc, ok := conn.(*vnet.TCPConn); ok {
				rec.Srv = tc
			}
			w.Conns = append(w.Conns, rec)
			w.Running++
			defer func() {
				w.Running--
				w.Finished++
				rec.HandleReturnedAt = vrt.NowQuiet().Sub(vrt.Epoch)
			}()
			if w.FailHandler != nil && w.FailHandler(rec.Remote) {
				panic("injected failure while handling a connection")
			}
			var m service.TCPConnMetrics = rec
			if w.WrapMetrics != nil {
				m = w.WrapMetrics(conn, rec)
			}
			w.H.Handle(ctx, conn, m)
		})
		w.ServeReturned = true
		w.RunningAtReturn = w.Running
		w.UnfinishedAtReturn = w.Accepted - w.Finished
	})
}

// CloseListener closes the listener StreamServe accepts from.
func (w *TCP) CloseListener() {
	if w.shared != nil {
		w.shared.Close()
		return
	}
	w.Ln.Close()
}

// Stop closes the listener and waits for StreamServe to return.
func (w *TCP) Stop() {
	w.Ln.Close()
	vrt.Join(w.serve)
}

// Stop2 waits for StreamServe to return (the listener has been closed by the caller).
func (w *TCP) Stop2() { vrt.Join(w.serve) }

// Target is a scripted TCP target.
type Target struct {
	Addr     string
	Ln       *vnet.TCPListener
	Accepted []*vnet.TCPConn
	Got      [][]byte // bytes received per connection
	EOFAt    []time.Duration
	Errs     []string
}

// StartTarget binds addr and runs script for every accepted connection on a daemon thread.
func StartTarget(addr string, script func(t *Target, i int, c *vnet.TCPConn)) *Target {
	ln, err := vnet.EnvListenTCP(addr)
	if err != nil {
		panic(err)
	}
	t := &Target{Addr: addr, Ln: ln}
	vrt.SpawnDaemon("target:"+addr, func() {
		for {
			c, err := ln.AcceptTCP()
			if err != nil {
				return
			}
			i := len(t.Accepted)
			t.Accepted = append(t.Accepted, c)
			t.Got = append(t.Got, nil)
			t.EOFAt = append(t.EOFAt, -1)
			vrt.SpawnDaemon(fmt.Sprintf("target:%s#%d", addr, i), func() { script(t, i, c) })
		}
	})
	return t
}

// ReadAll reads until EOF or error, appending to t.Got[i]; returns the error (nil on EOF).
func (t *Target) ReadAll(i int, c *vnet.TCPConn) error {
	buf := make([]byte, 32*1024)
	for {
		n, err := c.Read(buf)
		t.Got[i] = append(t.Got[i], buf[:n]...)
		if err == io.EOF {
			t.EOFAt[i] = vrt.NowQuiet().Sub(vrt.Epoch)
			return nil
		}
		if err != nil {
			t.Errs = append(t.Errs, err.Error())
			return err
		}
	}
}

// ReadN reads exactly n bytes (or until error), appending to t.Got[i].
func (t *Target) ReadN(i int, c *vnet.TCPConn, n int) error {
	buf := make([]byte, n)
	m, err := io.ReadFull(c, buf)
	t.Got[i] = append(t.Got[i], buf[:m]...)
	if err != nil {
		if err == io.EOF || err == io.ErrUnexpectedEOF {
			t.EOFAt[i] = vrt.NowQuiet().Sub(vrt.Epoch)
		} else {
			t.Errs = append(t.Errs, err.Error())
		}
	}
	return err
}

// Client is a scripted TCP client.
type Client struct {
	C     *vnet.TCPConn
	Got   []byte        // wire bytes received from the proxy
	EOFAt time.Duration // when the client saw the proxy's FIN (-1: never)
	RSTAt time.Duration
	Err   string
}

func Dial(from string) *Client {
	c, err := vnet.EnvDial(TCPAddr(from), ProxyTCP)
	cl := &Client{C: c, EOFAt: -1, RSTAt: -1}
	if err != nil {
		cl.Err = err.Error()
	}
	return cl
}

// DialTo is Dial to another proxy address.
func DialTo(from, to string) *Client {
	c, err := vnet.EnvDial(TCPAddr(from), to)
	cl := &Client{C: c, EOFAt: -1, RSTAt: -1}
	if err != nil {
		cl.Err = err.Error()
	}
	return cl
}

// Send writes b in segments of at most seg bytes (seg <= 0: one write).
func (c *Client) Send(b []byte, seg int) error {
	if c.C == nil {
		return net.ErrClosed
	}
	if seg <= 0 {
		seg = len(b)
	}
	for len(b) > 0 {
		n := seg
		if n > len(b) {
			n = len(b)
		}
		if _, err := c.C.Write(b[:n]); err != nil {
			c.Err = err.Error()
			return err
		}
		b = b[n:]
	}
	return nil
}

// ReadAll collects everything the proxy sends until EOF / reset / error.
func (c *Client) ReadAll() {
	if c.C == nil {
		return
	}
	buf := make([]byte, 32*1024)
	for {
		n, err := c.C.Read(buf)
		c.Got = append(c.Got, buf[:n]...)
		if err == io.EOF {
			c.EOFAt = vrt.NowQuiet().Sub(vrt.Epoch)
			return
		}
		if err != nil {
			if c.C.GotRST() {
				c.RSTAt = vrt.NowQuiet().Sub(vrt.Epoch)
			}
			c.Err = err.Error()
			return
		}
	}
}

// ReadUntil reads until at least n wire bytes have been collected or the stream ends.
func (c *Client) ReadUntil(n int) {
	if c.C == nil {
		return
	}
	buf := make([]byte, 32*1024)
	for len(c.Got) < n {
		m, err := c.C.Read(buf)
		c.Got = append(c.Got, buf[:m]...)
		if err == io.EOF {
			c.EOFAt = vrt.NowQuiet().Sub(vrt.Epoch)
			return
		}
		if err != nil {
			if c.C.GotRST() {
				c.RSTAt = vrt.NowQuiet().Sub(vrt.Epoch)
			}
			c.Err = err.Error()
			return
		}
	}
}

var _ net.Conn = (*vnet.TCPConn)(nil)

// nil-safe wrappers: a dial may legitimately be refused (listener already closed)
func (c *Client) CloseWrite() {
	if c.C != nil {
		c.C.CloseWrite()
	}
}
func (c *Client) Close() {
	if c.C != nil {
		c.C.Close()
	}
}
func (c *Client) Sent() int64 {
	if c.C == nil {
		return 0
	}
	return c.C.BytesWritten
}
func (c *Client) Refused() bool { return c.C == nil }
