package world

import (
	"fmt"
	"net"
	"time"

	"github.com/Jigsaw-Code/outline-ss-server/service"

	"verif/rt/vnet"
	"verif/rt/vrt"
)

const ProxyUDP = "127.0.0.1:9000"

// UDPEvent is one metrics call.
type UDPEvent struct {
	Kind   string // add | remove | fromClient | fromTarget
	Client string
	Key    string
	Status string
	A, B   int64
	At     time.Duration
	Assoc  int
}

// UDPRec records UDPMetrics calls (and optionally forwards them to the real collectors).
type UDPRec struct {
	Events []UDPEvent
	nAssoc int
	Real   service.UDPMetrics
	// SlowRemove: the removal report takes this long (a slow metrics back end): the caller stays
	// between "the association has ended" and its removal from the table for that time.
	SlowRemove time.Duration
}

type udpConnRec struct {
	r      *UDPRec
	client string
	key    string
	id     int
	real   service.UDPConnMetrics
}

func (r *UDPRec) AddUDPNatEntry(clientAddr net.Addr, accessKey string) service.UDPConnMetrics {
	r.nAssoc++
	c := &udpConnRec{r: r, client: clientAddr.String(), key: accessKey, id: r.nAssoc}
	r.Events = append(r.Events, UDPEvent{Kind: "add", Client: c.client, Key: accessKey, At: vrt.NowQuiet().Sub(vrt.Epoch), Assoc: c.id})
	if r.Real != nil {
		c.real = r.Real.AddUDPNatEntry(clientAddr, accessKey)
	}
	return c
}

func (c *udpConnRec) ev(kind, status string, a, b int64) {
	c.r.Events = append(c.r.Events, UDPEvent{Kind: kind, Client: c.client, Key: c.key, Status: status, A: a, B: b, At: vrt.NowQuiet().Sub(vrt.Epoch), Assoc: c.id})
}
func (c *udpConnRec) AddPacketFromClient(status string, clientProxyBytes, proxyTargetBytes int64) {
	c.ev("fromClient", status, clientProxyBytes, proxyTargetBytes)
	if c.real != nil {
		c.real.AddPacketFromClient(status, clientProxyBytes, proxyTargetBytes)
	}
}
func (c *udpConnRec) AddPacketFromTarget(status string, targetProxyBytes, proxyClientBytes int64) {
	c.ev("fromTarget", status, targetProxyBytes, proxyClientBytes)
	if c.real != nil {
		c.real.AddPacketFromTarget(status, targetProxyBytes, proxyClientBytes)
	}
}
func (c *udpConnRec) RemoveNatEntry() {
	c.ev("remove", "", 0, 0)
	if c.r.SlowRemove > 0 && vrt.Active() {
		vrt.Sleep(c.r.SlowRemove)
	}
	if c.real != nil {
		c.real.RemoveNatEntry()
	}
}

// UDP is a UDP handler world: the real packetHandler.Handle loop on a vnet socket.
type UDP struct {
	Keys     []*Key
	List     service.CipherList
	H        service.PacketHandler
	PC       net.PacketConn
	Rec      *UDPRec
	handle   *vrt.Thread
	Returned bool
	socks    map[string]*vnet.UDPConn
	extraPC  []net.PacketConn
	// ViaManager: the proxy sockets are handles obtained from a service.ListenerManager (as in the
	// server) instead of plain sockets.
	ViaManager bool
	mgr        service.ListenerManager
	// Addr: the proxy address (default ProxyUDP); "[::]:9000" gives a dual-stack socket that
	// serves IPv4 and IPv6 clients
	Addr string
	// KeepOther (with ViaManager): a second handle on the proxy address is held open by somebody
	// else (the next generation of a reload), so closing the handler's handle does not close the socket
	KeepOther bool
	other     net.PacketConn
	extraTh   []*vrt.Thread
	// Svc: datagrams are handled by a service built with NewShadowsocksService and its defaults
	// (UseService), the way embedders build it
	Svc service.Service
}

// UseService: the handler is the one inside service.NewShadowsocksService(ciphers, metrics) with
// no NAT timeout given (the documented default of 5 minutes applies).
func (w *UDP) UseService() {
	svc, err := service.NewShadowsocksService(service.WithCiphers(w.List), service.WithMetrics(&udpSvcMetrics{w.Rec}))
	if err != nil {
		panic(err)
	}
	w.Svc = svc
}

func (w *UDP) handlePacket(pc net.PacketConn) {
	if w.Svc != nil {
		w.Svc.HandlePacket(pc)
		return
	}
	w.H.Handle(pc)
}

type udpSvcMetrics struct{ rec *UDPRec }

func (m *udpSvcMetrics) AddUDPNatEntry(clientAddr net.Addr, accessKey string) service.UDPConnMetrics {
	return m.rec.AddUDPNatEntry(clientAddr, accessKey)
}
func (m *udpSvcMetrics) AddOpenTCPConnection(conn net.Conn) service.TCPConnMetrics {
	return &service.NoOpTCPConnMetrics{}
}
func (m *udpSvcMetrics) AddCipherSearch(proto string, accessKeyFound bool, timeToCipher time.Duration) {
}

func NewUDP(keys []*Key, natTimeout time.Duration, real service.UDPMetrics) *UDP {
	w := &UDP{Keys: keys, Rec: &UDPRec{Real: real}, socks: map[string]*vnet.UDPConn{}}
	w.List = NewList(keys)
	w.H = service.NewPacketHandler(natTimeout, w.List, w.Rec, nil)
	return w
}

// Start binds the proxy socket (as the system under test) and runs Handle on a thread.
func (w *UDP) Start() {
	var pc net.PacketConn
	var err error
	if w.ViaManager {
		// the way the server obtains its sockets: a handle on the listener manager's shared socket
		w.mgr = service.NewListenerManager()
		pc, err = w.mgr.ListenPacket(w.addr())
	} else {
		pc, err = vnet.ListenPacket("udp", w.addr())
	}
	if err != nil {
		panic(err)
	}
	w.PC = pc
	if w.ViaManager && w.KeepOther {
		if w.other, err = w.mgr.ListenPacket(w.addr()); err != nil {
			panic(err)
		}
	}
	w.handle = vrt.Spawn("udp-handle", func() {
		w.handlePacket(pc)
		w.Returned = true
	})
}

// StartExtra binds one more proxy socket served by the SAME packet handler (a service with
// several UDP listeners): a second Handle loop on a second thread.
func (w *UDP) StartExtra(addr string) {
	var pc net.PacketConn
	var err error
	if w.ViaManager {
		pc, err = w.mgr.ListenPacket(addr)
	} else {
		pc, err = vnet.ListenPacket("udp", addr)
	}
	if err != nil {
		panic(err)
	}
	w.extraPC = append(w.extraPC, pc)
	w.extraTh = append(w.extraTh, vrt.Spawn("udp-handle-"+addr, func() { w.handlePacket(pc) }))
}

// Stop closes the proxy socket(s) and waits for Handle to return.
func (w *UDP) Stop() {
	w.PC.Close()
	for _, pc := range w.extraPC {
		pc.Close()
	}
	vrt.Join(w.handle)
	vrt.Join(w.extraTh...)
}

// StopListener closes only listener i (0: the first one) and waits for its Handle loop.
func (w *UDP) StopListener(i int) {
	if i == 0 {
		w.PC.Close()
		vrt.Join(w.handle)
		return
	}
	w.extraPC[i-1].Close()
	vrt.Join(w.extraTh[i-1])
}

func (w *UDP) addr() string {
	if w.Addr != "" {
		return w.Addr
	}
	return ProxyUDP
}

// CloseOther releases the second handle (KeepOther).
func (w *UDP) CloseOther() {
	if w.other != nil {
		w.other.Close()
		w.other = nil
	}
}

// Sock returns (binding on first use) the environment socket at addr.
func (w *UDP) Sock(addr string) *vnet.UDPConn {
	if s, ok := w.socks[addr]; ok {
		return s
	}
	s, err := vnet.EnvListenUDP(UDPAddr(addr))
	if err != nil {
		panic(fmt.Sprintf("env bind %s: %v", addr, err))
	}
	w.socks[addr] = s
	return s
}

func (w *UDP) Socks() map[string]*vnet.UDPConn { return w.socks }
