// Package c20: metrics never expose client addresses and label locations by class.
//
//	loc-table (E) GetIPInfoFromAddr / GetIPInfoFromIP over client addresses (IPv4 and IPv6 of
//	          every class, mapped, zoned, names, no port, empty, nil) x database behaviours
//	          (disabled, hit, hit without country, error) with a recording fake database,
//	          against the decision table of the statement.
//	exposure  (Q) all sequences to depth d over traffic operations issued from distinctive
//	          client addresses through the real collectors; after every operation the registry
//	          is gathered, written in the text exposition format and scanned for address
//	          material in names, label names, label values and sample values.
//	exposure-flows (E) every class of TCP connection (served, probes ending by EOF, timeout and
//	          client reset, replays, refused / failing relays) x cipher through the real stream
//	          handler on vnet into the real collectors; the same scan, plus the clients' ports
//	          in label values.
package c20

import (
	"encoding/json"
	"errors"
	"fmt"
	"net"
	"sort"
	"strconv"
	"strings"
	"time"

	"github.com/Jigsaw-Code/outline-ss-server/ipinfo"
	outline_prometheus "github.com/Jigsaw-Code/outline-ss-server/prometheus"
	"github.com/Jigsaw-Code/outline-ss-server/service"
	"github.com/Jigsaw-Code/outline-ss-server/service/metrics"
	"github.com/prometheus/client_golang/prometheus"

	"verif/engine"
	"verif/harness/hk"
	"verif/harness/promx"
	"verif/harness/tcpx"
	"verif/rt/vrt"
)

type recDB struct {
	mode  string // hit | nocountry | error
	calls []string
}

func (d *recDB) GetIPInfo(ip net.IP) (ipinfo.IPInfo, error) {
	d.calls = append(d.calls, ip.String())
	switch d.mode {
	case "hit":
		return ipinfo.IPInfo{CountryCode: "BR", ASN: ipinfo.ASN{Number: 64512, Organization: "Org"}}, nil
	case "nocountry":
		return ipinfo.IPInfo{ASN: ipinfo.ASN{Number: 64512, Organization: "Org"}}, nil
	case "error-partial":
		// a database error together with a partly filled answer (one of two databases failed)
		return ipinfo.IPInfo{CountryCode: "BR"}, errors.New("asn db failure")
	}
	return ipinfo.IPInfo{}, errors.New("db failure")
}

type strAddr string

func (s strAddr) Network() string { return "tcp" }
func (s strAddr) String() string  { return string(s) }

type locCase struct {
	Addr string `json:"addr"` // textual form of the net.Addr ("<nil>" for nil)
	Kind string `json:"kind"` // tcp | udp | str | nil
	DB   string `json:"db"`   // disabled | hit | nocountry | error
	Via  string `json:"via"`  // addr | ip
}

// class of the address by the statement: "unparsable", "nonglobal", "global", "zoned" (either XA or XL)
func classOf(host string) string {
	if i := strings.Index(host, "%"); i >= 0 {
		if ip := net.ParseIP(host[:i]); ip != nil {
			return "zoned"
		}
		return "unparsable"
	}
	ip := net.ParseIP(host)
	if ip == nil {
		return "unparsable"
	}
	if ip4 := ip.To4(); ip4 != nil {
		switch {
		case ip4[0] == 0 && ip4[1] == 0 && ip4[2] == 0 && ip4[3] == 0, ip4[0] == 127, ip4[0] == 169 && ip4[1] == 254, ip4[0] >= 224 && ip4[0] <= 239,
			ip4[0] == 255 && ip4[1] == 255 && ip4[2] == 255 && ip4[3] == 255:
			return "nonglobal"
		}
		return "global"
	}
	zero := true
	for _, b := range ip[:15] {
		if b != 0 {
			zero = false
		}
	}
	switch {
	case zero && (ip[15] == 0 || ip[15] == 1), ip[0] == 0xfe && ip[1]&0xc0 == 0x80, ip[0] == 0xff:
		return "nonglobal"
	}
	return "global"
}

func runLoc(ctx *engine.Ctx, lc locCase) {
	var db *recDB
	var m ipinfo.IPInfoMap
	if lc.DB != "disabled" {
		db = &recDB{mode: lc.DB}
		m = db
	}
	var info ipinfo.IPInfo
	host := ""
	parsable := true
	switch lc.Via {
	case "addr":
		var a net.Addr
		switch lc.Kind {
		case "nil":
			a = nil
			parsable = false
		case "str":
			a = strAddr(lc.Addr)
		case "tcp":
			ta, err := net.ResolveTCPAddr("tcp", lc.Addr)
			if err != nil {
				panic(err)
			}
			a = ta
		case "udp":
			ua, err := net.ResolveUDPAddr("udp", lc.Addr)
			if err != nil {
				panic(err)
			}
			a = ua
		}
		if a != nil {
			h, _, err := net.SplitHostPort(a.String())
			if err != nil {
				parsable = false
			}
			host = h
		}
		info, _ = ipinfo.GetIPInfoFromAddr(m, a)
	case "ip":
		host = lc.Addr
		info, _ = ipinfo.GetIPInfoFromIP(m, net.ParseIP(lc.Addr))
	}
	cls := "unparsable"
	if parsable {
		cls = classOf(host)
	}
	got := info.CountryCode.String()
	want, consult := wantFor(cls, lc)
	ok := false
	for _, w := range want {
		if got == w {
			ok = true
		}
	}
	if !ok {
		ctx.Fail("loc-table", "location-label{"+cls+","+lc.DB+"->"+got+"}", fmt.Sprintf("address %q (%s, db %s, via %s) got location %q, want one of %q", lc.Addr, cls, lc.DB, lc.Via, got, want), lc, nil)
	}
	if db != nil {
		if !consult && len(db.calls) > 0 {
			ctx.Fail("loc-table", "database-consulted{"+cls+"}", fmt.Sprintf("address %q (%s): the database was consulted (%v) although the class alone decides the label", lc.Addr, cls, db.calls), lc, nil)
		}
		if consult && len(db.calls) != 1 {
			ctx.Fail("loc-table", "database-calls", fmt.Sprintf("address %q: %d database lookups", lc.Addr, len(db.calls)), lc, nil)
		}
	}
	ctx.Record("loc-table", "E", fmt.Sprint(lc, got), true, 1, 1)
}

// wantFor: the location labels the statement allows for an address of class cls, and whether the
// database is to be consulted for it.
func wantFor(cls string, lc locCase) (want []string, consult bool) {
	switch {
	case cls == "unparsable" && lc.Via == "ip" && lc.DB == "disabled":
		want = []string{"XA", ""} // a nil IP with lookup disabled: the statement's two first rules both apply
	case cls == "unparsable":
		want = []string{"XA"}
	case cls == "zoned" && lc.DB == "disabled":
		want = []string{"XA", "XL", ""}
	case cls == "zoned":
		want = []string{"XA", "XL"}
	case lc.DB == "disabled":
		want = []string{""}
	case cls == "nonglobal":
		want = []string{"XL"}
	case lc.DB == "error", lc.DB == "error-partial":
		want, consult = []string{"XD"}, true
	case lc.DB == "nocountry":
		want, consult = []string{"ZZ"}, true
	default:
		want, consult = []string{"BR"}, true
	}
	return want, consult
}

// runLocCollectors: the same table, observed where a user sees it: the address is the remote
// address of a TCP connection / the client address of a UDP association fed to the real
// collectors, and the location label of every gathered sample that has one must be the label of
// the address's class.
func sortedKeys(m map[string]bool) []string {
	var out []string
	for k := range m {
		out = append(out, k)
	}
	sort.Strings(out)
	return out
}

func runLocCollectors(ctx *engine.Ctx, lc locCase) {
	vrt.SetPassNow(vrt.Epoch)
	var db *recDB
	var m ipinfo.IPInfoMap
	if lc.DB != "disabled" {
		db = &recDB{mode: lc.DB}
		m = db
	}
	var a net.Addr
	switch lc.Kind {
	case "str":
		a = strAddr(lc.Addr)
	case "tcp":
		ta, err := net.ResolveTCPAddr("tcp", lc.Addr)
		if err != nil {
			panic(err)
		}
		a = ta
	case "udp":
		ua, err := net.ResolveUDPAddr("udp", lc.Addr)
		if err != nil {
			panic(err)
		}
		a = ua
	default:
		return
	}
	cls := "unparsable"
	if h, _, err := net.SplitHostPort(a.String()); err == nil {
		cls = classOf(h)
	}
	want, consult := wantFor(cls, lc)
	// the labels each kind of flow gave this address (a set: connection and tunnel-time metrics may
	// class a zoned address differently, XA / XL, but TCP and UDP flows must agree with each other)
	first := map[string]map[string]bool{"tcp": {}, "udp": {}}
	defer func() {
		t, u := fmt.Sprint(sortedKeys(first["tcp"])), fmt.Sprint(sortedKeys(first["udp"]))
		if len(first["tcp"]) > 0 && len(first["udp"]) > 0 && t != u {
			ctx.Fail("loc-collectors", "location-differs-by-protocol{"+cls+","+lc.DB+"}", fmt.Sprintf("client address %q (%s, db %s): location labels %s as the client of a TCP connection, %s as the client of a UDP association", lc.Addr, cls, lc.DB, t, u), lc, nil)
		}
	}()
	for _, proto := range []string{"tcp", "udp"} {
		if db != nil {
			db.calls = nil
		}
		smx, err := outline_prometheus.NewServiceMetrics(m)
		if err != nil {
			panic(err)
		}
		data := metrics.ProxyMetrics{ClientProxy: 10, ProxyTarget: 5, TargetProxy: 7, ProxyClient: 12}
		// the client of a TCP connection is reported as a *net.TCPAddr, that of a UDP association as
		// a *net.UDPAddr (as the sockets do)
		flowAddr := a
		switch v := a.(type) {
		case *net.UDPAddr:
			if proto == "tcp" {
				flowAddr = &net.TCPAddr{IP: v.IP, Port: v.Port, Zone: v.Zone}
			}
		case *net.TCPAddr:
			if proto == "udp" {
				flowAddr = &net.UDPAddr{IP: v.IP, Port: v.Port, Zone: v.Zone}
			}
		}
		if proto == "tcp" {
			cm := smx.AddOpenTCPConnection(memConn{flowAddr})
			cm.AddAuthenticated("key-1")
			vrt.Advance(time.Second)
			cm.AddClosed("OK", data, time.Second)
		} else {
			um := smx.AddUDPNatEntry(flowAddr, "key-1")
			um.AddPacketFromClient("OK", 100, 60)
			um.AddPacketFromTarget("OK", 80, 120)
			vrt.Advance(2 * time.Second)
			um.RemoveNatEntry()
		}
		samples, _, err := promx.Gather(smx)
		if err != nil {
			ctx.Fail("loc-collectors", "gather-error", err.Error(), lc, nil)
			return
		}
		labelled := 0
		for _, s := range samples {
			got, has := s.Labels["location"]
			if !has {
				continue
			}
			labelled++
			first[proto][got] = true
			ok := false
			for _, w := range want {
				if got == w {
					ok = true
				}
			}
			if !ok {
				ctx.Fail("loc-collectors", "metric-location-label{"+proto+","+cls+","+lc.DB+"->"+got+"}", fmt.Sprintf("client address %q (%s, db %s) of a %s flow: metric %s has location %q, want one of %q", lc.Addr, cls, lc.DB, proto, s.Name, got, want), lc, nil)
				break
			}
		}
		if labelled == 0 {
			ctx.Fail("loc-collectors", "no-location-sample{"+proto+"}", fmt.Sprintf("client address %q: no gathered sample carries a location label after a %s flow", lc.Addr, proto), lc, nil)
		}
		if db != nil && !consult && len(db.calls) > 0 {
			ctx.Fail("loc-collectors", "database-consulted{"+cls+"}", fmt.Sprintf("client address %q (%s) of a %s flow: the database was consulted (%v) although the class alone decides the label", lc.Addr, cls, proto, db.calls), lc, nil)
		}
		ctx.Record("loc-collectors", "E", fmt.Sprint(lc, proto, labelled), true, 1, 1)
	}
}

func locCases() []locCase {
	var out []locCase
	hosts := []string{"93.184.216.34", "8.8.8.8", "10.0.0.1", "192.168.1.1", "100.64.0.1", "127.0.0.1", "127.8.9.10", "0.0.0.0", "169.254.1.1", "224.0.0.1", "239.1.2.3", "255.255.255.255",
		"2606:4700::1111", "2001:db8::1", "fd00::1", "::1", "::", "fe80::1", "febf::ffff", "ff02::1", "ff0e::1", "::ffff:93.184.216.34", "::ffff:127.0.0.1", "::ffff:10.0.0.1"}
	dbs := []string{"disabled", "hit", "nocountry", "error", "error-partial"}
	for _, db := range dbs {
		for _, h := range hosts {
			hp := net.JoinHostPort(h, "4242")
			out = append(out, locCase{hp, "tcp", db, "addr"}, locCase{hp, "udp", db, "addr"}, locCase{hp, "str", db, "addr"}, locCase{h, "ip", db, "ip"})
		}
		for _, z := range []string{"[fe80::1%eth0]:4242", "[fe80::dead:beef%a-very-long-zone-name]:1"} {
			out = append(out, locCase{z, "udp", db, "addr"}, locCase{z, "str", db, "addr"})
		}
		for _, bad := range []string{"client.example:4242", "93.184.216.34", "", ":4242", "[::1", "93.184.216.34:80:90", "300.1.2.3:80", "pipe",
			// shapes that only a strict host:port split refuses
			"2001:db8::1:443", "[8.8.8.8:53", "8.8.8.8]:53", "[2001:db8::1:443", "2001:db8::1]:443", "[[2001:db8::1]]:443", "[8.8.8.8]]:53", "8.8.8.8:53:", "[2606:4700::1111]443", "8.8.8.8:"} {
			out = append(out, locCase{bad, "str", db, "addr"})
		}
		out = append(out, locCase{"<nil>", "nil", db, "addr"}, locCase{"not-an-ip", "ip", db, "ip"})
	}
	return out
}

// ---- exposure ----

var clientAddrs = []net.Addr{
	&net.TCPAddr{IP: net.ParseIP("203.0.113.77").To4(), Port: 54321},
	&net.TCPAddr{IP: net.ParseIP("2001:db8::dead:beef"), Port: 42424},
	&net.TCPAddr{IP: net.ParseIP("203.0.113.77").To16(), Port: 54321}, // 16-byte (mapped) form
	&net.UDPAddr{IP: net.ParseIP("fe80::dead:beef"), Port: 42424, Zone: "eth0"},
	strAddr("client-host.example:54321"),
}

// address material that must never appear in an exposition
var needles = []string{"203.0.113.77", "54321", "42424", "dead:beef", "deadbeef", "2001:db8", "cb00714d", "3405803853", "client-host", "203.0.113", "fe80", "eth0"}

var allowedLabels = map[string]bool{"access_key": true, "location": true, "asn": true, "asorg": true, "status": true, "dir": true, "proto": true, "port": true, "error": true, "found_key": true, "version": true, "le": true}

type memConn struct {
	remote net.Addr
}

func (c memConn) Read([]byte) (int, error)         { return 0, nil }
func (c memConn) Write(b []byte) (int, error)      { return len(b), nil }
func (c memConn) Close() error                     { return nil }
func (c memConn) LocalAddr() net.Addr              { return &net.TCPAddr{IP: net.IPv4(192, 0, 2, 1), Port: 9000} }
func (c memConn) RemoteAddr() net.Addr             { return c.remote }
func (c memConn) SetDeadline(time.Time) error      { return nil }
func (c memConn) SetReadDeadline(time.Time) error  { return nil }
func (c memConn) SetWriteDeadline(time.Time) error { return nil }

type expCase struct {
	DB  string `json:"db"`
	Ops []int  `json:"ops"` // op = kind*len(clientAddrs) + addr
}

const nKinds = 7

func apply(sm service.ServiceMetrics, kind, ai int) {
	a := clientAddrs[ai]
	data := metrics.ProxyMetrics{ClientProxy: 10, ProxyTarget: 5, TargetProxy: 7, ProxyClient: 12}
	switch kind {
	case 0: // TCP ok
		cm := sm.AddOpenTCPConnection(memConn{a})
		cm.AddAuthenticated("key-1")
		vrt.Advance(time.Second)
		cm.AddClosed("OK", data, time.Second)
	case 1: // probe
		cm := sm.AddOpenTCPConnection(memConn{a})
		cm.AddProbe("ERR_CIPHER", "timeout", 50)
		cm.AddClosed("ERR_CIPHER", metrics.ProxyMetrics{ClientProxy: 50}, 59*time.Second)
	case 2: // replay / bad address / connect failure: authenticated then failed
		cm := sm.AddOpenTCPConnection(memConn{a})
		cm.AddAuthenticated("key-2")
		cm.AddClosed("ERR_CONNECT", metrics.ProxyMetrics{ClientProxy: 70}, time.Millisecond)
	case 3: // UDP association with traffic
		if _, isStr := a.(strAddr); isStr {
			return
		}
		um := sm.AddUDPNatEntry(a, "key-1")
		um.AddPacketFromClient("OK", 100, 60)
		um.AddPacketFromTarget("OK", 80, 120)
		vrt.Advance(2 * time.Second)
		um.RemoveNatEntry()
	case 4: // UDP rejected packet on an association that stays open
		if _, isStr := a.(strAddr); isStr {
			return
		}
		um := sm.AddUDPNatEntry(a, "key-2")
		um.AddPacketFromClient("ERR_ADDRESS_PRIVATE", 100, 0)
	case 5: // open tunnel that stays open across the scrape
		cm := sm.AddOpenTCPConnection(memConn{a})
		cm.AddAuthenticated("key-3")
		vrt.Advance(time.Second)
	case 6:
		sm.AddCipherSearch("tcp", ai%2 == 0, 3*time.Millisecond)
		sm.AddCipherSearch("udp", ai%2 == 1, 4*time.Millisecond)
	}
}

func scan(sm prometheus.Collector) (string, string) {
	samples, _, err := promx.Gather(sm)
	if err != nil {
		return "gather-error", err.Error()
	}
	for _, m := range samples {
		for k, v := range m.Labels {
			if !allowedLabels[k] {
				return "unknown-label{" + k + "}", fmt.Sprintf("metric %s has label %q (value %q)", m.Name, k, v)
			}
		}
		for _, v := range []float64{m.Value, m.Sum} {
			if v == 54321 || v == 42424 {
				return "port-as-value", fmt.Sprintf("metric %s has a sample equal to a client port (%v)", m.Name, v)
			}
		}
	}
	text := strings.ToLower(promx.Text(samples))
	for _, n := range needles {
		if i := strings.Index(text, n); i >= 0 {
			lo, hi := i-80, i+40
			if lo < 0 {
				lo = 0
			}
			if hi > len(text) {
				hi = len(text)
			}
			return "address-exposed{" + n + "}", "the exposition contains client address material " + strconv.Quote(n) + ": …" + text[lo:hi] + "…"
		}
	}
	return "", ""
}

func runExp(ctx *engine.Ctx, ec expCase) {
	vrt.SetPassNow(vrt.Epoch)
	var m ipinfo.IPInfoMap
	if ec.DB != "disabled" {
		m = &recDB{mode: ec.DB}
	}
	smx, err := outline_prometheus.NewServiceMetrics(m)
	if err != nil {
		panic(err)
	}
	for i, op := range ec.Ops {
		apply(smx, op/len(clientAddrs), op%len(clientAddrs))
		if sig, msg := scan(smx); sig != "" {
			ctx.Fail("exposure", sig, fmt.Sprintf("after operation %d: %s case=%+v", i, msg, ec), ec, nil)
			return
		}
	}
	ctx.Record("exposure", "Q", fmt.Sprint(ec), true, int64(len(ec.Ops)), int64(len(ec.Ops)))
}

// ---- exposure through the real handler ----

// flowSpecs: every class of TCP connection the handler distinguishes (served, probes that end by
// EOF, by timeout and by a reset from the client, replays, bad and private destinations, refused
// and failing relays), per cipher, through the real stream handler into the real collectors.
func flowSpecs() []tcpx.Spec {
	var out []tcpx.Spec
	for c := 0; c < 4; c++ {
		for _, cl := range []string{"ok", "cipher", "cipher-rst", "empty", "bad-addr", "private", "refused", "relay-client", "relay-target", "client-abort", "target-abort", "stall"} {
			out = append(out, tcpx.Spec{RealMetrics: true, Conns: []tcpx.ConnSpec{{Class: cl, Cipher: c, Up: 10, Down: 10}}})
		}
		out = append(out, tcpx.Spec{RealMetrics: true, Cache: 10, Conns: []tcpx.ConnSpec{{Class: "ok", Cipher: c, Up: 10, Down: 10}, {Class: "replay-client", Cipher: c, Up: 10, Down: 10}, {Class: "cipher-rst", Cipher: c, Var: 3}}})
		out = append(out, tcpx.Spec{RealMetrics: true, Conns: []tcpx.ConnSpec{{Class: "ok", Cipher: c, Up: 10, Down: 100}, {Class: "replay-server", Cipher: c}}})
	}
	return out
}

func flowScenario(s tcpx.Spec) *engine.Scenario {
	o := &tcpx.Obs{}
	body := tcpx.Build(s, o, func() service.ServiceMetrics {
		m, err := outline_prometheus.NewServiceMetrics(&recDB{mode: "hit"})
		if err != nil {
			panic(err)
		}
		return m
	})
	sc := &engine.Scenario{Name: "exposure-flows" + s.String(), Body: body, Opt: vrt.Options{Horizon: 24 * time.Hour}}
	sc.Check = func(x *vrt.Exec) (string, bool, []*engine.Finding) {
		fs := hk.Generic(x, hk.Opts{})
		if len(fs) > 0 || o.Metrics == nil {
			return "generic", true, fs
		}
		smx := o.Metrics.(prometheus.Collector)
		if sig, msg := scan(smx); sig != "" {
			fs = append(fs, &engine.Finding{Sig: sig, Msg: msg + " spec=" + s.String()})
			return sig, true, fs
		}
		samples, _, _ := promx.Gather(smx)
		obs := ""
		for _, co := range o.Conns {
			if co == nil || co.Rec == nil {
				continue
			}
			_, port, _ := net.SplitHostPort(co.Rec.Remote)
			obs += co.Rec.Status() + ";"
			for _, m := range samples {
				for k, v := range m.Labels {
					if k != "le" && port != "" && strings.Contains(v, port) {
						fs = append(fs, &engine.Finding{Sig: "address-exposed{port}", Msg: fmt.Sprintf("metric %s label %s=%q contains the port of client %s spec=%s", m.Name, k, v, co.Rec.Remote, s.String())})
						return obs, true, fs
					}
				}
			}
		}
		return obs + fmt.Sprint(len(samples)), true, fs
	}
	return sc
}

func init() {
	hk.Register("C20", func(ctx *engine.Ctx) {
		mmdbAdapter(ctx)
		for i, s := range flowSpecs() {
			if ctx.Mine(int64(i)) {
				ctx.RunCase("exposure-flows", "E", flowScenario(s), s, nil)
			}
		}
		for i, lc := range locCases() {
			if ctx.Mine(int64(i)) {
				lc := lc
				hk.Guard(ctx, "loc-table", lc, func() { runLoc(ctx, lc) })
				if i == 0 {
					ctx.Res.Sample(map[string]any{"unit": "loc-table", "case": lc})
				}
			}
		}
		for i, lc := range locCases() {
			if lc.Via == "addr" && lc.Kind != "nil" && ctx.Mine(int64(i)) {
				lc := lc
				hk.Guard(ctx, "loc-collectors", lc, func() { runLocCollectors(ctx, lc) })
			}
		}
		depth := 2
		if ctx.Tier == "thorough" {
			depth = 3
		}
		alpha := int64(nKinds * len(clientAddrs))
		total := int64(1)
		for i := 0; i < depth; i++ {
			total *= alpha
		}
		var idx int64
		for _, db := range []string{"disabled", "hit", "error"} {
			for code := int64(0); code < total; code++ {
				idx++
				if !ctx.Mine(idx) {
					continue
				}
				if ctx.Expired() {
					ctx.Incomplete("exposure", "exposure: time cap hit at sequence %d of %d", code, total)
					return
				}
				ops := make([]int, depth)
				c := code
				for i := 0; i < depth; i++ {
					ops[i] = int(c % alpha)
					c /= alpha
				}
				ec := expCase{DB: db, Ops: ops}
				hk.Guard(ctx, "exposure", ec, func() { runExp(ctx, ec) })
				if code == 0 {
					ctx.Res.Sample(map[string]any{"unit": "exposure", "case": ec})
				}
			}
		}
		ctx.Res.Note("exposure: all %d^%d sequences x 3 database modes, exposition scanned after every operation", alpha, depth)
	})
	hk.Replayers["C20"] = func(ctx *engine.Ctx, rp engine.Replay) []*engine.Finding {
		sub := &engine.Ctx{Res: engine.NewResult("C20", ctx.Tier)}
		if rp.Unit == "exposure-flows" {
			var s tcpx.Spec
			if err := json.Unmarshal(rp.Input, &s); err != nil {
				return []*engine.Finding{{Sig: "BROKEN:bad-input", Msg: err.Error()}}
			}
			rp.Choices = nil
			return engine.ReplayCase("exposure-flows", flowScenario(s), rp)
		}
		if rp.Unit == "mmdb-adapter" {
			replayMMDB(sub, rp.Input)
			return sub.Res.Findings
		}
		if rp.Unit == "loc-table" {
			var lc locCase
			json.Unmarshal(rp.Input, &lc)
			hk.Guard(sub, "loc-table", lc, func() { runLoc(sub, lc) })
		} else if rp.Unit == "loc-collectors" {
			var lc locCase
			json.Unmarshal(rp.Input, &lc)
			hk.Guard(sub, "loc-collectors", lc, func() { runLocCollectors(sub, lc) })
		} else {
			var ec expCase
			json.Unmarshal(rp.Input, &ec)
			hk.Guard(sub, "exposure", ec, func() { runExp(sub, ec) })
		}
		return sub.Res.Findings
	}
}
