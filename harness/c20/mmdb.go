package c20

import (
	"encoding/binary"
	"encoding/json"
	"fmt"
	"net"
	"os"
	"path/filepath"

	"github.com/Jigsaw-Code/outline-ss-server/ipinfo"

	"verif/engine"
	"verif/harness/hk"
)

// mmdb-adapter (E): the real database adapter (ipinfo.NewMMDBIPInfoMap) on small MaxMind DB files
// written by the harness: "the database's answer" is the country of the record (not the
// registered country), ZZ when the record has no country, XD when the lookup fails (an IPv6 client
// against an IPv4-only database), and the AS number and organisation as recorded.

// ---- a minimal MaxMind DB writer (format 2.0): one search-tree node, two records ----

func mmCtrl(typ, size int) []byte {
	var out []byte
	first := byte(0)
	if typ <= 7 {
		first = byte(typ) << 5
	}
	switch {
	case size < 29:
		out = []byte{first | byte(size)}
	case size < 285:
		out = []byte{first | 29, byte(size - 29)}
	default:
		out = []byte{first | 30, byte((size - 285) >> 8), byte(size - 285)}
	}
	if typ > 7 {
		out = append(out[:1], append([]byte{byte(typ - 7)}, out[1:]...)...)
	}
	return out
}

func mmStr(s string) []byte { return append(mmCtrl(2, len(s)), s...) }

func mmUint(typ int, v uint64) []byte {
	var b [8]byte
	binary.BigEndian.PutUint64(b[:], v)
	i := 0
	for i < 8 && b[i] == 0 {
		i++
	}
	return append(mmCtrl(typ, 8-i), b[i:]...)
}

// mmMap: key, value, key, value, ... (already encoded values)
func mmMap(kv ...[]byte) []byte {
	out := mmCtrl(7, len(kv)/2)
	for _, x := range kv {
		out = append(out, x...)
	}
	return out
}

// mmBuild: addresses whose first bit is 0 get recLeft, the others recRight (nil: no record).
func mmBuild(dbType string, ipVersion int, recLeft, recRight []byte) []byte {
	const nodeCount = 1
	var data []byte
	ptr := func(rec []byte) uint32 {
		if rec == nil {
			return nodeCount
		}
		p := uint32(nodeCount + 16 + len(data))
		data = append(data, rec...)
		return p
	}
	l, r := ptr(recLeft), ptr(recRight)
	tree := []byte{byte(l >> 16), byte(l >> 8), byte(l), byte(r >> 16), byte(r >> 8), byte(r)}
	out := append(tree, make([]byte, 16)...)
	out = append(out, data...)
	out = append(out, "\xab\xcd\xefMaxMind.com"...)
	meta := mmMap(
		mmStr("binary_format_major_version"), mmUint(5, 2),
		mmStr("binary_format_minor_version"), mmUint(5, 0),
		mmStr("build_epoch"), mmUint(9, 1700000000),
		mmStr("database_type"), mmStr(dbType),
		mmStr("description"), mmMap(mmStr("en"), mmStr("verif test database")),
		mmStr("ip_version"), mmUint(5, uint64(ipVersion)),
		mmStr("languages"), append(mmCtrl(11, 1), mmStr("en")...),
		mmStr("node_count"), mmUint(6, nodeCount),
		mmStr("record_size"), mmUint(5, 24),
	)
	return append(out, meta...)
}

func countryRec(country, registered string) []byte {
	var kv [][]byte
	if country != "" {
		kv = append(kv, mmStr("country"), mmMap(mmStr("iso_code"), mmStr(country)))
	}
	if registered != "" {
		kv = append(kv, mmStr("registered_country"), mmMap(mmStr("iso_code"), mmStr(registered)))
	}
	return mmMap(kv...)
}

func asnRec(n uint64, org string) []byte {
	return mmMap(mmStr("autonomous_system_number"), mmUint(6, n), mmStr("autonomous_system_organization"), mmStr(org))
}

type mmdbCase struct {
	Name       string `json:"name"`
	CountryV   int    `json:"country_db_ip_version"` // 0: no country database
	Country    string `json:"country"`
	Registered string `json:"registered_country"`
	ASNV       int    `json:"asn_db_ip_version"` // 0: no ASN database
	Client     string `json:"client"`
	Want       string `json:"want_location"`
	WantASN    int    `json:"want_asn"`
}

func mmdbCases() []mmdbCase {
	v4, v6 := "93.184.216.34:4242", "[2606:4700::1111]:4242"
	return []mmdbCase{
		{"country-and-registered-differ", 6, "FR", "US", 6, v4, "FR", 64500},
		{"country-and-registered-differ-v6-client", 6, "FR", "US", 6, v6, "FR", 64500},
		{"country-only", 6, "DE", "", 0, v4, "DE", 0},
		{"registered-country-only", 6, "", "US", 6, v4, "ZZ", 64500},
		{"empty-record", 6, "", "", 0, v6, "ZZ", 0},
		{"v4-only-country-db-v4-client", 4, "FR", "US", 6, v4, "FR", 64500},
		{"v4-only-country-db-v6-client", 4, "FR", "", 6, v6, "XD", 64500},
		{"v4-only-country-db-v6-client-no-asn-db", 4, "FR", "", 0, v6, "XD", 0},
		{"v4-only-asn-db-v6-client", 6, "FR", "US", 4, v6, "XD", 0},
		{"asn-only", 0, "", "", 6, v4, "ZZ", 64500},
		{"non-global-client", 6, "FR", "US", 6, "127.0.0.1:80", "XL", 0},
		{"private-but-global-unicast-client", 6, "FR", "US", 6, "10.1.2.3:80", "FR", 64500},
	}
}

func runMMDB(ctx *engine.Ctx, mc mmdbCase) {
	dir, err := os.MkdirTemp("", "verif-mmdb-")
	if err != nil {
		panic(err)
	}
	defer os.RemoveAll(dir)
	cpath, apath := "", ""
	if mc.CountryV != 0 {
		cpath = filepath.Join(dir, "country.mmdb")
		rec := countryRec(mc.Country, mc.Registered)
		os.WriteFile(cpath, mmBuild("GeoLite2-Country", mc.CountryV, rec, rec), 0o644)
	}
	if mc.ASNV != 0 {
		apath = filepath.Join(dir, "asn.mmdb")
		rec := asnRec(64500, "ExampleNet")
		os.WriteFile(apath, mmBuild("GeoLite2-ASN", mc.ASNV, rec, rec), 0o644)
	}
	db, err := ipinfo.NewMMDBIPInfoMap(cpath, apath)
	if err != nil {
		ctx.Fail("mmdb-adapter", "database-not-opened", fmt.Sprintf("a well-formed database could not be opened: %v case=%+v", err, mc), mc, nil)
		return
	}
	defer db.Close()
	a, err := net.ResolveTCPAddr("tcp", mc.Client)
	if err != nil {
		panic(err)
	}
	info, _ := ipinfo.GetIPInfoFromAddr(db, a)
	if got := info.CountryCode.String(); got != mc.Want {
		ctx.Fail("mmdb-adapter", "location-label{"+mc.Name+"->"+got+"}", fmt.Sprintf("client %s with the real database adapter: location %q, want %q (record: country %q, registered country %q; country database IP version %d, ASN database IP version %d)", mc.Client, got, mc.Want, mc.Country, mc.Registered, mc.CountryV, mc.ASNV), mc, nil)
	}
	if info.ASN.Number != mc.WantASN {
		ctx.Fail("mmdb-adapter", "asn-label{"+mc.Name+"}", fmt.Sprintf("client %s with the real database adapter: AS number %d (%q), want %d", mc.Client, info.ASN.Number, info.ASN.Organization, mc.WantASN), mc, nil)
	}
	ctx.Record("mmdb-adapter", "E", fmt.Sprint(mc.Name, info.CountryCode, info.ASN.Number), true, 1, 1)
}

func mmdbAdapter(ctx *engine.Ctx) {
	for i, mc := range mmdbCases() {
		if ctx.Mine(int64(i)) {
			mc := mc
			hk.Guard(ctx, "mmdb-adapter", mc, func() { runMMDB(ctx, mc) })
		}
	}
}

func replayMMDB(sub *engine.Ctx, input json.RawMessage) {
	var mc mmdbCase
	json.Unmarshal(input, &mc)
	hk.Guard(sub, "mmdb-adapter", mc, func() { runMMDB(sub, mc) })
}
