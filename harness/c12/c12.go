// Package c12: shared listeners deliver each connection or datagram exactly once.
//
// Engine S on the real ListenerManager over vnet, stream and packet variants: two handles
// on one address, handle users that accept/read, close, and try once more; a connector that
// opens connections / sends datagrams; the internal accept/read goroutine. Variants: both
// users close; one user never closes and drains (nothing may be lost); re-acquisition after
// full release. Oracle: no duplicate delivery, no loss while a handle keeps accepting, a call
// after Close returns the closed-network error, the socket is released after the last close,
// no thread of the server remains, undeliverable accepted connections are closed.
package c12

import (
	"errors"
	"fmt"
	"net"
	"sort"
	"strings"
	"syscall"
	"time"

	"github.com/Jigsaw-Code/outline-ss-server/service"

	"verif/engine"
	"verif/harness/hk"
	"verif/harness/world"
	"verif/rt/vnet"
	"verif/rt/vrt"
)

const addr = "127.0.0.1:9000"

// Both handles are acquired up front. Each handle has a user thread that accepts/reads until
// it gets an error. Handle 1 is closed by a closer thread at an arbitrary moment (racing
// pending calls and deliveries); handle 2 is either closed the same way (Close2) or stays
// open and drains until the harness closes it at the end (then nothing may be lost).
type spec struct {
	Packet     bool
	Close2     bool
	N          int  // connections / datagrams
	Reacq      bool // after everything closed: acquire again and deliver one more
	FailFirst  bool // the very first acquire fails (address in use), the following ones succeed
	ListenRace bool // a further listen on the address races the closes: it must succeed whatever the timing
	Twice      bool // stream: the closer calls Close twice on its handle (the second call must not disturb the other handle)
	AcceptErr  bool // stream: the socket's next accept fails once with a transient error (the handles go on working)
	Cross      bool // stream: a packet handle on the same address is open as well and is closed at an arbitrary moment (its release must not disturb the stream side)
}

func (s spec) name() string {
	k := "stream"
	if s.Packet {
		k = "packet"
	}
	n := fmt.Sprintf("%s[close2=%v,n=%d,reacq=%v,failfirst=%v,listenrace=%v]", k, s.Close2, s.N, s.Reacq, s.FailFirst, s.ListenRace)
	if s.Twice {
		n += "[close-twice]"
	}
	if s.Cross {
		n += "[with-packet-handle]"
	}
	if s.AcceptErr {
		n += "[transient-accept-error]"
	}
	return n
}

type obsT struct {
	delivered  map[int][]string // item -> handles that got it
	afterClose []string         // results of calls issued after Close returned
	lost       []int
	leftOpen   []int
	errs       []string
	released   bool
	reacqOK    bool
	dialErrs   []string
	total      int
	transient  int
}

func streamScenario(s spec) *engine.Scenario {
	var o obsT
	sc := &engine.Scenario{Name: s.name()}
	sc.Body = func() {
		o = obsT{delivered: map[int][]string{}}
		vw := vnet.Reset()
		m := service.NewListenerManager()
		if s.FailFirst {
			vw.BindErr["tcp/"+addr] = syscall.EADDRINUSE
			if _, err := m.ListenStream(addr); err == nil {
				panic("bind fault not injected")
			}
			delete(vw.BindErr, "tcp/"+addr)
		}
		ln1, err := m.ListenStream(addr)
		if err != nil {
			panic(err)
		}
		ln2, err := m.ListenStream(addr)
		if err != nil {
			panic(err)
		}
		var clients []*vnet.TCPConn
		record := func(h string, c net.Conn) {
			tc := c.(*vnet.TCPConn)
			o.delivered[tc.ID] = append(o.delivered[tc.ID], h)
			c.Close()
		}
		user := func(h string, ln service.StreamListener) func() {
			return func() {
				for {
					c, err := ln.AcceptStream()
					if err != nil {
						if s.AcceptErr && !errors.Is(err, net.ErrClosed) && o.transient < 1 {
							// the injected transient error: reported to one handle, which goes on accepting
							o.transient++
							continue
						}
						if !errors.Is(err, net.ErrClosed) {
							o.errs = append(o.errs, h+": "+err.Error())
						}
						return
					}
					record(h, c)
				}
			}
		}
		closer := func(h string, ln service.StreamListener) func() {
			return func() {
				vrt.Yield("closer")
				ln.Close()
				if s.Twice {
					ln.Close()
				}
				c, err := ln.AcceptStream()
				switch {
				case err == nil:
					o.afterClose = append(o.afterClose, h+": delivered a connection after Close returned")
					record(h+"(closed)", c)
				case !errors.Is(err, net.ErrClosed):
					o.afterClose = append(o.afterClose, h+": "+err.Error())
				}
			}
		}
		ts := []*vrt.Thread{vrt.Spawn("h1", user("h1", ln1)), vrt.Spawn("closer1", closer("h1", ln1))}
		t2 := vrt.Spawn("h2", user("h2", ln2))
		if s.Close2 {
			ts = append(ts, t2, vrt.Spawn("closer2", closer("h2", ln2)))
		}
		if s.Cross {
			pc, err := m.ListenPacket(addr)
			if err != nil {
				panic(err)
			}
			ts = append(ts, vrt.Spawn("packet-closer", func() {
				vrt.Yield("packet-closer")
				pc.Close()
			}))
		}
		if s.ListenRace {
			ts = append(ts, vrt.Spawn("late-listener", func() {
				vrt.Yield("late-listener")
				ln3, err := m.ListenStream(addr)
				if err != nil {
					o.errs = append(o.errs, "a listen racing the last close failed: "+err.Error())
					return
				}
				ln3.Close()
			}))
		}
		if s.AcceptErr {
			for _, l := range vw.Listeners() {
				l.InjectAcceptError()
			}
		}
		tc := vrt.Spawn("connector", func() {
			for i := 0; i < s.N; i++ {
				c, err := vnet.EnvDial(world.TCPAddr("203.0.113.7:0"), addr)
				if err != nil {
					o.dialErrs = append(o.dialErrs, err.Error())
					continue
				}
				clients = append(clients, c)
			}
		})
		vrt.Join(append(ts, tc)...)
		o.total = len(clients)
		if !s.Close2 {
			vrt.WaitIdle()
			// a handle was open and accepting all the time: nothing may be lost
			for _, c := range clients {
				if len(o.delivered[c.ID]) == 0 {
					o.lost = append(o.lost, c.ID)
				}
			}
			ln2.Close()
			vrt.Join(t2)
			vrt.WaitIdle()
		}
		// everything is closed now: the socket must be released (Close has returned) ...
		o.released = !vw.ListeningTCP(9000)
		if !s.Reacq {
			// ... and, once the system is quiescent, undeliverable connections closed
			vrt.WaitIdle()
			for _, c := range clients {
				if len(o.delivered[c.ID]) == 0 && !c.Peer().IsClosed() {
					o.leftOpen = append(o.leftOpen, c.ID)
				}
			}
		}
		if s.Reacq {
			// re-acquisition right away: races whatever the released generation still has running
			ln3, err := m.ListenStream(addr)
			if err != nil {
				o.errs = append(o.errs, "re-acquire: "+err.Error())
			} else {
				c, err := vnet.EnvDial(world.TCPAddr("203.0.113.8:0"), addr)
				if err == nil {
					got, err := ln3.AcceptStream()
					if err == nil && got.(*vnet.TCPConn).ID == c.ID {
						o.reacqOK = true
						got.Close()
					}
					c.Close()
				}
				ln3.Close()
				vrt.WaitIdle()
				if vw.ListeningTCP(9000) {
					o.released = false
				}
			}
		}
		for _, c := range clients {
			c.Close()
		}
	}
	sc.Check = func(x *vrt.Exec) (string, bool, []*engine.Finding) { return check(s, &o, x) }
	return sc
}

func check(s spec, o *obsT, x *vrt.Exec) (string, bool, []*engine.Finding) {
	fs := hk.Generic(x, hk.Opts{Leaks: true})
	add := func(sig, format string, a ...any) {
		fs = append(fs, &engine.Finding{Sig: sig, Msg: fmt.Sprintf(format, a...)})
	}
	if x.Crash == "" && !x.Deadlock {
		var ids []int
		for id := range o.delivered {
			ids = append(ids, id)
		}
		sort.Ints(ids)
		for _, id := range ids {
			if len(o.delivered[id]) > 1 {
				add("delivered-twice", "item %d was delivered to %v", id, o.delivered[id])
			}
		}
		if len(o.afterClose) > 0 {
			add("call-after-close", "%v", o.afterClose)
		}
		if len(o.lost) > 0 {
			add("lost-while-handle-open", "%d of %d item(s) were never delivered although handle h2 was open and accepting all the time: %v", len(o.lost), o.total, o.lost)
		}
		if len(o.leftOpen) > 0 {
			add("undelivered-left-open", "connection(s) %v were accepted from the socket but neither delivered nor closed after the last handle closed", o.leftOpen)
		}
		if !o.released {
			add("socket-not-released", "the shared socket is still bound after the last handle closed")
		}
		if len(o.errs) > 0 {
			sig := "unexpected-error"
			if strings.Contains(o.errs[0], "racing the last close") {
				sig = "socket-not-released{listen-racing-last-close}"
			}
			add(sig, "%v", o.errs)
		}
		if len(o.dialErrs) > 0 && !s.Close2 {
			add("connection-refused", "a handle was open all the time but %v", o.dialErrs)
		}
		if s.Reacq && !o.reacqOK && len(o.errs) == 0 {
			add("reacquire-broken", "after full release a new handle did not receive the next connection / datagram")
		}
	}
	obs := fmt.Sprint(len(o.delivered), o.afterClose, o.lost, o.leftOpen, o.released, o.errs, len(x.Blocked))
	return obs, true, fs
}

func packetScenario(s spec) *engine.Scenario {
	var o obsT
	sc := &engine.Scenario{Name: s.name()}
	sc.Body = func() {
		o = obsT{delivered: map[int][]string{}}
		vw := vnet.Reset()
		m := service.NewListenerManager()
		if s.FailFirst {
			vw.BindErr["udp/"+addr] = syscall.EADDRINUSE
			if _, err := m.ListenPacket(addr); err == nil {
				panic("bind fault not injected")
			}
			delete(vw.BindErr, "udp/"+addr)
		}
		pc1, err := m.ListenPacket(addr)
		if err != nil {
			panic(err)
		}
		pc2, err := m.ListenPacket(addr)
		if err != nil {
			panic(err)
		}
		record := func(h string, b []byte) {
			if len(b) == 1 {
				o.delivered[int(b[0])] = append(o.delivered[int(b[0])], h)
			} else {
				o.errs = append(o.errs, fmt.Sprintf("%s: datagram of %d bytes", h, len(b)))
			}
		}
		user := func(h string, pc net.PacketConn) func() {
			return func() {
				buf := make([]byte, 100)
				for {
					n, _, err := pc.ReadFrom(buf)
					if err != nil {
						if !errors.Is(err, net.ErrClosed) {
							o.errs = append(o.errs, h+": "+err.Error())
						}
						return
					}
					record(h, buf[:n])
				}
			}
		}
		closer := func(h string, pc net.PacketConn) func() {
			return func() {
				vrt.Yield("closer")
				pc.Close()
				buf := make([]byte, 100)
				n, _, err := pc.ReadFrom(buf)
				switch {
				case err == nil:
					o.afterClose = append(o.afterClose, h+": delivered a datagram after Close returned")
					record(h+"(closed)", buf[:n])
				case !errors.Is(err, net.ErrClosed):
					o.afterClose = append(o.afterClose, h+": "+err.Error())
				}
			}
		}
		ts := []*vrt.Thread{vrt.Spawn("h1", user("h1", pc1)), vrt.Spawn("closer1", closer("h1", pc1))}
		t2 := vrt.Spawn("h2", user("h2", pc2))
		if s.Close2 {
			ts = append(ts, t2, vrt.Spawn("closer2", closer("h2", pc2)))
		}
		if s.ListenRace {
			ts = append(ts, vrt.Spawn("late-listener", func() {
				vrt.Yield("late-listener")
				pc3, err := m.ListenPacket(addr)
				if err != nil {
					o.errs = append(o.errs, "a listen racing the last close failed: "+err.Error())
					return
				}
				pc3.Close()
			}))
		}
		sender, _ := vnet.EnvListenUDP(world.UDPAddr("203.0.113.7:5000"))
		tc := vrt.Spawn("sender", func() {
			for i := 0; i < s.N; i++ {
				sender.WriteTo([]byte{byte(i + 1)}, world.UDPAddr(addr))
			}
		})
		vrt.Join(append(ts, tc)...)
		o.total = s.N
		if !s.Close2 {
			vrt.WaitIdle()
			for i := 1; i <= s.N; i++ {
				if len(o.delivered[i]) == 0 {
					o.lost = append(o.lost, i)
				}
			}
			pc2.Close()
			vrt.Join(t2)
			vrt.WaitIdle()
		}
		o.released = !vw.BoundUDP(9000)
		if s.Reacq {
			pc3, err := m.ListenPacket(addr)
			if err != nil {
				o.errs = append(o.errs, "re-acquire: "+err.Error())
			} else {
				sender.WriteTo([]byte{99}, world.UDPAddr(addr))
				buf := make([]byte, 10)
				n, _, err := pc3.ReadFrom(buf)
				if err == nil && n == 1 && buf[0] == 99 {
					o.reacqOK = true
				}
				pc3.Close()
				vrt.WaitIdle()
				if vw.BoundUDP(9000) {
					o.released = false
				}
			}
		}
	}
	sc.Check = func(x *vrt.Exec) (string, bool, []*engine.Finding) { return check(s, &o, x) }
	return sc
}

// twoReaders: two threads read from ONE packet handle at the same time (a net.PacketConn may be
// used like that) while two datagrams of different lengths arrive from two senders: each read
// returns one whole datagram together with its own sender, each datagram is returned once.
// shortBuffer: a read with a buffer shorter than the datagram gets the first bytes and reports
// that many (what a UDP socket does), through a handle exactly as on the socket itself.
func shortBuffer() *engine.Scenario {
	var ns []int
	var datas []string
	var errs []string
	sc := &engine.Scenario{Name: "packet-short-buffer"}
	sc.Body = func() {
		ns, datas, errs = nil, nil, nil
		vnet.Reset()
		m := service.NewListenerManager()
		pc, err := m.ListenPacket(addr)
		if err != nil {
			panic(err)
		}
		pc2, err := m.ListenPacket(addr)
		if err != nil {
			panic(err)
		}
		rd := vrt.Spawn("reader", func() {
			for _, size := range []int{2, 8, 1} {
				buf := make([]byte, size, 64)
				n, _, err := pc.ReadFrom(buf)
				if err != nil {
					errs = append(errs, err.Error())
					return
				}
				ns = append(ns, n)
				if n <= size {
					datas = append(datas, fmt.Sprint(buf[:n]))
				}
			}
		})
		s1, _ := vnet.EnvListenUDP(world.UDPAddr("203.0.113.7:5001"))
		snd := vrt.Spawn("sender", func() {
			s1.WriteTo([]byte{7, 7, 7, 7, 7}, world.UDPAddr(addr))
			s1.WriteTo([]byte{8, 8, 8}, world.UDPAddr(addr))
			s1.WriteTo([]byte{9, 9}, world.UDPAddr(addr))
		})
		vrt.Join(rd, snd)
		pc.Close()
		pc2.Close()
		vrt.WaitIdle()
	}
	sc.Check = func(x *vrt.Exec) (string, bool, []*engine.Finding) {
		fs := hk.Generic(x, hk.Opts{})
		if len(fs) == 0 {
			if len(errs) > 0 {
				fs = append(fs, &engine.Finding{Sig: "read-error{short-buffer}", Msg: fmt.Sprint(errs)})
			} else if fmt.Sprint(ns) != "[2 3 1]" || fmt.Sprint(datas) != "[[7 7] [8 8 8] [9]]" {
				fs = append(fs, &engine.Finding{Sig: "datagram-mangled{short-buffer}", Msg: fmt.Sprintf("reads with buffers of 2, 8 and 1 bytes for datagrams of 5, 3 and 2 bytes returned lengths %v and data %v, want [2 3 1] and [[7 7] [8 8 8] [9]]", ns, datas)})
			}
		}
		return fmt.Sprint(ns, datas, errs), true, fs
	}
	return sc
}

// deadlineAndEmpty: a read deadline set through a handle expires (the read fails with a timeout,
// nothing else happens to the handles); a read with an empty buffer waits for a datagram and takes
// it; afterwards datagrams are still delivered, each exactly once.
func deadlineAndEmpty() *engine.Scenario {
	var log []string
	sc := &engine.Scenario{Name: "packet-deadline-and-empty-buffer", Opt: vrt.Options{Horizon: time.Hour}}
	sc.Body = func() {
		log = nil
		vnet.Reset()
		m := service.NewListenerManager()
		pc, err := m.ListenPacket(addr)
		if err != nil {
			panic(err)
		}
		pc2, err := m.ListenPacket(addr)
		if err != nil {
			panic(err)
		}
		s1, _ := vnet.EnvListenUDP(world.UDPAddr("203.0.113.7:5001"))
		rd := vrt.Spawn("reader", func() {
			buf := make([]byte, 16)
			pc.SetReadDeadline(vrt.NowQuiet().Add(time.Second))
			_, _, err := pc.ReadFrom(buf)
			var ne net.Error
			log = append(log, fmt.Sprintf("deadline-read: timeout=%v", errors.As(err, &ne) && ne.Timeout()))
			pc.SetReadDeadline(time.Time{})
			// (an expiry that the shared reader noticed before the deadline was cleared may still be
			// handed out once: timeouts are retried)
			var n int
			var from net.Addr
			for try := 0; try < 3; try++ {
				n, from, err = pc.ReadFrom(nil)
				if !(errors.As(err, &ne) && ne.Timeout()) {
					break
				}
			}
			log = append(log, fmt.Sprintf("empty-buffer-read: n=%d from=%v err=%v", n, from, err))
			for i := 0; i < 2; i++ {
				n, from, err := pc.ReadFrom(buf)
				if err != nil {
					log = append(log, "read: "+err.Error())
					return
				}
				log = append(log, fmt.Sprintf("read: %v from=%v", buf[:n], from))
			}
		})
		snd := vrt.Spawn("sender", func() {
			vrt.Sleep(3 * time.Second)
			for _, d := range [][]byte{{1}, {2, 2}, {3, 3, 3}} {
				s1.WriteTo(d, world.UDPAddr(addr))
				vrt.Sleep(time.Second)
			}
		})
		vrt.Join(rd, snd)
		pc.Close()
		pc2.Close()
		vrt.WaitIdle()
	}
	sc.Check = func(x *vrt.Exec) (string, bool, []*engine.Finding) {
		fs := hk.Generic(x, hk.Opts{})
		want := "[deadline-read: timeout=true empty-buffer-read: n=0 from=203.0.113.7:5001 err=<nil> read: [2 2] from=203.0.113.7:5001 read: [3 3 3] from=203.0.113.7:5001]"
		if len(fs) == 0 && fmt.Sprint(log) != want {
			fs = append(fs, &engine.Finding{Sig: "datagram-mangled{deadline-and-empty-buffer}", Msg: fmt.Sprintf("one reader on a handle (another handle open and idle): got %v, want %s", log, want)})
		}
		return fmt.Sprint(log), true, fs
	}
	return sc
}

func twoReaders() *engine.Scenario {
	type got struct{ data, from string }
	var reads []got
	var errs []string
	sc := &engine.Scenario{Name: "packet-two-readers"}
	sc.Body = func() {
		reads, errs = nil, nil
		vnet.Reset()
		m := service.NewListenerManager()
		pc, err := m.ListenPacket(addr)
		if err != nil {
			panic(err)
		}
		var rs []*vrt.Thread
		for i := 0; i < 2; i++ {
			rs = append(rs, vrt.Spawn(fmt.Sprintf("reader%d", i), func() {
				buf := make([]byte, 16)
				for j := range buf {
					buf[j] = 0xEE
				}
				n, from, err := pc.ReadFrom(buf)
				if err != nil {
					errs = append(errs, err.Error())
					return
				}
				reads = append(reads, got{fmt.Sprint(buf[:n]), from.String()})
			}))
		}
		s1, _ := vnet.EnvListenUDP(world.UDPAddr("203.0.113.7:5001"))
		s2, _ := vnet.EnvListenUDP(world.UDPAddr("203.0.113.8:5002"))
		snd := vrt.Spawn("senders", func() {
			s1.WriteTo([]byte{1}, world.UDPAddr(addr))
			s2.WriteTo([]byte{2, 2, 2}, world.UDPAddr(addr))
		})
		vrt.Join(append(rs, snd)...)
		pc.Close()
		vrt.WaitIdle()
	}
	sc.Check = func(x *vrt.Exec) (string, bool, []*engine.Finding) {
		fs := hk.Generic(x, hk.Opts{})
		if len(fs) == 0 {
			want := map[got]bool{{"[1]", "203.0.113.7:5001"}: true, {"[2 2 2]", "203.0.113.8:5002"}: true}
			seen := map[got]int{}
			for _, r := range reads {
				seen[r]++
				if !want[r] {
					fs = append(fs, &engine.Finding{Sig: "datagram-mangled{concurrent-reads}", Msg: fmt.Sprintf("two reads at once on one handle: a read returned %s from %s, which nobody sent (sent: [1] from 203.0.113.7:5001, [2 2 2] from 203.0.113.8:5002)", r.data, r.from)})
				}
			}
			for w := range want {
				if seen[w] != 1 {
					fs = append(fs, &engine.Finding{Sig: "delivery-count{concurrent-reads}", Msg: fmt.Sprintf("two reads at once on one handle: datagram %s from %s was returned %d times", w.data, w.from, seen[w])})
				}
			}
			for _, e := range errs {
				fs = append(fs, &engine.Finding{Sig: "read-error{concurrent-reads}", Msg: e})
			}
		}
		return fmt.Sprint(reads, errs), true, fs
	}
	return sc
}

func specs(tier string) []spec {
	var out []spec
	for _, p := range []bool{false, true} {
		out = append(out,
			spec{Packet: p, Close2: false, N: 2},
			spec{Packet: p, Close2: true, N: 2, Reacq: true},
			spec{Packet: p, Close2: true, N: 1},
			spec{Packet: p, Close2: true, N: 1, FailFirst: true},
			spec{Packet: p, Close2: true, N: 0, ListenRace: true},
		)
		if tier == "thorough" {
			out = append(out, spec{Packet: p, Close2: false, N: 3}, spec{Packet: p, Close2: true, N: 3, Reacq: true})
		}
	}
	out = append(out,
		spec{Close2: false, N: 2, Twice: true},
		spec{Close2: false, N: 2, AcceptErr: true},
		spec{Close2: false, N: 1, ListenRace: true, Cross: true})
	return out
}

func Scenarios(tier string) []*engine.Scenario { return scenarios(tier) }

// HandoverScenarios: one handle closes while the other stays open and keeps accepting - what a
// reload does to a retained address (new generation acquired, old generation closed). Used by C11.
func HandoverScenarios() []*engine.Scenario {
	return []*engine.Scenario{streamScenario(spec{Close2: false, N: 2}), packetScenario(spec{Packet: true, Close2: false, N: 2})}
}

func scenarios(tier string) []*engine.Scenario {
	var out []*engine.Scenario
	for _, s := range specs(tier) {
		if s.Packet {
			out = append(out, packetScenario(s))
		} else {
			out = append(out, streamScenario(s))
		}
	}
	out = append(out, twoReaders(), shortBuffer(), deadlineAndEmpty())
	return out
}

func init() {
	hk.Register("C12", func(ctx *engine.Ctx) {
		bound := 3
		if ctx.Tier == "thorough" {
			bound = 4
		}
		for _, sc := range scenarios(ctx.Tier) {
			b := bound
			if strings.Contains(sc.Name, "[with-packet-handle]") {
				b = bound - 1 // seven threads: one deviation less keeps the quick tier quick
			}
			engine.ExploreS(ctx, sc, engine.SConfig{Bound: b, Shard: ctx.Shard, NShards: ctx.NShards, Deadline: ctx.Deadline})
		}
	})
	hk.Replayers["C12"] = func(ctx *engine.Ctx, rp engine.Replay) []*engine.Finding {
		return engine.ReplayScenario(scenarios("thorough"), rp)
	}
}
