package tcpx

import "github.com/Jigsaw-Code/outline-ss-server/service/metrics"

type metricsPM = metrics.ProxyMetrics
