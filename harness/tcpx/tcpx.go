// Package tcpx builds multi-connection TCP handler-world scenarios that produce every
// connection outcome class (success, cipher failure, both replay kinds, bad address,
// disallowed address, connect failure, relay error either way). C15 (metrics) and C18
// (no crash, no leak) put their oracles on the observations.
package tcpx

import (
	"encoding/json"
	"fmt"
	"io"
	"net"
	"strings"
	"time"

	"github.com/Jigsaw-Code/outline-sdk/transport"
	"github.com/Jigsaw-Code/outline-ss-server/service"

	"verif/harness/hk"
	"verif/harness/world"
	"verif/rt/vnet"
	"verif/rt/vrt"
)

const T = 59 * time.Second

// ConnSpec is one scripted client connection.
type ConnSpec struct {
	Class     string           `json:"class"` // ok | cipher | replay-client | replay-server | bad-addr | private | refused | relay-client | relay-target | raw
	Cipher    int              `json:"cipher"`
	Up        int              `json:"up"`
	Down      int              `json:"down"`
	Var       int              `json:"var"`           // class-specific variant
	Raw       []byte           `json:"raw,omitempty"` // class raw: authenticated plaintext chunks are built by the caller (see RawChunks)
	RawChunks []world.RawChunk `json:"-"`
}

type Spec struct {
	Conns       []ConnSpec `json:"conns"`
	Concurrent  bool       `json:"concurrent"` // run the clients as parallel threads
	Cache       int        `json:"cache"`
	AcceptErr   bool       `json:"accept_err"` // inject one transient accept error before the first connection
	StopEarly   bool       `json:"stop_early"` // close the listener while connections are in flight
	RealMetrics bool       `json:"real_metrics"`
	TCPBuf      int        `json:"tcpbuf,omitempty"`          // socket buffer size (small: writes block and can fail part-way)
	Shared      bool       `json:"shared_listener,omitempty"` // the listener comes from a ListenerManager
	FailFirst   bool       `json:"fail_first,omitempty"`      // the handling of client 0's connection fails (panics, recovered by StreamServe)
}

func (s Spec) String() string { b, _ := json.Marshal(s); return string(b) }

// ConnObs is what was observed for one client connection.
type ConnObs struct {
	Spec                ConnSpec
	Want                string // expected status
	WantAuth            bool
	Rec                 *world.ConnRec
	Sent                int64 // wire bytes the client wrote
	ClientGot           []byte
	Plain               []byte // decrypted
	TargetGot           []byte
	SrvRead, SrvWritten int64 // wire bytes on the client-facing server socket
	TgtWritten, TgtRead int64 // wire bytes on the proxy->target socket (from the proxy's point of view)
	Dialed              bool
	Key                 *world.Key
	Completed           bool
	Refused             bool // the dial itself was refused (listener already closed)
	AuthSentAt          time.Duration // classes stall / stall-bad-addr: when the client sent the bytes that authenticate it (-1 otherwise)
}

type Obs struct {
	Conns      []*ConnObs
	Open       []string
	ServeOK    bool
	Recovered  []string
	AcceptWarn bool
	Metrics    service.ServiceMetrics
}

var privateDsts = []string{"10.1.2.3:80", "127.0.0.1:22", "[::1]:80", "192.168.0.1:443", "100.64.0.1:53", "[fd00::1]:80", "0.0.0.0:80", "169.254.1.1:80"}

func (o *Obs) Reset() { *o = Obs{} }

// Build returns the scenario body; observations land in o.
func Build(s Spec, o *Obs, newMetrics func() service.ServiceMetrics) func() {
	return func() {
		o.Reset()
		vw := vnet.Reset()
		if s.TCPBuf > 0 {
			vw.TCPBuf = s.TCPBuf
		}
		hk.ResetLogs()
		keys := []*world.Key{}
		for c := 0; c < 4; c++ {
			keys = append(keys, world.MakeKey("key-"+world.Ciphers[c], world.Ciphers[c], fmt.Sprintf("secret%d", c)))
		}
		w := world.NewTCP(keys, s.Cache, T)
		if s.RealMetrics && newMetrics != nil {
			o.Metrics = newMetrics()
			w.WrapMetrics = func(conn transport.StreamConn, rec *world.ConnRec) service.TCPConnMetrics {
				return &tee{rec, o.Metrics.AddOpenTCPConnection(conn)}
			}
		}
		vw.DialHang["93.184.216.39:80"] = true
		if s.FailFirst {
			w.FailHandler = func(remote string) bool { return strings.HasPrefix(remote, "203.0.113.10:") }
		}
		if s.Shared {
			w.StartShared()
		} else {
			w.Start()
		}
		if s.AcceptErr {
			w.Ln.InjectAcceptError()
		}
		// targets: echo-ish target, resetting target
		echo := func(t *world.Target, i int, c *vnet.TCPConn) {
			// first 2 bytes tell how much to send back
			hdr := make([]byte, 2)
			if _, err := io.ReadFull(c, hdr); err != nil {
				c.Close()
				return
			}
			t.Got[i] = append(t.Got[i], hdr...)
			n := int(hdr[0])<<8 | int(hdr[1])
			c.Write(world.Pattern(0x33, n))
			t.ReadAll(i, c)
			c.Close()
		}
		rst := func(t *world.Target, i int, c *vnet.TCPConn) {
			hdr := make([]byte, 2)
			io.ReadFull(c, hdr)
			c.Write(world.Pattern(0x44, 10))
			// wait for more data, then close without reading it: RST
			vrt.WaitUntil("target.wait-unread", c, func() bool { return c.Unread() > 0 || c.IsClosed() })
			c.Close()
		}
		// a target that sends a lot and a target that reads nothing, then goes away
		flood := func(t *world.Target, i int, c *vnet.TCPConn) {
			hdr := make([]byte, 2)
			io.ReadFull(c, hdr)
			c.Write(world.Pattern(0x55, 40000))
			t.ReadAll(i, c)
			c.Close()
		}
		deaf := func(t *world.Target, i int, c *vnet.TCPConn) {
			vrt.Sleep(2 * time.Second)
			c.Close()
		}
		var tgts []*world.Target
		for i := range s.Conns {
			tgts = append(tgts, world.StartTarget(fmt.Sprintf("93.184.216.34:%d", 8000+i), echo))
			tgts = append(tgts, world.StartTarget(fmt.Sprintf("93.184.216.35:%d", 8000+i), rst))
			tgts = append(tgts, world.StartTarget(fmt.Sprintf("93.184.216.37:%d", 8000+i), flood))
			tgts = append(tgts, world.StartTarget(fmt.Sprintf("93.184.216.38:%d", 8000+i), deaf))
		}
		var recordedServer []byte
		run := func(i int, cs ConnSpec) *ConnObs {
			key := keys[cs.Cipher]
			co := &ConnObs{Spec: cs, Key: key, AuthSentAt: -1}
			okDst := fmt.Sprintf("93.184.216.34:%d", 8000+i)
			rstDst := fmt.Sprintf("93.184.216.35:%d", 8000+i)
			_, _ = okDst, rstDst
			from := fmt.Sprintf("203.0.113.%d:0", 10+i)
			upPayload := append([]byte{byte(cs.Down >> 8), byte(cs.Down)}, world.Pattern(0x21, cs.Up)...)
			seed := uint64(100 + i)
			var wire []byte
			finish := func(cl *world.Client) {
				co.Sent = cl.Sent()
				co.Refused = cl.Refused()
				co.ClientGot = cl.Got
				co.Plain, _ = world.DecodeStream(key, cl.Got)
			}
			switch cs.Class {
			case "ok":
				co.Want, co.WantAuth, co.Completed = "OK", true, true
				wire = world.EncodeStream(key, seed, world.Addr(okDst), upPayload)
				cl := world.Dial(from)
				rd := vrt.Spawn("reader", func() { cl.ReadAll() })
				cl.Send(wire, 0)
				cl.CloseWrite()
				vrt.Join(rd)
				cl.Close()
				finish(cl)
				if i == 0 {
					recordedServer = cl.Got
				}
			case "stall", "stall-bad-addr":
				// the client sends exactly the bytes that authenticate it (salt and the first length
				// chunk), is silent for 10 s, and only then sends the address (valid / malformed)
				co.Want, co.WantAuth, co.Completed = "OK", true, cs.Class == "stall"
				wire = world.EncodeStream(key, seed, world.Addr(okDst), upPayload)
				if cs.Class == "stall-bad-addr" {
					co.Want = "ERR_READ_ADDRESS"
					wire = world.EncodeStream(key, seed, []byte{0x07, 1, 2, 3, 4, 5, 6})
				}
				hs := 50 // the server looks for the key once it has the first 50 bytes, whatever the cipher
				cl := world.Dial(from)
				rd := vrt.Spawn("reader", func() { cl.ReadAll() })
				co.AuthSentAt = vrt.NowQuiet().Sub(vrt.Epoch)
				cl.Send(wire[:hs], 0)
				vrt.Sleep(10 * time.Second)
				cl.Send(wire[hs:], 0)
				vrt.Sleep(time.Second)
				cl.CloseWrite()
				vrt.Join(rd)
				cl.Close()
				finish(cl)
			case "hang":
				// the target never answers the connect: the handler sits in the dial until its context is
				// cancelled (the listener closes); the client just waits
				co.Want, co.WantAuth = "ERR_CONNECT", true
				wire = world.EncodeStream(key, seed, world.Addr("93.184.216.39:80"), upPayload)
				cl := world.Dial(from)
				cl.Send(wire, 0)
				cl.ReadAll()
				cl.Close()
				finish(cl)
			case "empty":
				// the client connects, sends nothing at all and goes away (Var 0) / stays until the server
				// gives up (Var 1)
				co.Want = "ERR_CIPHER"
				cl := world.Dial(from)
				if cs.Var == 0 {
					vrt.Sleep(time.Second)
					cl.CloseWrite()
				}
				cl.ReadAll()
				cl.Close()
				finish(cl)
			case "cipher":
				co.Want = "ERR_CIPHER"
				wire = make([]byte, 80+cs.Var)
				io.ReadFull(vrt.DetRand(seed), wire)
				cl := world.Dial(from)
				cl.Send(wire, 0)
				vrt.Sleep(time.Second)
				cl.CloseWrite()
				cl.ReadAll()
				cl.Close()
				finish(cl)
			case "cipher-rst":
				// a probe whose sender resets the connection while the server is absorbing it
				co.Want = "ERR_CIPHER"
				wire = make([]byte, 80+cs.Var)
				io.ReadFull(vrt.DetRand(seed), wire)
				cl := world.Dial(from)
				cl.Send(wire, 0)
				vrt.Sleep(time.Second)
				if cl.C != nil {
					cl.C.SetLinger(0)
				}
				cl.Close()
				finish(cl)
			case "client-rst", "client-rst-late":
				// an authenticated client that uploads and then resets its connection (before / after the
				// target has everything); the target answers only once it has seen the end of the upload
				co.Want, co.WantAuth = "", true
				wire = world.EncodeStream(key, seed, world.Addr(okDst), upPayload)
				cl := world.Dial(from)
				cl.Send(wire, 0)
				if cs.Class == "client-rst-late" {
					vrt.Sleep(time.Second)
				}
				if cl.C != nil {
					cl.C.SetLinger(0)
				}
				cl.Close()
				finish(cl)
			case "replay-client":
				co.Want = "ERR_REPLAY_CLIENT"
				// same seed as connection 0 (class ok, same cipher) => same salt
				wire = world.EncodeStream(key, 100, world.Addr(okDst), upPayload)
				cl := world.Dial(from)
				cl.Send(wire, 0)
				vrt.Sleep(time.Second)
				cl.CloseWrite()
				cl.ReadAll()
				cl.Close()
				finish(cl)
			case "replay-server":
				co.Want = "ERR_REPLAY_SERVER"
				wire = recordedServer
				cl := world.Dial(from)
				cl.Send(wire, 0)
				vrt.Sleep(time.Second)
				cl.CloseWrite()
				cl.ReadAll()
				cl.Close()
				finish(cl)
			case "bad-addr":
				co.Want, co.WantAuth = "ERR_READ_ADDRESS", true
				bad := [][]byte{{0x07, 1, 2, 3, 4, 5, 6}, {0x03}, {0x01, 1, 2}, {0x04, 1, 2, 3}, {0x00}, {0x03, 0}}[cs.Var%6]
				wire = world.EncodeStream(key, seed, bad)
				cl := world.Dial(from)
				cl.Send(wire, 0)
				vrt.Sleep(time.Second)
				cl.CloseWrite()
				cl.ReadAll()
				cl.Close()
				finish(cl)
			case "private":
				dst := privateDsts[cs.Var%len(privateDsts)]
				ip := net.ParseIP(hostOf(dst))
				co.Want, co.WantAuth = "ERR_ADDRESS_PRIVATE", true
				if !ip.IsGlobalUnicast() {
					co.Want = "ERR_ADDRESS_INVALID"
				}
				wire = world.EncodeStream(key, seed, world.Addr(dst), upPayload)
				cl := world.Dial(from)
				cl.Send(wire, 0)
				cl.ReadAll()
				cl.Close()
				finish(cl)
			case "refused":
				co.Want, co.WantAuth = "ERR_CONNECT", true
				wire = world.EncodeStream(key, seed, world.Addr("93.184.216.36:81"), upPayload)
				cl := world.Dial(from)
				cl.Send(wire, 0)
				cl.ReadAll()
				cl.Close()
				finish(cl)
			case "relay-client":
				co.Want, co.WantAuth = "ERR_RELAY_CLIENT", true
				wire = world.EncodeStream(key, seed, world.Addr(okDst), upPayload, world.Pattern(3, 30))
				// corrupt the last chunk
				wire[len(wire)-5] ^= 0x40
				cl := world.Dial(from)
				rd := vrt.Spawn("reader", func() { cl.ReadAll() })
				cl.Send(wire, 0)
				vrt.Sleep(time.Second)
				cl.CloseWrite()
				vrt.Join(rd)
				cl.Close()
				finish(cl)
			case "relay-target":
				co.Want, co.WantAuth = "ERR_RELAY_TARGET", true
				wire = world.EncodeStream(key, seed, world.Addr(rstDst), []byte{0, 0})
				more := world.EncodeStream(key, seed, world.Addr(rstDst), []byte{0, 0}, world.Pattern(5, 20))
				cl := world.Dial(from)
				rd := vrt.Spawn("reader", func() { cl.ReadAll() })
				cl.Send(wire, 0)
				vrt.Sleep(time.Second)
				cl.Send(more[len(wire):], 0) // arrives at the target, which closes without reading: RST
				vrt.Sleep(time.Second)
				cl.CloseWrite()
				vrt.Join(rd)
				cl.Close()
				finish(cl)
			case "relay-client-then-gone":
				// the client's stream turns invalid first (a chunk that fails authentication); only then,
				// while the target is still sending, the client goes away without reading: both relay
				// directions fail, the client's one first, and that is the outcome of the connection
				co.Want, co.WantAuth = "ERR_RELAY_CLIENT", true
				wire = world.EncodeStream(key, seed, world.Addr(fmt.Sprintf("93.184.216.37:%d", 8000+i)), []byte{0, 0}, world.Pattern(3, 30))
				wire[len(wire)-5] ^= 0x40
				cl := world.Dial(from)
				cl.Send(wire, 0)
				vrt.Sleep(time.Second)
				cl.Close()
				finish(cl)
			case "client-abort":
				// the target floods, the client never reads and disappears: the proxy's write to the
				// client blocks on the full buffer and fails part-way
				co.Want, co.WantAuth = "", true
				wire = world.EncodeStream(key, seed, world.Addr(fmt.Sprintf("93.184.216.37:%d", 8000+i)), []byte{0, 0})
				cl := world.Dial(from)
				cl.Send(wire, 0)
				vrt.Sleep(time.Second)
				cl.Close()
				finish(cl)
			case "target-abort":
				// the client uploads a lot, the target reads nothing and closes: the proxy's write to the
				// target fails part-way
				co.Want, co.WantAuth = "", true
				wire = world.EncodeStream(key, seed, world.Addr(fmt.Sprintf("93.184.216.38:%d", 8000+i)), world.Pattern(7, 16000), world.Pattern(8, 16000), world.Pattern(9, 16000))
				cl := world.Dial(from)
				rd := vrt.Spawn("reader", func() { cl.ReadAll() })
				cl.Send(wire, 0)
				vrt.Sleep(5 * time.Second)
				cl.CloseWrite()
				vrt.Join(rd)
				cl.Close()
				finish(cl)
			case "raw":
				// authenticated stream with hand-built chunks; the expectation is set by the caller's oracle
				co.Want, co.WantAuth = "", true
				wire = world.RawStream(key, seed, cs.RawChunks)
				cl := world.Dial(from)
				rd := vrt.Spawn("reader", func() { cl.ReadAll() })
				cl.Send(wire, 0)
				vrt.Sleep(time.Second)
				cl.CloseWrite()
				vrt.Join(rd)
				cl.Close()
				finish(cl)
			}
			return co
		}
		o.Conns = make([]*ConnObs, len(s.Conns))
		if s.Concurrent {
			var ts []*vrt.Thread
			for i, cs := range s.Conns {
				i, cs := i, cs
				ts = append(ts, vrt.Spawn(fmt.Sprintf("client%d", i), func() { o.Conns[i] = run(i, cs) }))
			}
			if s.StopEarly {
				w.CloseListener()
			}
			vrt.Join(ts...)
		} else {
			for i, cs := range s.Conns {
				o.Conns[i] = run(i, cs)
				vrt.WaitIdle()
			}
		}
		vrt.WaitIdle()
		if !s.StopEarly {
			w.CloseListener()
		}
		w.Stop2()
		for _, t := range tgts {
			t.Ln.Close()
		}
		// attach handler records to client observations by remote address
		for i, co := range o.Conns {
			if co == nil {
				continue
			}
			want := fmt.Sprintf("203.0.113.%d:", 10+i)
			for _, r := range w.Conns {
				if len(r.Remote) >= len(want) && r.Remote[:len(want)] == want {
					co.Rec = r
					if r.Srv != nil {
						co.SrvRead, co.SrvWritten = r.Srv.BytesRead, r.Srv.BytesWritten
					}
				}
			}
		}
		for i, co := range o.Conns {
			if co != nil && 4*i < len(tgts) && len(tgts[4*i].Got) > 0 {
				co.TargetGot = tgts[4*i].Got[0]
			}
		}
		// proxy->target sockets: every client connection has its own target port
		for _, c := range vw.Conns() {
			if c.Owner == "srv" && c.Side == "dial" {
				port := c.RemoteAddr().(*net.TCPAddr).Port
				if i := port - 8000; i >= 0 && i < len(o.Conns) && o.Conns[i] != nil {
					o.Conns[i].Dialed = true
					o.Conns[i].TgtWritten += c.BytesWritten
					o.Conns[i].TgtRead += c.BytesRead
				}
			}
		}
		o.Open = vw.OpenSockets("srv")
		o.ServeOK = w.ServeReturned && w.RunningAtReturn == 0 && w.UnfinishedAtReturn == 0
		o.Recovered = hk.RecoveredPanics()
		for _, l := range hk.Logs() {
			if l.Msg == "Accept failed. Continuing to listen." {
				o.AcceptWarn = true
			}
		}
	}
}

func hostOf(hp string) string {
	h, _, _ := net.SplitHostPort(hp)
	return h
}

type tee struct {
	a *world.ConnRec
	b service.TCPConnMetrics
}

func (t *tee) AddAuthenticated(k string) { t.a.AddAuthenticated(k); t.b.AddAuthenticated(k) }
func (t *tee) AddClosed(status string, data metricsPM, d time.Duration) {
	t.a.AddClosed(status, data, d)
	t.b.AddClosed(status, data, d)
}
func (t *tee) AddProbe(status, drain string, n int64) {
	t.a.AddProbe(status, drain, n)
	t.b.AddProbe(status, drain, n)
}
