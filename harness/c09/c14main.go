package c09

import (
	"encoding/json"
	"fmt"
	"net"
	"time"

	"verif/engine"
	"verif/harness/hk"
	"verif/harness/srv"
	"verif/rt/vrt"
)

// The configuration-level part of C14: the NAT timeout the server was started with is the one in
// force for every UDP listener, in both configuration formats. One client datagram to a non-DNS
// target; its outbound socket is open one second before the timeout and closed one second after.

type natCase struct {
	Legacy  bool          `json:"legacy_format"`
	Timeout time.Duration `json:"nat_timeout"`
}

func natOutbound(w *srv.World) int {
	n := 0
	for _, u := range w.VW.UDPSockets() {
		if !u.IsClosed() && u.Owner == "srv" && u.LocalAddr().(*net.UDPAddr).Port >= 40000 {
			n++
		}
	}
	return n
}

func natTimeoutScenario(nc natCase) *engine.Scenario {
	var findings []*engine.Finding
	obs := ""
	sc := &engine.Scenario{Name: "config-nat-timeout", Opt: vrt.Options{Horizon: 24 * time.Hour}}
	sc.Body = func() {
		findings, obs = nil, ""
		add := func(sig, msg string) { findings = append(findings, &engine.Finding{Sig: sig, Msg: msg}) }
		c := srv.Cfg{Services: []srv.Svc{{Listeners: []srv.Ln{{Type: "tcp", Addr: "127.0.0.1:9000"}, {Type: "udp", Addr: "127.0.0.1:9000"}}, Keys: keys(0, 1)}}}
		if nc.Legacy {
			c = srv.Cfg{Legacy: []srv.Legacy{{Key: universe[0], Port: 9005}, {Key: universe[1], Port: 9005}}}
		}
		w := srv.NewWorld()
		w.NatTimeout = nc.Timeout
		if err := w.Boot(c, 0); err != nil {
			add("valid-config-rejected", err.Error())
			return
		}
		for _, l := range c.Listeners() {
			if l.Type != "udp" {
				continue
			}
			r := w.ProbeUDPAt(l, universe[0], 77, "203.0.113.220:31000")
			n0 := natOutbound(w)
			vrt.Sleep(nc.Timeout - time.Second)
			vrt.WaitIdle()
			n1 := natOutbound(w)
			vrt.Sleep(2 * time.Second)
			vrt.WaitIdle()
			n2 := natOutbound(w)
			obs += fmt.Sprint(r.Served, n0, n1, n2, ";")
			if !r.Served || n0 != 1 {
				add("configured-key-rejected{udp}", fmt.Sprintf("datagram on listener %s not served (served=%v, %d outbound sockets)", l.Addr, r.Served, n0))
				continue
			}
			if n1 != 1 {
				add("association-expired-early", fmt.Sprintf("server started with NAT timeout %v: the association of a non-DNS datagram on listener %s is gone %v after the datagram", nc.Timeout, l.Addr, nc.Timeout-time.Second))
			}
			if n2 != 0 {
				add("idle-association-not-reclaimed", fmt.Sprintf("server started with NAT timeout %v: the association on listener %s still holds its socket %v after the client's only datagram", nc.Timeout, l.Addr, nc.Timeout+time.Second))
			}
		}
		if err := w.Shutdown(); err != nil {
			add("stop-error", err.Error())
		}
	}
	sc.Check = func(x *vrt.Exec) (string, bool, []*engine.Finding) {
		fs := hk.Generic(x, hk.Opts{})
		fs = append(fs, findings...)
		b, _ := json.Marshal(nc)
		for _, f := range fs {
			f.Msg += " case=" + string(b)
		}
		return obs, true, fs
	}
	return sc
}

func natCases() []natCase {
	var out []natCase
	for _, legacy := range []bool{false, true} {
		for _, T := range []time.Duration{20 * time.Second, 5 * time.Minute, 10 * time.Minute} {
			out = append(out, natCase{legacy, T})
		}
	}
	return out
}

func init() {
	hk.Register("C14main", func(ctx *engine.Ctx) {
		for i, nc := range natCases() {
			if ctx.Mine(int64(i)) {
				ctx.RunCase("config-nat-timeout", "E", natTimeoutScenario(nc), nc, nil)
			}
		}
	})
	hk.Replayers["C14main"] = func(ctx *engine.Ctx, rp engine.Replay) []*engine.Finding {
		var nc natCase
		if err := json.Unmarshal(rp.Input, &nc); err != nil {
			return []*engine.Finding{{Sig: "BROKEN:bad-input", Msg: err.Error()}}
		}
		rp.Choices = nil
		return engine.ReplayCase("config-nat-timeout", natTimeoutScenario(nc), rp)
	}
}
