package c09

import (
	"encoding/json"
	"fmt"
	"time"

	"verif/engine"
	"verif/harness/hk"
	"verif/harness/srv"
	"verif/rt/vrt"
)

// The configuration-level part of C15: connections are reported whatever the configuration format
// the listener came from. Per TCP listener of the configuration: one served connection and one
// that does not authenticate; the server's metrics hold exactly one record per connection, closed
// once, with the status of its outcome, authenticated exactly when it was, and the UDP side reports
// one association for one datagram.

type repCase struct {
	Legacy bool `json:"legacy_format"`
	Both   bool `json:"both_formats_in_one_file"`
}

func reportScenario(rc repCase) *engine.Scenario {
	var findings []*engine.Finding
	obs := ""
	sc := &engine.Scenario{Name: "config-reports", Opt: vrt.Options{Horizon: time.Hour}}
	sc.Body = func() {
		findings, obs = nil, ""
		add := func(sig, msg string) { findings = append(findings, &engine.Finding{Sig: sig, Msg: msg}) }
		c := srv.Cfg{}
		if !rc.Legacy || rc.Both {
			c.Services = []srv.Svc{{Listeners: []srv.Ln{{Type: "tcp", Addr: "127.0.0.1:9000"}, {Type: "udp", Addr: "127.0.0.1:9000"}}, Keys: keys(0, 1)}}
		}
		if rc.Legacy || rc.Both {
			c.Legacy = []srv.Legacy{{Key: universe[3], Port: 9005}, {Key: universe[1], Port: 9005}}
		}
		w := srv.NewWorld()
		if err := w.Boot(c, 0); err != nil {
			add("valid-config-rejected", err.Error())
			return
		}
		for _, l := range c.Listeners() {
			k := l.Keys[0]
			if l.Type == "tcp" {
				n0 := len(w.M.TCP)
				r1 := w.ProbeTCPFrom(l, k, 31, "203.0.113.61")
				r2 := w.ProbeTCPFrom(l, foreign, 32, "203.0.113.62")
				vrt.Sleep(2 * time.Minute) // the unauthenticated one is held until the timeout
				vrt.WaitIdle()
				recs := w.M.TCP[n0:]
				obs += fmt.Sprint(r1.Served, r2.Served, len(recs), ";")
				if !r1.Served {
					add("configured-key-rejected{tcp}", fmt.Sprintf("listener %s: key %s not served", l.Addr, k.ID))
				}
				if len(recs) != 2 {
					add("open-report-count{"+fmtFormat(l, c)+"}", fmt.Sprintf("listener tcp %s (%s): 2 connections were made, %d were reported opened", l.Addr, fmtFormat(l, c), len(recs)))
					continue
				}
				want := []string{"OK", "ERR_CIPHER"}
				for i, r := range recs {
					if len(r.Closed) != 1 || r.Closed[0].Status != want[i] {
						add("close-report{"+fmtFormat(l, c)+"}", fmt.Sprintf("listener tcp %s (%s): connection %d closed reports %v, want one with status %s", l.Addr, fmtFormat(l, c), i, r.Closed, want[i]))
					}
					if (len(r.Auth) == 1) != (i == 0) {
						add("auth-report{"+fmtFormat(l, c)+"}", fmt.Sprintf("listener tcp %s (%s): connection %d authentication reports %v", l.Addr, fmtFormat(l, c), i, r.Auth))
					}
					if (len(r.Probes) == 1) != (i == 1) {
						add("probe-report{"+fmtFormat(l, c)+"}", fmt.Sprintf("listener tcp %s (%s): connection %d probe reports %v", l.Addr, fmtFormat(l, c), i, r.Probes))
					}
				}
			} else {
				n0 := len(w.M.UDP.Events)
				r := w.ProbeUDPAt(l, k, 33, "203.0.113.63:32000")
				adds := 0
				for _, ev := range w.M.UDP.Events[n0:] {
					if ev.Kind == "add" {
						adds++
					}
				}
				obs += fmt.Sprint(r.Served, adds, ";")
				if !r.Served || adds != 1 {
					add("udp-report{"+fmtFormat(l, c)+"}", fmt.Sprintf("listener udp %s (%s): datagram served=%v, %d associations reported", l.Addr, fmtFormat(l, c), r.Served, adds))
				}
			}
		}
		if err := w.Shutdown(); err != nil {
			add("stop-error", err.Error())
		}
	}
	sc.Check = func(x *vrt.Exec) (string, bool, []*engine.Finding) {
		fs := hk.Generic(x, hk.Opts{})
		fs = append(fs, findings...)
		b, _ := json.Marshal(rc)
		for _, f := range fs {
			f.Msg += " case=" + string(b)
		}
		return obs, true, fs
	}
	return sc
}

// fmtFormat names the configuration format a listener came from.
func fmtFormat(l srv.Listener, c srv.Cfg) string {
	for _, lg := range c.Legacy {
		if lg.Port == l.Port() {
			return "legacy"
		}
	}
	return "services"
}

func init() {
	cases := []repCase{{false, false}, {true, false}, {false, true}}
	hk.Register("C15main", func(ctx *engine.Ctx) {
		for i, rc := range cases {
			if ctx.Mine(int64(i)) {
				ctx.RunCase("config-reports", "E", reportScenario(rc), rc, nil)
			}
		}
	})
	// the UDP half of the same scenarios is the configuration-level part of C16
	udpOnlyReports := func(rc repCase) *engine.Scenario {
		sc := reportScenario(rc)
		inner := sc.Check
		sc.Check = func(x *vrt.Exec) (string, bool, []*engine.Finding) {
			obs, nt, fs := inner(x)
			var keep []*engine.Finding
			for _, f := range fs {
				if len(f.Sig) < 10 || (f.Sig[:10] != "open-repor" && f.Sig[:10] != "close-repo" && f.Sig[:10] != "auth-repor" && f.Sig[:10] != "probe-repo" && f.Sig[:10] != "configured") {
					keep = append(keep, f)
				}
			}
			return obs, nt, keep
		}
		return sc
	}
	hk.Register("C16main", func(ctx *engine.Ctx) {
		for i, rc := range cases {
			if ctx.Mine(int64(i)) {
				ctx.RunCase("config-reports", "E", udpOnlyReports(rc), rc, nil)
			}
		}
	})
	hk.Replayers["C16main"] = func(ctx *engine.Ctx, rp engine.Replay) []*engine.Finding {
		var rc repCase
		if err := json.Unmarshal(rp.Input, &rc); err != nil {
			return []*engine.Finding{{Sig: "BROKEN:bad-input", Msg: err.Error()}}
		}
		rp.Choices = nil
		return engine.ReplayCase("config-reports", udpOnlyReports(rc), rp)
	}
	hk.Replayers["C15main"] = func(ctx *engine.Ctx, rp engine.Replay) []*engine.Finding {
		var rc repCase
		if err := json.Unmarshal(rp.Input, &rc); err != nil {
			return []*engine.Finding{{Sig: "BROKEN:bad-input", Msg: err.Error()}}
		}
		rp.Choices = nil
		return engine.ReplayCase("config-reports", reportScenario(rc), rp)
	}
}
