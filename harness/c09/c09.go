// Package c09: a key works exactly on the listeners its configuration binds it to.
//
// Engine E over configurations (both formats and mixtures): the real server (package main)
// is started on vnet with each configuration; then for EVERY (listener, key of the universe)
// pair one TCP connection / UDP datagram is attempted. The expectation comes from the
// configuration alone: the key authenticates iff its (cipher, secret) belongs to the service
// or legacy port that owns the listener, and it is attributed to the first configured ID.
package c09

import (
	"encoding/json"
	"fmt"
	"strings"
	"time"

	"verif/engine"
	"verif/harness/hk"
	"verif/harness/srv"
	"verif/rt/vrt"
)

var universe = []srv.Key{
	{ID: "a", Cipher: "chacha20-ietf-poly1305", Secret: "s-a"},
	{ID: "b", Cipher: "aes-256-gcm", Secret: "s-b"},
	{ID: "a2", Cipher: "chacha20-ietf-poly1305", Secret: "s-a"}, // same (cipher, secret) as "a", other ID
	{ID: "c", Cipher: "aes-128-gcm", Secret: "s-c"},
	{ID: "d", Cipher: "aes-192-gcm", Secret: "s-b"}, // same secret as "b", other cipher
	{ID: "a", Cipher: "chacha20-ietf-poly1305", Secret: "s-a-second"}, // same ID and cipher as "a", another secret (a second device of one user)
	{ID: "a-alt", Cipher: "AEAD_CHACHA20_POLY1305", Secret: "s-a"},    // same cipher and secret as "a", the cipher written in its other spelling
}

var foreign = srv.Key{ID: "zz", Cipher: "aes-256-gcm", Secret: "not-configured"}

func keys(idx ...int) []srv.Key {
	var out []srv.Key
	for _, i := range idx {
		out = append(out, universe[i])
	}
	return out
}

var keySets = [][]srv.Key{keys(0), keys(1), keys(0, 1), keys(0, 2), keys(2, 0), keys(1, 4), keys(3), keys(0, 1, 3), keys(0, 2, 1), keys(0, 5), keys(0, 6, 1), keys(6, 2)}

var lnSets = [][]srv.Ln{
	{{Type: "tcp", Addr: "127.0.0.1:9000"}},
	{{Type: "udp", Addr: "127.0.0.1:9000"}},
	{{Type: "tcp", Addr: "127.0.0.1:9000"}, {Type: "udp", Addr: "127.0.0.1:9000"}},
	{{Type: "tcp", Addr: "[::]:9001"}, {Type: "tcp", Addr: "127.0.0.1:9002"}},
	{{Type: "tcp", Addr: "127.0.0.1:9002"}, {Type: "udp", Addr: "[::]:9001"}},
	{{Type: "udp", Addr: "127.0.0.1:9003"}, {Type: "udp", Addr: "127.0.0.1:9004"}},
}

var legacySets = [][]srv.Legacy{
	nil,
	{{Key: universe[0], Port: 9005}},
	{{Key: universe[0], Port: 9005}, {Key: universe[1], Port: 9005}},
	{{Key: universe[2], Port: 9005}, {Key: universe[0], Port: 9005}},
	{{Key: universe[0], Port: 9005}, {Key: universe[1], Port: 9006}},
	{{Key: universe[0], Port: 9005}, {Key: universe[1], Port: 9006}, {Key: universe[3], Port: 9005}}, // ports interleaved
}

func disjoint(a, b []srv.Ln) bool {
	for _, x := range a {
		for _, y := range b {
			if x.Type == y.Type && x.Addr == y.Addr {
				return false
			}
		}
	}
	return true
}

// Configs enumerates the configuration space.
func Configs() []srv.Cfg {
	var out []srv.Cfg
	for _, lg := range legacySets {
		if lg != nil {
			out = append(out, srv.Cfg{Legacy: lg})
		}
		for ki, ks := range keySets {
			for li, ls := range lnSets {
				out = append(out, srv.Cfg{Services: []srv.Svc{{Listeners: ls, Keys: ks}}, Legacy: lg})
				for kj, ks2 := range keySets {
					for lj, ls2 := range lnSets {
						if lj <= li || !disjoint(ls, ls2) {
							continue
						}
						_ = ki
						_ = kj
						out = append(out, srv.Cfg{Services: []srv.Svc{{Listeners: ls, Keys: ks}, {Listeners: ls2, Keys: ks2}}, Legacy: lg})
					}
				}
			}
		}
	}
	return out
}

// Matrix probes every (listener, key) pair and compares with the configuration; used by C09 and C10.
func Matrix(w *srv.World, c srv.Cfg, seedBase uint64, add func(sig, msg string)) string {
	obs := ""
	probeKeys := append(append([]srv.Key{}, universe...), foreign)
	for li, l := range c.Listeners() {
		for ki, k := range probeKeys {
			want, wantID := l.Expect(k)
			seed := seedBase + uint64(li*16+ki)
			var r srv.ProbeResult
			if l.Type == "tcp" {
				r = w.ProbeTCP(l, k, seed)
				if r.Refused {
					add("listener-refused{"+l.Type+"}", fmt.Sprintf("connection to configured listener %s %s refused", l.Type, l.Addr))
					break
				}
			} else {
				r = w.ProbeUDP(l, k, seed)
			}
			obs += fmt.Sprintf("%v%v ", r.Authed, r.Served)
			switch {
			case want && (!r.Authed || !r.Served):
				add("configured-key-rejected{"+l.Type+"}", fmt.Sprintf("key %s (%s) is configured for listener %s %s but was not served (authenticated=%v status=%s)", k.ID, k.Cipher, l.Type, l.Addr, r.Authed, r.Status))
			case want && r.AuthID != wantID:
				add("wrong-id{"+l.Type+"}", fmt.Sprintf("key %s on listener %s %s was attributed to %q, the first configured ID of that cipher and secret is %q", k.ID, l.Type, l.Addr, r.AuthID, wantID))
			case !want && (r.Authed || r.Served):
				add("foreign-key-accepted{"+l.Type+"}", fmt.Sprintf("key %s (%s/%s) does not belong to the owner of listener %s %s but authenticated as %q (served=%v)", k.ID, k.Cipher, k.Secret, l.Type, l.Addr, r.AuthID, r.Served))
			}
		}
	}
	// usage history: client P uses key X, client Q uses key Y, then P comes back with X (the
	// most-recently-used / last-client-IP optimisation must not hide a configured key)
	for _, l := range c.Listeners() {
		var distinct []srv.Key
		for _, k := range l.Keys {
			dup := false
			for _, d := range distinct {
				if d.Cipher == k.Cipher && d.Secret == k.Secret {
					dup = true
				}
			}
			if !dup {
				distinct = append(distinct, k)
			}
		}
		if len(distinct) < 2 {
			continue
		}
		x, y := distinct[0], distinct[1]
		steps := []struct {
			k    srv.Key
			from string
		}{{x, "203.0.113.201"}, {y, "203.0.113.202"}, {x, "203.0.113.201"}, {y, "203.0.113.201"}, {x, "203.0.113.202"}}
		for si, st := range steps {
			var r srv.ProbeResult
			// (the TCP clients of the history send their opening bytes in two pieces: 1, 20, 33, 49, 50 bytes first)
			w.SplitAt = []int{1, 20, 33, 49, 50}[si%5]
			if l.Type == "tcp" {
				r = w.ProbeTCPFrom(l, st.k, seedBase+9000+uint64(si), st.from)
			} else {
				r = w.ProbeUDPFrom(l, st.k, seedBase+9000+uint64(si), st.from)
			}
			w.SplitAt = 0
			if !r.Authed || !r.Served {
				add("configured-key-rejected-after-usage{"+l.Type+"}", fmt.Sprintf("listener %s %s: after clients %v used keys in turn, key %s from %s was not served (step %d, status %s)", l.Type, l.Addr, []string{"P:X", "Q:Y", "P:X", "P:Y", "Q:X"}, st.k.ID, st.from, si, r.Status))
				break
			}
		}
	}
	// one client socket that talks to two UDP listeners in turn, with a different key on the
	// second where there is one: each (listener, key) pair of the configuration works whatever
	// the client did on another listener before
	var udps []srv.Listener
	for _, l := range c.Listeners() {
		if l.Type == "udp" {
			udps = append(udps, l)
		}
	}
	for i, l1 := range udps {
		for j, l2 := range udps {
			if i == j || len(l1.Keys) == 0 || len(l2.Keys) == 0 {
				continue
			}
			x, y := l1.Keys[0], l2.Keys[len(l2.Keys)-1]
			from := fmt.Sprintf("203.0.113.210:%d", 30000+i*16+j)
			r1 := w.ProbeUDPAt(l1, x, seedBase+9500+uint64(i*16+j), from)
			r2 := w.ProbeUDPAt(l2, y, seedBase+9800+uint64(i*16+j), from)
			if !r1.Served || !r2.Served {
				add("configured-key-rejected-after-other-listener{udp}", fmt.Sprintf("one client socket (%s) used key %s on listener %s (served=%v) and then key %s on listener %s (served=%v)", from, x.ID, l1.Addr, r1.Served, y.ID, l2.Addr, r2.Served))
			}
		}
	}
	return obs
}

func scenario(c srv.Cfg) *engine.Scenario {
	var findings []*engine.Finding
	var obs string
	sc := &engine.Scenario{Name: "config-matrix", Opt: vrt.Options{Horizon: 24 * time.Hour}}
	sc.Body = func() {
		findings, obs = nil, ""
		add := func(sig, msg string) {
			for _, f := range findings {
				if f.Sig == sig {
					return
				}
			}
			findings = append(findings, &engine.Finding{Sig: sig, Msg: msg})
		}
		w := srv.NewWorld()
		if err := w.Boot(c, 0); err != nil {
			add("valid-config-rejected", "a valid configuration failed to load: "+err.Error())
			return
		}
		obs = Matrix(w, c, 1, add)
		if err := w.Shutdown(); err != nil {
			add("stop-error", err.Error())
		}
	}
	sc.Check = func(x *vrt.Exec) (string, bool, []*engine.Finding) {
		fs := hk.Generic(x, hk.Opts{})
		fs = append(fs, findings...)
		b, _ := json.Marshal(c)
		for _, f := range fs {
			f.Msg += " config=" + string(b)
		}
		return obs, true, fs
	}
	return sc
}

// afterReload: the binding of keys to listeners is that of the configuration in force: boot X,
// reload to Y (addresses change owner, formats change), then the whole matrix of Y.
type reloadCase struct {
	X   srv.Cfg `json:"boot"`
	Y   srv.Cfg `json:"reload_to"`
	Bad bool    `json:"reload_must_fail,omitempty"` // Y cannot be loaded: X stays in force
}

func reloadCases() []reloadCase {
	l0 := []srv.Ln{{Type: "tcp", Addr: "127.0.0.1:9000"}, {Type: "udp", Addr: "127.0.0.1:9000"}}
	l1 := []srv.Ln{{Type: "tcp", Addr: "127.0.0.1:9002"}, {Type: "udp", Addr: "127.0.0.1:9003"}}
	two := func(k0, k1 []srv.Key) srv.Cfg {
		return srv.Cfg{Services: []srv.Svc{{Listeners: l0, Keys: k0}, {Listeners: l1, Keys: k1}}}
	}
	leg := srv.Cfg{Legacy: []srv.Legacy{{Key: universe[1], Port: 9005}, {Key: universe[3], Port: 9006}}}
	return []reloadCase{
		{X: two(keys(0), keys(1, 3)), Y: two(keys(1, 3), keys(0))}, // the two services swap their addresses
		{X: two(keys(0, 1), keys(3)), Y: two(keys(3), keys(4))},
		{X: two(keys(0), keys(1)), Y: leg},
		{X: leg, Y: two(keys(0), keys(1))},
		// legacy to legacy: a port is dropped, the retained port gets other keys
		{X: leg, Y: srv.Cfg{Legacy: []srv.Legacy{{Key: universe[0], Port: 9005}}}},
		// a reload that cannot be loaded (unsupported cipher / unbindable address is C10's): X stays
		{X: two(keys(0), keys(1, 3)), Y: srv.Cfg{Services: []srv.Svc{{Listeners: l0, Keys: []srv.Key{{ID: "bad", Cipher: "rc4-md5", Secret: "x"}}}}}, Bad: true},
		{X: leg, Y: srv.Cfg{Legacy: []srv.Legacy{{Key: srv.Key{ID: "bad", Cipher: "rc4-md5", Secret: "x"}, Port: 9005}}}, Bad: true},
	}
}

func reloadScenario(rc reloadCase) *engine.Scenario {
	var findings []*engine.Finding
	var obs string
	sc := &engine.Scenario{Name: "config-after-reload", Opt: vrt.Options{Horizon: 24 * time.Hour}}
	sc.Body = func() {
		findings, obs = nil, ""
		add := func(sig, msg string) {
			for _, f := range findings {
				if f.Sig == sig {
					return
				}
			}
			findings = append(findings, &engine.Finding{Sig: sig, Msg: msg})
		}
		w := srv.NewWorld()
		if err := w.Boot(rc.X, 0); err != nil {
			add("valid-config-rejected", "a valid configuration failed to load: "+err.Error())
			return
		}
		failed := w.Reload(rc.Y)
		inForce := rc.Y
		switch {
		case rc.Bad && !failed:
			add("invalid-reload-accepted", "a configuration that cannot be loaded was reported as loaded")
			return
		case rc.Bad:
			inForce = rc.X
		case failed:
			add("valid-reload-failed", "the reload to a valid configuration failed")
			return
		}
		obs = Matrix(w, inForce, 1, add)
		// nothing of the other configuration is still listening
		want := map[string]bool{}
		for _, l := range inForce.Listeners() {
			want[fmt.Sprintf("%s/%d", l.Type, l.Port())] = true
		}
		for _, b := range w.Bound() {
			if !want[b] {
				add("listener-of-replaced-configuration-still-bound", fmt.Sprintf("%s is bound although the configuration in force has no such listener", b))
			}
		}
		if err := w.Shutdown(); err != nil {
			add("stop-error", err.Error())
		}
	}
	sc.Check = func(x *vrt.Exec) (string, bool, []*engine.Finding) {
		fs := hk.Generic(x, hk.Opts{})
		fs = append(fs, findings...)
		b, _ := json.Marshal(rc)
		for _, f := range fs {
			f.Msg += " case=" + string(b)
		}
		return obs, true, fs
	}
	return sc
}

// keyListConfigs: configurations that stress how a service's key list is built from the
// configuration (same secret under several ciphers, duplicated (cipher, secret) pairs in any
// order, many keys) - the configuration-level part of C01.
func keyListConfigs() []srv.Cfg {
	ln := []srv.Ln{{Type: "tcp", Addr: "127.0.0.1:9000"}, {Type: "udp", Addr: "127.0.0.1:9000"}}
	var out []srv.Cfg
	lists := [][]srv.Key{keys(5, 0, 1), keys(1, 4), keys(4, 1), keys(0, 2, 1, 4, 3), keys(3, 4, 2, 1, 0), keys(2, 0), keys(0, 1, 2, 3, 4)}
	for _, l := range lists {
		out = append(out, srv.Cfg{Services: []srv.Svc{{Listeners: ln, Keys: l}}})
		var lg []srv.Legacy
		for _, k := range l {
			lg = append(lg, srv.Legacy{Key: k, Port: 9005})
		}
		out = append(out, srv.Cfg{Legacy: lg})
	}
	// legacy format with several ports, grouped and interleaved
	out = append(out,
		srv.Cfg{Legacy: []srv.Legacy{{Key: universe[0], Port: 9005}, {Key: universe[1], Port: 9006}}},
		srv.Cfg{Legacy: []srv.Legacy{{Key: universe[0], Port: 9005}, {Key: universe[1], Port: 9006}, {Key: universe[3], Port: 9005}, {Key: universe[4], Port: 9006}}},
		srv.Cfg{Legacy: []srv.Legacy{{Key: universe[3], Port: 9007}, {Key: universe[0], Port: 9005}, {Key: universe[2], Port: 9007}}},
	)
	// two services that share keys (each service has its own key list: a key of the first service
	// is a key of the second one too)
	ln2 := []srv.Ln{{Type: "tcp", Addr: "127.0.0.1:9002"}, {Type: "udp", Addr: "127.0.0.1:9003"}}
	out = append(out,
		srv.Cfg{Services: []srv.Svc{{Listeners: ln, Keys: keys(0, 1)}, {Listeners: ln2, Keys: keys(1, 0, 3)}}},
		srv.Cfg{Services: []srv.Svc{{Listeners: ln, Keys: keys(0, 2, 1)}, {Listeners: ln2, Keys: keys(2, 4)}}},
		srv.Cfg{Services: []srv.Svc{{Listeners: ln, Keys: keys(3)}, {Listeners: ln2, Keys: keys(3)}}, Legacy: []srv.Legacy{{Key: universe[3], Port: 9005}}},
	)
	// many keys: the universe keys spread among 40 fillers
	var many []srv.Key
	for i := 0; i < 40; i++ {
		many = append(many, srv.Key{ID: fmt.Sprintf("f%d", i), Cipher: universe[i%5].Cipher, Secret: fmt.Sprintf("filler-%d", i)})
		if i%9 == 4 {
			many = append(many, universe[(i/9)%5])
		}
	}
	out = append(out, srv.Cfg{Services: []srv.Svc{{Listeners: ln, Keys: many}}})
	return out
}

// concurrent: clients using different keys of one service at the same time (one address, and
// two addresses), then every key once more: every configured key is served on its listener
// whatever the interleaving of the authentications.
func concurrent(sameIP bool) *engine.Scenario {
	c := srv.Cfg{Services: []srv.Svc{{Listeners: []srv.Ln{{Type: "tcp", Addr: "127.0.0.1:9000"}}, Keys: keys(0, 1, 3)}}}
	var res [2]srv.ProbeResult
	var after []srv.ProbeResult
	sc := &engine.Scenario{Name: fmt.Sprintf("config-concurrent[sameip=%v]", sameIP), Opt: vrt.Options{Horizon: 24 * time.Hour}}
	sc.Body = func() {
		res, after = [2]srv.ProbeResult{}, nil
		w := srv.NewWorld()
		if err := w.Boot(c, 0); err != nil {
			panic(err)
		}
		l := c.Listeners()[0]
		// earlier use, so that the entries carry client addresses
		w.ProbeTCPFrom(l, universe[3], 7001, "203.0.113.201")
		w.ProbeTCPFrom(l, universe[1], 7002, "203.0.113.202")
		ips := []string{"203.0.113.201", "203.0.113.202"}
		if sameIP {
			ips[1] = ips[0]
		}
		var ts []*vrt.Thread
		for i, k := range []srv.Key{universe[1], universe[3]} {
			i, k := i, k
			ts = append(ts, vrt.Spawn(fmt.Sprintf("client%d", i), func() {
				vrt.Yield("client")
				res[i] = w.ProbeTCPFrom(l, k, uint64(7010+i), ips[i])
			}))
		}
		vrt.Join(ts...)
		vrt.WaitIdle()
		for i, k := range []srv.Key{universe[0], universe[1], universe[3]} {
			after = append(after, w.ProbeTCPFrom(l, k, uint64(7020+i), "203.0.113.201"))
		}
		w.Shutdown()
	}
	sc.Check = func(x *vrt.Exec) (string, bool, []*engine.Finding) {
		fs := hk.Generic(x, hk.Opts{})
		if len(fs) == 0 {
			for i, r := range res {
				if !r.Authed || !r.Served {
					fs = append(fs, &engine.Finding{Sig: "configured-key-rejected{concurrent}", Msg: fmt.Sprintf("two clients using different keys of one service at the same time: client %d was not served (authenticated=%v status %s)", i, r.Authed, r.Status)})
				}
			}
			for i, r := range after {
				if !r.Authed || !r.Served {
					fs = append(fs, &engine.Finding{Sig: "configured-key-rejected{after-concurrent-use}", Msg: fmt.Sprintf("after two clients had used different keys of one service at the same time, key #%d of the service was not served any more (authenticated=%v status %s)", i, r.Authed, r.Status)})
				}
			}
		}
		return fmt.Sprint(res[0].Status, res[1].Status, len(after)), true, fs
	}
	return sc
}

func concScenarios() []*engine.Scenario {
	return []*engine.Scenario{concurrent(true), concurrent(false)}
}

// udpKeyConfigs: key lists with the same secret under several ciphers, duplicated pairs and mixed
// ciphers on UDP listeners, both formats: the configuration-level part of C03 ("some key of the
// list, whatever the list order or cipher mix").
func udpKeyConfigs() []srv.Cfg {
	var out []srv.Cfg
	udp := []srv.Ln{{Type: "udp", Addr: "127.0.0.1:9000"}}
	for _, ks := range [][]srv.Key{keys(1, 4), keys(4, 1), keys(0, 1, 4, 3), keys(3, 4, 1, 0), keys(0, 2, 1), keys(4)} {
		out = append(out, srv.Cfg{Services: []srv.Svc{{Listeners: udp, Keys: ks}}})
		var leg []srv.Legacy
		for _, k := range ks {
			leg = append(leg, srv.Legacy{Key: k, Port: 9005})
		}
		out = append(out, srv.Cfg{Legacy: leg})
	}
	// legacy format with several ports (every port has a key list of its own), grouped and interleaved
	out = append(out,
		srv.Cfg{Legacy: []srv.Legacy{{Key: universe[0], Port: 9005}, {Key: universe[1], Port: 9006}}},
		srv.Cfg{Legacy: []srv.Legacy{{Key: universe[3], Port: 9007}, {Key: universe[0], Port: 9005}, {Key: universe[4], Port: 9007}, {Key: universe[1], Port: 9006}}},
	)
	// two services that share a key
	out = append(out, srv.Cfg{Services: []srv.Svc{
		{Listeners: udp, Keys: keys(1, 0)},
		{Listeners: []srv.Ln{{Type: "udp", Addr: "127.0.0.1:9001"}}, Keys: keys(0, 3)},
	}})
	// two services, the second one repeating a secret of the first under another cipher
	out = append(out, srv.Cfg{Services: []srv.Svc{
		{Listeners: udp, Keys: keys(1, 0)},
		{Listeners: []srv.Ln{{Type: "udp", Addr: "127.0.0.1:9001"}}, Keys: keys(4, 3)},
	}})
	return out
}

// udpOnly keeps the findings about datagrams.
func udpOnly(sc *engine.Scenario) *engine.Scenario {
	inner := sc.Check
	sc.Name = "config-keylist-udp"
	sc.Check = func(x *vrt.Exec) (string, bool, []*engine.Finding) {
		obs, nt, fs := inner(x)
		var keep []*engine.Finding
		for _, f := range fs {
			if strings.Contains(f.Sig, "{udp}") || strings.HasPrefix(f.Sig, "crash{") || strings.HasPrefix(f.Sig, "deadlock") || strings.HasPrefix(f.Sig, "valid-config-rejected") {
				keep = append(keep, f)
			}
		}
		return obs, nt, keep
	}
	return sc
}

func init() {
	hk.Register("C03main", func(ctx *engine.Ctx) {
		for i, c := range udpKeyConfigs() {
			if ctx.Mine(int64(i)) {
				ctx.RunCase("config-keylist-udp", "E", udpOnly(scenario(c)), c, nil)
			}
		}
	})
	hk.Replayers["C03main"] = func(ctx *engine.Ctx, rp engine.Replay) []*engine.Finding {
		var c srv.Cfg
		if err := json.Unmarshal(rp.Input, &c); err != nil {
			return []*engine.Finding{{Sig: "BROKEN:bad-input", Msg: err.Error()}}
		}
		rp.Choices = nil
		return engine.ReplayCase("config-keylist-udp", udpOnly(scenario(c)), rp)
	}
	hk.Register("C01main", func(ctx *engine.Ctx) {
		for i, c := range keyListConfigs() {
			if ctx.Mine(int64(i)) {
				ctx.RunCase("config-keylist", "E", scenario(c), c, nil)
			}
		}
	})
	hk.Replayers["C01main"] = func(ctx *engine.Ctx, rp engine.Replay) []*engine.Finding {
		var c srv.Cfg
		if err := json.Unmarshal(rp.Input, &c); err != nil {
			return []*engine.Finding{{Sig: "BROKEN:bad-input", Msg: err.Error()}}
		}
		rp.Choices = nil
		return engine.ReplayCase("config-keylist", scenario(c), rp)
	}
	hk.Register("C09", func(ctx *engine.Ctx) {
		bound := 1
		if ctx.Tier == "thorough" {
			bound = 2
		}
		for _, sc := range concScenarios() {
			engine.ExploreS(ctx, sc, engine.SConfig{Bound: bound, Shard: ctx.Shard, NShards: ctx.NShards, Deadline: ctx.Deadline})
		}
		for i, rc := range reloadCases() {
			if ctx.Mine(int64(i)) {
				ctx.RunCase("config-after-reload", "E", reloadScenario(rc), rc, nil)
			}
		}
		cfgs := Configs()
		step := 3
		if ctx.Tier == "thorough" {
			step = 1
		}
		n := 0
		for i := 0; i < len(cfgs); i += step {
			if !ctx.Mine(int64(i / step)) {
				continue
			}
			if ctx.Expired() {
				ctx.Incomplete("config-matrix", "config-matrix: time cap hit at configuration %d of %d", i, len(cfgs))
				break
			}
			ctx.RunCase("config-matrix", "E", scenario(cfgs[i]), cfgs[i], nil)
			n++
		}
		ctx.Res.Note("config-matrix: every %d-th of %d configurations, all (listener, key) pairs each", step, len(cfgs))
	})
	hk.Replayers["C09"] = func(ctx *engine.Ctx, rp engine.Replay) []*engine.Finding {
		if strings.HasPrefix(rp.Unit, "config-concurrent") {
			return engine.ReplayScenario(concScenarios(), rp)
		}
		if rp.Unit == "config-after-reload" {
			var rc reloadCase
			if err := json.Unmarshal(rp.Input, &rc); err != nil {
				return []*engine.Finding{{Sig: "BROKEN:bad-input", Msg: err.Error()}}
			}
			rp.Choices = nil
			return engine.ReplayCase("config-after-reload", reloadScenario(rc), rp)
		}
		var c srv.Cfg
		if err := json.Unmarshal(rp.Input, &c); err != nil {
			return []*engine.Finding{{Sig: "BROKEN:bad-input", Msg: err.Error()}}
		}
		rp.Choices = nil
		return engine.ReplayCase("config-matrix", scenario(c), rp)
	}
}
