// Package c07: a client handshake is accepted at most once within the replay history.
//
//	cache-seq   (Q) every sequence up to depth d over {Add(h1..h5), Add(h6 colliding with h1),
//	            Resize(0..3)} from every initial capacity 0..3 on the real ReplayCache, in
//	            lock-step with the reference model of the statement.
//	cache-scale (E) capacities up to 20000: 2.5 N distinct handshakes, then the recent ones
//	            re-presented, against the same reference; construction limits.
//	cache-conc  (S) concurrent Add/Add/Add and Add/Add/Resize under every schedule.
//
// The server-level clauses (any listener, any service, across reloads, probe handling) are
// checked by the package-main harness (unit srv-replay, same property id).
package c07

import (
	"encoding/json"
	"fmt"

	"github.com/Jigsaw-Code/outline-ss-server/service"

	"verif/engine"
	"verif/harness/hk"
	"verif/rt/vrt"
)

// handshakes: (id, salt); h[0..4] have pairwise different checksums, h[5] collides with h[0]
// (two salt bytes at positions equal mod 4 swapped: the 32-bit XOR fold is identical).
func handshake(i int) (string, []byte, int) {
	salt := make([]byte, 32)
	for j := range salt {
		salt[j] = byte(j * 3)
	}
	if i == 5 {
		salt[0], salt[4] = 0x11, 0xA0 // h0 has them the other way round: same fold
		salt[8] = 0x77
		salt[1] = 0
		return "key", salt, 0
	}
	salt[0], salt[4] = 0xA0, 0x11
	salt[8] = 0x77
	salt[1] = byte(i) // distinct checksum class per i
	return "key", salt, i
}

// refModel is the statement: a log of checked handshakes with the capacity in force.
type refModel struct {
	cap int
	log []refEntry
}

type refEntry struct {
	h      int // handshake index
	class  int // checksum class
	minCap int // minimum capacity in force at this and every later checked handshake (forgetting happens when handshakes are added, not when the capacity changes)
}

// must: the implementation has to refuse h now. may: it is allowed to refuse h now.
func (m *refModel) verdict(h, class int) (must, may bool) {
	if m.cap == 0 {
		return false, false
	}
	n := len(m.log)
	for i := n - 1; i >= 0; i-- {
		e := m.log[i]
		if e.class == class {
			may = true // seen before (or colliding with something seen): refusing is never a violation
		}
		if e.h == h && n-i <= e.minCap {
			must = true
		}
	}
	return
}

func (m *refModel) add(h, class int) {
	if m.cap == 0 {
		return // history disabled: nothing is checked, nothing is remembered
	}
	for i := range m.log {
		if m.cap < m.log[i].minCap {
			m.log[i].minCap = m.cap
		}
	}
	m.log = append(m.log, refEntry{h, class, m.cap})
}

// resize: a change of capacity forgets nothing by itself (a history switched off and on again
// with nothing checked in between still knows what it knew); what must be remembered is bounded by
// the capacities in force when later handshakes are checked.
func (m *refModel) resize(n int) {
	m.cap = n
}

type seqCase struct {
	Cap int   `json:"initial_capacity"`
	Ops []int `json:"ops"` // 0..5 Add(h_i), 6..9 Resize(op-6)
}

func runSeq(ctx *engine.Ctx, unit string, sc seqCase) {
	cache := service.NewReplayCache(sc.Cap)
	ref := &refModel{cap: sc.Cap}
	var obs []byte
	for step, op := range sc.Ops {
		if op >= 6 {
			if err := cache.Resize(op - 6); err != nil {
				ctx.Fail(unit, "resize-failed", fmt.Sprintf("Resize(%d) failed: %v", op-6, err), sc, nil)
				return
			}
			ref.resize(op - 6)
			obs = append(obs, 'r')
			continue
		}
		id, salt, class := handshake(op)
		must, may := ref.verdict(op, class)
		got := cache.Add(id, salt)
		if got {
			obs = append(obs, 'A')
		} else {
			obs = append(obs, 'R')
		}
		if must && got {
			ctx.Fail(unit, "replay-accepted", fmt.Sprintf("step %d: handshake h%d is among the most recent N checked handshakes but was accepted again; case=%+v", step, op, sc), sc, nil)
			return
		}
		if !got && !may {
			ctx.Fail(unit, "fresh-refused", fmt.Sprintf("step %d: handshake h%d was refused although no remembered handshake shares its checksum (capacity %d); case=%+v", step, op, ref.cap, sc), sc, nil)
			return
		}
		ref.add(op, class)
	}
	ctx.Record(unit, "Q", fmt.Sprint(sc.Cap, string(obs)), true, int64(len(sc.Ops)), int64(len(sc.Ops)))
}

func cacheSeq(ctx *engine.Ctx) {
	depth := 7
	if ctx.Tier == "thorough" {
		depth = 8
	}
	const alpha = 10
	total := int64(1)
	for i := 0; i < depth; i++ {
		total *= alpha
	}
	ops := make([]int, depth)
	var idx int64
	for cap0 := 0; cap0 <= 3; cap0++ {
		for code := int64(0); code < total; code++ {
			if !ctx.Mine(idx) {
				idx++
				continue
			}
			idx++
			if code&0xfff == 0 && ctx.Expired() {
				ctx.Incomplete("cache-seq", "cache-seq: time cap hit at sequence %d of %d (depth %d)", code, total, depth)
				return
			}
			c := code
			for i := 0; i < depth; i++ {
				ops[i] = int(c % alpha)
				c /= alpha
			}
			sc := seqCase{Cap: cap0, Ops: ops}
			hk.Guard(ctx, "cache-seq", sc, func() { runSeq(ctx, "cache-seq", sc) })
			if idx == 1 {
				ctx.Res.Sample(map[string]any{"unit": "cache-seq", "case": seqCase{cap0, append([]int(nil), ops...)}})
			}
		}
	}
	ctx.Res.Note("cache-seq: all %d^%d sequences x 4 initial capacities", alpha, depth)
}

// ---- handshakes that differ in the access key only ----

// idHandshakes: four key ids x eight salts. The ids differ only beyond their fourth byte, are a
// prefix of each other, or are empty; under the documented checksum (XOR fold of id and salt
// bytes into four lanes) all eight are pairwise different, which foldOK re-checks.
var idNames = []string{"user-0", "user-1", "user", ""}

func idHandshake(i int) (string, []byte) {
	salt := make([]byte, 32)
	for j := range salt {
		salt[j] = byte(j*5 + 1)
	}
	// salt variants: 0 the base, 1 differs from it in byte 2, 2 only in byte 20, 3 only in the last byte
	switch i / 4 {
	case 1:
		salt[2] ^= 0x41
	case 2:
		salt[20] ^= 0x52
	case 3:
		salt[31] ^= 0x63
	case 4, 5, 6, 7:
		// one value folded in at position 0, 3, 5 or 6: four different lanes of the documented
		// checksum, but equal lanes for a fold with another period (2, 3, 5 or 6)
		salt[[]int{0, 3, 5, 6}[i/4-4]] ^= 0x77
	}
	return idNames[i%4], salt
}

func fold(id string, salt []byte) (f [4]byte) {
	for i := 0; i < len(id); i++ {
		f[i&3] ^= id[i]
	}
	for i, v := range salt {
		f[i&3] ^= v
	}
	return
}

type idCase struct {
	Cap int   `json:"capacity"`
	Ops []int `json:"ops"` // Add(idHandshake(op))
}

func runIDSeq(ctx *engine.Ctx, sc idCase) {
	cache := service.NewReplayCache(sc.Cap)
	ref := &refModel{cap: sc.Cap}
	obs := ""
	for step, op := range sc.Ops {
		id, salt := idHandshake(op)
		must, may := ref.verdict(op, op)
		got := cache.Add(id, salt)
		obs += fmt.Sprint(got)[:1]
		if must && got {
			ctx.Fail("cache-ids", "replay-accepted", fmt.Sprintf("step %d: handshake (key %q, salt %d) is among the most recent N checked but was accepted again; case=%+v", step, id, op/4, sc), sc, nil)
			return
		}
		if !got && !may {
			ctx.Fail("cache-ids", "fresh-refused", fmt.Sprintf("step %d: handshake (key %q, salt %d) was refused although it was never presented and no remembered handshake shares its checksum; case=%+v", step, id, op/4, sc), sc, nil)
			return
		}
		ref.add(op, op)
	}
	ctx.Record("cache-ids", "Q", fmt.Sprint(sc.Cap, obs), true, int64(len(sc.Ops)), int64(len(sc.Ops)))
}

func cacheIDs(ctx *engine.Ctx) {
	nh := 32
	seen := map[[4]byte]int{}
	for i := 0; i < nh; i++ {
		id, salt := idHandshake(i)
		f := fold(id, salt)
		if j, dup := seen[f]; dup {
			ctx.Incomplete("cache-ids", "cache-ids: handshakes %d and %d collide under the documented checksum, unit skipped", j, i)
			return
		}
		seen[f] = i
	}
	depth := 4
	if ctx.Tier == "thorough" {
		depth = 5
	}
	total := int64(1)
	for i := 0; i < depth; i++ {
		total *= int64(nh)
	}
	var idx int64
	for _, cp := range []int{2, 64} {
		for code := int64(0); code < total; code++ {
			idx++
			if !ctx.Mine(idx) {
				continue
			}
			ops := make([]int, depth)
			c := code
			for i := range ops {
				ops[i] = int(c % int64(nh))
				c /= int64(nh)
			}
			sc := idCase{Cap: cp, Ops: ops}
			hk.Guard(ctx, "cache-ids", sc, func() { runIDSeq(ctx, sc) })
		}
	}
	ctx.Res.Note("cache-ids: all %d^%d sequences over 4 key ids x %d salts, capacities 2 and 64", nh, depth, nh/4)
}

type scaleCase struct {
	N      int  `json:"capacity"`
	Limits bool `json:"limits,omitempty"` // the construction / resize limits instead of a scale run
}

func saltN(i int) []byte {
	salt := make([]byte, 32)
	// distinct checksums for i < 2^24: fold positions 1,2,3 carry i, position 0 carries a constant
	salt[1], salt[2], salt[3] = byte(i), byte(i>>8), byte(i>>16)
	salt[0] = 0x5c
	return salt
}

func runScale(ctx *engine.Ctx, sc scaleCase) {
	n := sc.N
	cache := service.NewReplayCache(n)
	total := n*5/2 + 1
	fail := func(sig, msg string) { ctx.Fail("cache-scale", sig, msg+fmt.Sprintf(" capacity=%d", n), sc, nil) }
	// log of checked handshakes (indices); obligations as in the statement with constant capacity
	var log []int
	check := func(i int, fresh bool) bool {
		must := false
		for k := len(log) - 1; k >= 0 && len(log)-k <= n; k-- {
			if log[k] == i {
				must = true
			}
		}
		got := cache.Add("key", saltN(i))
		log = append(log, i)
		if must && got {
			fail("replay-accepted", fmt.Sprintf("handshake %d is among the most recent %d checked but was accepted", i, n))
			return false
		}
		if fresh && !got {
			fail("fresh-refused", fmt.Sprintf("never-seen handshake %d refused", i))
			return false
		}
		return true
	}
	for i := 0; i < total; i++ {
		if !check(i, true) {
			return
		}
	}
	// re-present the most recent ones, newest first; each presentation is itself a checked handshake
	for k := 0; k < n; k++ {
		if !check(total-1-k, false) {
			return
		}
	}
	if !check(total+7, true) {
		return
	}
	ctx.Record("cache-scale", "E", fmt.Sprint(n), true, int64(len(log)), int64(len(log)))
}

// runLimits: construction and resize limits.
func runLimits(ctx *engine.Ctx) {
	func() {
		defer func() {
			if recover() == nil {
				ctx.Fail("cache-scale", "over-capacity-constructed", "NewReplayCache(20001) did not refuse", scaleCase{Limits: true}, nil)
			}
		}()
		service.NewReplayCache(service.MaxCapacity + 1)
	}()
	c := service.NewReplayCache(10)
	if err := c.Resize(service.MaxCapacity + 1); err == nil {
		ctx.Fail("cache-scale", "over-capacity-resized", "Resize(20001) did not fail", scaleCase{Limits: true}, nil)
	}
	if err := c.Resize(service.MaxCapacity); err != nil {
		ctx.Fail("cache-scale", "max-capacity-refused", "Resize(20000) failed: "+err.Error(), scaleCase{Limits: true}, nil)
	}
	var nilCache *service.ReplayCache
	if !nilCache.Add("k", saltN(1)) || !nilCache.Add("k", saltN(1)) {
		ctx.Fail("cache-scale", "nil-cache-refused", "a nil (disabled) cache refused a handshake", scaleCase{Limits: true}, nil)
	}
	ctx.Record("cache-scale", "E", "limits", true, 4, 4)
}

func cacheScale(ctx *engine.Ctx) {
	caps := []int{1, 2, 3, 10, 100, 1000, 20000}
	for i, n := range caps {
		if !ctx.Mine(int64(i)) {
			continue
		}
		sc := scaleCase{N: n}
		hk.Guard(ctx, "cache-scale", sc, func() { runScale(ctx, sc) })
	}
	if ctx.Mine(7) {
		hk.Guard(ctx, "cache-scale", scaleCase{Limits: true}, func() { runLimits(ctx) })
	}
}

func concScenario(variant int) *engine.Scenario {
	var got [3]bool
	sc := &engine.Scenario{Name: fmt.Sprintf("cache-conc-%d", variant)}
	sc.Body = func() {
		got = [3]bool{}
		cache := service.NewReplayCache(2)
		id, s0, _ := handshake(0)
		_, s1, _ := handshake(1)
		var ts []*vrt.Thread
		ts = append(ts, vrt.Spawn("add-a", func() { got[0] = cache.Add(id, s0) }))
		ts = append(ts, vrt.Spawn("add-b", func() { got[1] = cache.Add(id, s0) }))
		if variant == 0 {
			ts = append(ts, vrt.Spawn("add-c", func() { got[2] = cache.Add(id, s1) }))
		} else {
			ts = append(ts, vrt.Spawn("resize", func() { cache.Resize(3); got[2] = true }))
		}
		vrt.Join(ts...)
	}
	sc.Check = func(x *vrt.Exec) (string, bool, []*engine.Finding) {
		fs := hk.Generic(x, hk.Opts{})
		if x.Crash == "" && !x.Deadlock {
			if got[0] == got[1] {
				fs = append(fs, &engine.Finding{Sig: "concurrent-duplicates", Msg: fmt.Sprintf("two concurrent presentations of one handshake: accepted=%v/%v, want exactly one", got[0], got[1])})
			}
			if !got[2] {
				fs = append(fs, &engine.Finding{Sig: "fresh-refused", Msg: "the unrelated handshake was refused"})
			}
		}
		return fmt.Sprint(got), true, fs
	}
	return sc
}

// fullSetScenario: the active set is exactly full, two new handshakes are checked at the same
// time, then the most recent handshake from before is presented again: it is among the most
// recent N checked ones and must be refused whatever the interleaving.
func fullSetScenario(n int) *engine.Scenario {
	var replayAccepted, freshOK bool
	sc := &engine.Scenario{Name: fmt.Sprintf("cache-conc-full-%d", n)}
	sc.Body = func() {
		replayAccepted, freshOK = false, true
		cache := service.NewReplayCache(n)
		for i := 0; i < n; i++ {
			cache.Add("key", saltN(i))
		}
		var ts []*vrt.Thread
		for j := 0; j < 2; j++ {
			j := j
			ts = append(ts, vrt.Spawn(fmt.Sprintf("add%d", j), func() {
				if !cache.Add("key", saltN(100+j)) {
					freshOK = false
				}
			}))
		}
		vrt.Join(ts...)
		// log: 0..n-1, 100, 101 -> the last n entries include n-1 as long as n >= 3
		replayAccepted = cache.Add("key", saltN(n-1))
	}
	sc.Check = func(x *vrt.Exec) (string, bool, []*engine.Finding) {
		fs := hk.Generic(x, hk.Opts{})
		if x.Crash == "" && !x.Deadlock {
			if replayAccepted {
				fs = append(fs, &engine.Finding{Sig: "replay-accepted", Msg: fmt.Sprintf("history %d: after two handshakes were checked at the same time on a full active set, handshake %d (among the most recent %d checked) was accepted again", n, n-1, n)})
			}
			if !freshOK {
				fs = append(fs, &engine.Finding{Sig: "fresh-refused", Msg: "a never-seen handshake was refused"})
			}
		}
		return fmt.Sprint(replayAccepted, freshOK), true, fs
	}
	return sc
}

func concScenarios() []*engine.Scenario {
	return []*engine.Scenario{concScenario(0), concScenario(1), fullSetScenario(3), fullSetScenario(4)}
}

func init() {
	hk.Register("C07", func(ctx *engine.Ctx) {
		cacheScale(ctx)
		svcResize(ctx)
		for _, sc := range concScenarios() {
			engine.ExploreS(ctx, sc, engine.SConfig{Bound: -1, Shard: ctx.Shard, NShards: ctx.NShards, Deadline: ctx.Deadline})
		}
		cacheIDs(ctx)
		cacheSeq(ctx)
	})
	hk.Replayers["C07"] = func(ctx *engine.Ctx, rp engine.Replay) []*engine.Finding {
		sub := &engine.Ctx{Res: engine.NewResult("C07", ctx.Tier)}
		switch rp.Unit {
		case "cache-seq":
			var sc seqCase
			json.Unmarshal(rp.Input, &sc)
			hk.Guard(sub, "cache-seq", sc, func() { runSeq(sub, "cache-seq", sc) })
			return sub.Res.Findings
		case "cache-ids":
			var sc idCase
			json.Unmarshal(rp.Input, &sc)
			hk.Guard(sub, "cache-ids", sc, func() { runIDSeq(sub, sc) })
			return sub.Res.Findings
		case "svc-resize":
			return replaySvc(rp)
		case "cache-scale":
			var sc scaleCase
			json.Unmarshal(rp.Input, &sc)
			if sc.Limits {
				hk.Guard(sub, "cache-scale", sc, func() { runLimits(sub) })
			} else {
				hk.Guard(sub, "cache-scale", sc, func() { runScale(sub, sc) })
			}
			return sub.Res.Findings
		}
		return engine.ReplayScenario(concScenarios(), rp)
	}
}
