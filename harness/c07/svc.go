package c07

import (
	"encoding/json"
	"fmt"
	"time"

	"github.com/Jigsaw-Code/outline-ss-server/service"

	"verif/engine"
	"verif/harness/hk"
	"verif/harness/world"
	"verif/rt/vnet"
	"verif/rt/vrt"
)

// svc-resize (E): services built with NewShadowsocksService around one shared ReplayCache (the
// way an embedding application wires them), the history resized between the construction of
// the first and of the second service. Whatever the capacity was when a service was built, a
// handshake presented while the capacity in force is N > 0 is refused when it comes again
// within the next N handshakes, on the same and on the other service.
type svcCase struct {
	Cap0 int `json:"initial_history"` // capacity when the first service is built
	Cap1 int `json:"resized_history"` // capacity after the resize (in force for all handshakes)
	On   int `json:"replay_on"`       // 0: replay on the service the original was presented to; 1: on the other one
	Orig int `json:"original_on"`     // service the original is presented to
}

func svcScenario(c svcCase) *engine.Scenario {
	type res struct{ got, dials int }
	var first, replay, fresh res
	sc := &engine.Scenario{Name: "svc-resize", Opt: vrt.Options{Horizon: time.Hour}}
	sc.Body = func() {
		first, replay, fresh = res{}, res{}, res{}
		vnet.Reset()
		hk.ResetLogs()
		key := world.MakeKey("k", world.Ciphers[0], "svc-secret")
		cache := service.NewReplayCache(c.Cap0)
		var lns []*vnet.TCPListener
		var serves []*vrt.Thread
		build := func(addr string) {
			svc, err := service.NewShadowsocksService(service.WithCiphers(world.NewList([]*world.Key{key})), service.WithReplayCache(&cache), service.WithNatTimeout(time.Minute))
			if err != nil {
				panic(err)
			}
			ln, err := vnet.ListenTCP("tcp", world.TCPAddr(addr))
			if err != nil {
				panic(err)
			}
			lns = append(lns, ln)
			serves = append(serves, vrt.Spawn("serve-"+addr, func() {
				service.StreamServe(service.WrapStreamAcceptFunc(ln.AcceptTCP), svc.HandleStream)
			}))
		}
		addrs := []string{"127.0.0.1:9100", "127.0.0.1:9101"}
		build(addrs[0])
		if err := cache.Resize(c.Cap1); err != nil {
			panic(err)
		}
		build(addrs[1])
		tgt := world.StartTarget("93.184.216.34:80", func(t *world.Target, i int, cn *vnet.TCPConn) {
			cn.Write([]byte("reply from the target"))
			t.ReadAll(i, cn)
			cn.Close()
		})
		present := func(addr string, seed uint64, n int) res {
			before := len(tgt.Accepted)
			cl := world.DialTo(fmt.Sprintf("203.0.113.%d:0", 60+n), addr)
			rd := vrt.Spawn("reader", func() { cl.ReadAll() })
			cl.Send(world.EncodeStream(key, seed, world.Addr("93.184.216.34:80"), []byte("hello")), 0)
			vrt.Sleep(time.Second)
			cl.CloseWrite()
			vrt.Join(rd)
			cl.Close()
			vrt.WaitIdle()
			return res{got: len(cl.Got), dials: len(tgt.Accepted) - before}
		}
		first = present(addrs[c.Orig], 500, 0)
		replay = present(addrs[(c.Orig+c.On)%2], 500, 1)
		fresh = present(addrs[(c.Orig+c.On)%2], 501, 2)
		for _, ln := range lns {
			ln.Close()
		}
		vrt.Join(serves...)
		tgt.Ln.Close()
	}
	sc.Check = func(x *vrt.Exec) (string, bool, []*engine.Finding) {
		fs := hk.Generic(x, hk.Opts{})
		add := func(sig, format string, a ...any) {
			fs = append(fs, &engine.Finding{Sig: sig, Msg: fmt.Sprintf(format, a...) + fmt.Sprintf(" case=%+v", c)})
		}
		if len(fs) == 0 {
			if first.dials != 1 || first.got == 0 {
				add("first-presentation-not-served", "first presentation: %d dials, %d bytes", first.dials, first.got)
			}
			if c.Cap1 > 0 && (replay.dials != 0 || replay.got != 0) {
				add("replay-accepted{service-level}", "history resized from %d to %d between the construction of two services sharing it: the replayed handshake was served (%d dials, %d bytes to the client)", c.Cap0, c.Cap1, replay.dials, replay.got)
			}
			if fresh.dials != 1 || fresh.got == 0 {
				add("fresh-refused{service-level}", "a never-seen handshake was not served: %d dials, %d bytes", fresh.dials, fresh.got)
			}
		}
		return fmt.Sprint(first, replay, fresh), true, fs
	}
	return sc
}

func svcCases() []svcCase {
	var out []svcCase
	for _, c0 := range []int{0, 3, 10} {
		for _, c1 := range []int{0, 3, 10} {
			for orig := 0; orig < 2; orig++ {
				for on := 0; on < 2; on++ {
					out = append(out, svcCase{Cap0: c0, Cap1: c1, On: on, Orig: orig})
				}
			}
		}
	}
	return out
}

func svcResize(ctx *engine.Ctx) {
	for i, c := range svcCases() {
		if ctx.Mine(int64(i)) {
			ctx.RunCase("svc-resize", "E", svcScenario(c), c, nil)
		}
	}
}

func replaySvc(rp engine.Replay) []*engine.Finding {
	var c svcCase
	if err := json.Unmarshal(rp.Input, &c); err != nil {
		return []*engine.Finding{{Sig: "BROKEN:bad-input", Msg: err.Error()}}
	}
	rp.Choices = nil
	return engine.ReplayCase("svc-resize", svcScenario(c), rp)
}
