// Package c07srv: the server-level clauses of C07 on the real server (package main): a
// handshake accepted once is refused when presented again on the same listener, on another
// listener of the same service, on another service of the process, after a successful
// reload and after a failed reload; it is then handled exactly like an invalid probe
// (nothing written, no target contacted, probe reported). A fresh handshake is accepted.
package c07srv

import (
	"encoding/json"
	"fmt"
	"syscall"
	"time"

	"verif/engine"
	"verif/harness/hk"
	"verif/harness/srv"
	"verif/harness/world"
	"verif/rt/vnet"
	"verif/rt/vrt"
)

var (
	kA = srv.Key{ID: "a", Cipher: "chacha20-ietf-poly1305", Secret: "s-a"}
	kB = srv.Key{ID: "b", Cipher: "aes-192-gcm", Secret: "s-b"}
)

func cfgLegacy(kA srv.Key, withB bool) srv.Cfg {
	c := srv.Cfg{Legacy: []srv.Legacy{{Key: kA, Port: 9000}, {Key: kA, Port: 9001}, {Key: kA, Port: 9002}}}
	if withB {
		c.Legacy = append(c.Legacy, srv.Legacy{Key: kB, Port: 9001})
	}
	return c
}

func cfg(kA srv.Key, withB bool) srv.Cfg {
	keys2 := []srv.Key{kA}
	if withB {
		keys2 = []srv.Key{kB, kA}
	}
	return srv.Cfg{Services: []srv.Svc{
		{Listeners: []srv.Ln{{Type: "tcp", Addr: "127.0.0.1:9000"}, {Type: "tcp", Addr: "127.0.0.1:9002"}}, Keys: []srv.Key{kA}},
		{Listeners: []srv.Ln{{Type: "tcp", Addr: "127.0.0.1:9001"}}, Keys: keys2},
	}}
}

type caseT struct {
	Cipher  int    `json:"cipher"`
	Where   string `json:"replay_on"` // same | other-listener | other-service
	Between string `json:"between"`   // none | reload | failed-reload | other-traffic
	History int    `json:"history"`
	Pre     int    `json:"fillers_before"` // distinct handshakes presented on the first service before the original
	Legacy  bool   `json:"legacy_format"`  // the deprecated per-port key format instead of services
	EmptyID bool   `json:"empty_key_id,omitempty"` // the access key's id is the empty string (accepted by the configuration check)
}

type present struct {
	status   string
	authed   bool
	got      int
	dials    int
	probes   int
	refused  bool
}

func presentOn(w *srv.World, port int, key *world.Key, seed uint64, n int) present {
	p, _ := presentRaw(w, port, world.EncodeStream(key, seed, world.Addr(srv.TargetTCP), []byte("hello")), n)
	return p
}

// presentRaw sends wire as a client stream and also returns what the server sent back.
func presentRaw(w *srv.World, port int, wire []byte, n int) (present, []byte) {
	from := fmt.Sprintf("203.0.113.%d:0", 10+n)
	c, err := vnet.EnvDial(world.TCPAddr(from), fmt.Sprintf("127.0.0.1:%d", port))
	if err != nil {
		return present{refused: true}, nil
	}
	cl := &world.Client{C: c, EOFAt: -1, RSTAt: -1}
	before := dials()
	nrec := len(w.M.TCP)
	rd := vrt.Spawn("reader", func() { cl.ReadAll() })
	cl.Send(wire, 0)
	vrt.Sleep(time.Second)
	cl.CloseWrite()
	vrt.Join(rd)
	cl.Close()
	vrt.WaitIdle()
	p := present{got: len(cl.Got), dials: dials() - before}
	for _, r := range w.M.TCP[nrec:] {
		if r.Remote == c.LocalAddr().String() {
			p.status, p.authed, p.probes = r.Status(), len(r.Auth) > 0, len(r.Probes)
		}
	}
	return p, cl.Got
}

// ---- C08 on the whole server: reflection across listeners, formats and reloads ----

type reflCase struct {
	Cipher int    `json:"cipher"`
	Shape  string `json:"shape"` // mixed: one key on a services listener and on a legacy port | reload-to-legacy | reload-to-services
}

func reflScenario(rc reflCase) *engine.Scenario {
	var findings []*engine.Finding
	obs := ""
	sc := &engine.Scenario{Name: "srv-reflection", Opt: vrt.Options{Horizon: 24 * time.Hour}}
	sc.Body = func() {
		findings, obs = nil, ""
		add := func(sig, msg string) { findings = append(findings, &engine.Finding{Sig: sig, Msg: msg}) }
		k := srv.Key{ID: "refl", Cipher: world.Ciphers[rc.Cipher], Secret: "r3flect"}
		other := srv.Key{ID: "other", Cipher: world.Ciphers[(rc.Cipher+1)%4], Secret: "0ther"}
		services := srv.Cfg{Services: []srv.Svc{{Listeners: []srv.Ln{{Type: "tcp", Addr: "127.0.0.1:9000"}}, Keys: []srv.Key{other, k}}}}
		legacy := srv.Cfg{Legacy: []srv.Legacy{{Key: k, Port: 9005}, {Key: other, Port: 9005}}}
		mixed := srv.Cfg{Services: services.Services, Legacy: legacy.Legacy}
		boot, recordOn, reflectOn := mixed, []int{9000, 9005}, []int{9000, 9005}
		var reloadTo *srv.Cfg
		switch rc.Shape {
		case "reload-to-legacy":
			boot, recordOn, reflectOn, reloadTo = services, []int{9000}, []int{9005}, &legacy
		case "reload-to-services":
			boot, recordOn, reflectOn, reloadTo = legacy, []int{9005}, []int{9000}, &services
		}
		w := srv.NewWorld()
		if err := w.Boot(boot, 100); err != nil {
			add("valid-config-rejected", err.Error())
			return
		}
		key := world.MakeKey(k.ID, k.Cipher, k.Secret)
		var recs [][]byte
		for i, port := range recordOn {
			p, out := presentRaw(w, port, world.EncodeStream(key, uint64(500+i), world.Addr(srv.TargetTCP), []byte("hello")), i)
			if p.status != "OK" || len(out) < 50 {
				add("connection-failed", fmt.Sprintf("recording connection on port %d: status %s, %d bytes from the server", port, p.status, len(out)))
				return
			}
			recs = append(recs, out)
		}
		if reloadTo != nil && w.Reload(*reloadTo) {
			add("valid-reload-failed", "the reload failed")
			return
		}
		n := 10
		for ri, rec := range recs {
			for _, port := range reflectOn {
				n++
				p, out := presentRaw(w, port, rec, n)
				obs += fmt.Sprint(p.status, len(out), p.dials, ";")
				if p.status != "ERR_REPLAY_SERVER" || len(out) != 0 || p.dials != 0 || p.authed {
					add("reflection-status{"+p.status+"}", fmt.Sprintf("what the server sent on port %d under key %s/%s, presented as a new connection on port %d (%s): status %s, %d bytes written back, %d dials, authenticated=%v; want ERR_REPLAY_SERVER and nothing else", recordOn[ri], k.Cipher, k.ID, port, rc.Shape, p.status, len(out), p.dials, p.authed))
				}
			}
		}
		if err := w.Shutdown(); err != nil {
			add("stop-error", err.Error())
		}
	}
	sc.Check = func(x *vrt.Exec) (string, bool, []*engine.Finding) {
		fs := hk.Generic(x, hk.Opts{})
		fs = append(fs, findings...)
		return obs, true, fs
	}
	return sc
}

func reflCases() []reflCase {
	var out []reflCase
	for c := 0; c < 3; c++ { // (aes-128-gcm's 16-byte salt cannot carry the mark)
		for _, sh := range []string{"mixed", "reload-to-legacy", "reload-to-services"} {
			out = append(out, reflCase{c, sh})
		}
	}
	return out
}

func dials() int {
	n := 0
	for _, ev := range vrt.Cur().Events {
		if ev.Kind == "srv.tcp.out" {
			n++
		}
	}
	return n
}

func scenario(c caseT) *engine.Scenario {
	var first, replay, fresh present
	var bootErr string
	sc := &engine.Scenario{Name: "srv-replay", Opt: vrt.Options{Horizon: 24 * time.Hour}}
	sc.Body = func() {
		first, replay, fresh, bootErr = present{}, present{}, present{}, ""
		w := srv.NewWorld()
		k := kA
		if c.EmptyID {
			k.ID = ""
		}
		mk := func(withB bool) srv.Cfg { return cfg(k, withB) }
		if c.Legacy {
			mk = func(withB bool) srv.Cfg { return cfgLegacy(k, withB) }
		}
		if err := w.Boot(mk(false), c.History); err != nil {
			bootErr = err.Error()
			return
		}
		key := world.MakeKey(k.ID, k.Cipher, k.Secret)
		for i := 0; i < c.Pre; i++ {
			presentOn(w, 9000, key, uint64(700+i), 40+i)
		}
		first = presentOn(w, 9000, key, 500, 0)
		switch c.Between {
		case "reload":
			w.Reload(mk(true))
		case "failed-reload":
			w.VW.BindErr["tcp/127.0.0.1:9009"] = syscall.EADDRINUSE
			bad := mk(true)
			bad.Services = append(bad.Services, srv.Svc{Listeners: []srv.Ln{{Type: "tcp", Addr: "127.0.0.1:9009"}}, Keys: []srv.Key{kB}})
			w.Reload(bad)
		case "other-traffic":
			for i := 0; i < 5; i++ {
				presentOn(w, 9001, key, uint64(600+i), 20+i)
			}
		}
		port := map[string]int{"same": 9000, "other-listener": 9002, "other-service": 9001}[c.Where]
		replay = presentOn(w, port, key, 500, 1)
		fresh = presentOn(w, port, key, 501, 2)
		w.Shutdown()
	}
	sc.Check = func(x *vrt.Exec) (string, bool, []*engine.Finding) {
		fs := hk.Generic(x, hk.Opts{})
		add := func(sig, format string, a ...any) {
			fs = append(fs, &engine.Finding{Sig: sig, Msg: fmt.Sprintf(format, a...) + fmt.Sprintf(" case=%+v", c)})
		}
		if x.Crash == "" && !x.Deadlock {
			if bootErr != "" {
				add("boot-failed", "%s", bootErr)
			}
			if first.status != "OK" {
				add("first-presentation{"+first.status+"}", "the first presentation was not served: %+v", first)
			}
			if c.History > 0 {
				if replay.status != "ERR_REPLAY_CLIENT" {
					add("replay-accepted{"+c.Where+","+c.Between+"}", "the replayed handshake got status %s (authenticated=%v), want ERR_REPLAY_CLIENT", replay.status, replay.authed)
				} else if replay.got != 0 || replay.dials != 0 || replay.probes != 1 || replay.authed {
					add("replay-not-absorbed", "refused replay: %d bytes written, %d dials, %d probe reports, authenticated report=%v", replay.got, replay.dials, replay.probes, replay.authed)
				}
			}
			if fresh.status != "OK" {
				add("fresh-refused{"+fresh.status+"}", "a never-seen handshake of the same key was not served: %+v", fresh)
			}
		}
		return fmt.Sprint(first.status, replay.status, fresh.status), true, fs
	}
	return sc
}

func cases() []caseT {
	var out []caseT
	for _, where := range []string{"same", "other-listener", "other-service"} {
		for _, b := range []string{"none", "reload", "failed-reload", "other-traffic"} {
			for _, h := range []int{1, 10, 20000} {
				if h == 1 && b == "other-traffic" {
					continue // five other handshakes push it out of a history of one: no obligation
				}
				out = append(out, caseT{Where: where, Between: b, History: h})
				if h == 10 {
					out = append(out, caseT{Where: where, Between: b, History: h, Legacy: true})
					if b == "none" || b == "reload" {
						out = append(out, caseT{Where: where, Between: b, History: h, EmptyID: true}, caseT{Where: where, Between: b, History: h, EmptyID: true, Legacy: true})
					}
				}
				if h <= 10 && b != "other-traffic" {
					// fill the history first, so that the original lands right after a rotation
					out = append(out, caseT{Where: where, Between: b, History: h, Pre: h}, caseT{Where: where, Between: b, History: h, Pre: 2*h + 1})
				}
			}
		}
	}
	return out
}

func init() {
	hk.Register("C08main", func(ctx *engine.Ctx) {
		for i, rc := range reflCases() {
			if ctx.Mine(int64(i)) {
				ctx.RunCase("srv-reflection", "E", reflScenario(rc), rc, nil)
			}
		}
	})
	hk.Replayers["C08main"] = func(ctx *engine.Ctx, rp engine.Replay) []*engine.Finding {
		var rc reflCase
		if err := json.Unmarshal(rp.Input, &rc); err != nil {
			return []*engine.Finding{{Sig: "BROKEN:bad-input", Msg: err.Error()}}
		}
		rp.Choices = nil
		return engine.ReplayCase("srv-reflection", reflScenario(rc), rp)
	}
	hk.Register("C07main", func(ctx *engine.Ctx) {
		for i, c := range cases() {
			if ctx.Mine(int64(i)) {
				ctx.RunCase("srv-replay", "E", scenario(c), c, nil)
			}
		}
	})
	// C06's replay clause on the whole server, both configuration formats
	hk.Register("C06main", func(ctx *engine.Ctx) {
		i := 0
		for _, c := range cases() {
			if c.History != 10 {
				continue // (with and without earlier handshakes that fill the history: the replayed one is always within it)
			}
			if ctx.Mine(int64(i)) {
				ctx.RunCase("srv-replay-probe", "E", scenario(c), c, nil)
			}
			i++
		}
	})
	hk.Replayers["C06main"] = func(ctx *engine.Ctx, rp engine.Replay) []*engine.Finding {
		var c caseT
		if err := json.Unmarshal(rp.Input, &c); err != nil {
			return []*engine.Finding{{Sig: "BROKEN:bad-input", Msg: err.Error()}}
		}
		rp.Choices = nil
		return engine.ReplayCase("srv-replay-probe", scenario(c), rp)
	}
	hk.Replayers["C07main"] = func(ctx *engine.Ctx, rp engine.Replay) []*engine.Finding {
		var c caseT
		if err := json.Unmarshal(rp.Input, &c); err != nil {
			return []*engine.Finding{{Sig: "BROKEN:bad-input", Msg: err.Error()}}
		}
		rp.Choices = nil
		return engine.ReplayCase("srv-replay", scenario(c), rp)
	}
}
