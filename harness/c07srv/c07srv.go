// Package c07srv: the server-level clauses of C07 on the real server (package main): a
// handshake accepted once is refused when presented again on the same listener, on another
// listener of the same service, on another service of the process, after a successful
// reload and after a failed reload; it is then handled exactly like an invalid probe
// (nothing written, no target contacted, probe reported). A fresh handshake is accepted.
package c07srv

import (
	"encoding/json"
	"fmt"
	"syscall"
	"time"

	"verif/engine"
	"verif/harness/hk"
	"verif/harness/srv"
	"verif/harness/world"
	"verif/rt/vnet"
	"verif/rt/vrt"
)

var (
	kA = srv.Key{ID: "a", Cipher: "chacha20-ietf-poly1305", Secret: "s-a"}
	kB = srv.Key{ID: "b", Cipher: "aes-192-gcm", Secret: "s-b"}
)

func cfgLegacy(kA srv.Key, withB bool) srv.Cfg {
	c := srv.Cfg{Legacy: []srv.Legacy{{Key: kA, Port: 9000}, {Key: kA, Port: 9001}, {Key: kA, Port: 9002}}}
	if withB {
		c.Legacy = append(c.Legacy, srv.Legacy{Key: kB, Port: 9001})
	}
	return c
}

func cfg(kA srv.Key, withB bool) srv.Cfg {
	keys2 := []srv.Key{kA}
	if withB {
		keys2 = []srv.Key{kB, kA}
	}
	return srv.Cfg{Services: []srv.Svc{
		{Listeners: []srv.Ln{{Type: "tcp", Addr: "127.0.0.1:9000"}, {Type: "tcp", Addr: "127.0.0.1:9002"}}, Keys: []srv.Key{kA}},
		{Listeners: []srv.Ln{{Type: "tcp", Addr: "127.0.0.1:9001"}}, Keys: keys2},
	}}
}

type caseT struct {
	Cipher  int    `json:"cipher"`
	Where   string `json:"replay_on"` // same | other-listener | other-service
	Between string `json:"between"`   // none | reload | failed-reload | other-traffic
	History int    `json:"history"`
	Pre     int    `json:"fillers_before"` // distinct handshakes presented on the first service before the original
	Legacy  bool   `json:"legacy_format"`  // the deprecated per-port key format instead of services
	EmptyID bool   `json:"empty_key_id,omitempty"` // the access key's id is the empty string (accepted by the configuration check)
}

type present struct {
	status   string
	authed   bool
	got      int
	dials    int
	probes   int
	refused  bool
}

func presentOn(w *srv.World, port int, key *world.Key, seed uint64, n int) present {
	from := fmt.Sprintf("203.0.113.%d:0", 10+n)
	c, err := vnet.EnvDial(world.TCPAddr(from), fmt.Sprintf("127.0.0.1:%d", port))
	if err != nil {
		return present{refused: true}
	}
	cl := &world.Client{C: c, EOFAt: -1, RSTAt: -1}
	before := dials()
	nrec := len(w.M.TCP)
	wire := world.EncodeStream(key, seed, world.Addr(srv.TargetTCP), []byte("hello"))
	rd := vrt.Spawn("reader", func() { cl.ReadAll() })
	cl.Send(wire, 0)
	vrt.Sleep(time.Second)
	cl.CloseWrite()
	vrt.Join(rd)
	cl.Close()
	vrt.WaitIdle()
	p := present{got: len(cl.Got), dials: dials() - before}
	for _, r := range w.M.TCP[nrec:] {
		if r.Remote == c.LocalAddr().String() {
			p.status, p.authed, p.probes = r.Status(), len(r.Auth) > 0, len(r.Probes)
		}
	}
	return p
}

func dials() int {
	n := 0
	for _, ev := range vrt.Cur().Events {
		if ev.Kind == "srv.tcp.out" {
			n++
		}
	}
	return n
}

func scenario(c caseT) *engine.Scenario {
	var first, replay, fresh present
	var bootErr string
	sc := &engine.Scenario{Name: "srv-replay", Opt: vrt.Options{Horizon: 24 * time.Hour}}
	sc.Body = func() {
		first, replay, fresh, bootErr = present{}, present{}, present{}, ""
		w := srv.NewWorld()
		k := kA
		if c.EmptyID {
			k.ID = ""
		}
		mk := func(withB bool) srv.Cfg { return cfg(k, withB) }
		if c.Legacy {
			mk = func(withB bool) srv.Cfg { return cfgLegacy(k, withB) }
		}
		if err := w.Boot(mk(false), c.History); err != nil {
			bootErr = err.Error()
			return
		}
		key := world.MakeKey(k.ID, k.Cipher, k.Secret)
		for i := 0; i < c.Pre; i++ {
			presentOn(w, 9000, key, uint64(700+i), 40+i)
		}
		first = presentOn(w, 9000, key, 500, 0)
		switch c.Between {
		case "reload":
			w.Reload(mk(true))
		case "failed-reload":
			w.VW.BindErr["tcp/127.0.0.1:9009"] = syscall.EADDRINUSE
			bad := mk(true)
			bad.Services = append(bad.Services, srv.Svc{Listeners: []srv.Ln{{Type: "tcp", Addr: "127.0.0.1:9009"}}, Keys: []srv.Key{kB}})
			w.Reload(bad)
		case "other-traffic":
			for i := 0; i < 5; i++ {
				presentOn(w, 9001, key, uint64(600+i), 20+i)
			}
		}
		port := map[string]int{"same": 9000, "other-listener": 9002, "other-service": 9001}[c.Where]
		replay = presentOn(w, port, key, 500, 1)
		fresh = presentOn(w, port, key, 501, 2)
		w.Shutdown()
	}
	sc.Check = func(x *vrt.Exec) (string, bool, []*engine.Finding) {
		fs := hk.Generic(x, hk.Opts{})
		add := func(sig, format string, a ...any) {
			fs = append(fs, &engine.Finding{Sig: sig, Msg: fmt.Sprintf(format, a...) + fmt.Sprintf(" case=%+v", c)})
		}
		if x.Crash == "" && !x.Deadlock {
			if bootErr != "" {
				add("boot-failed", "%s", bootErr)
			}
			if first.status != "OK" {
				add("first-presentation{"+first.status+"}", "the first presentation was not served: %+v", first)
			}
			if c.History > 0 {
				if replay.status != "ERR_REPLAY_CLIENT" {
					add("replay-accepted{"+c.Where+","+c.Between+"}", "the replayed handshake got status %s (authenticated=%v), want ERR_REPLAY_CLIENT", replay.status, replay.authed)
				} else if replay.got != 0 || replay.dials != 0 || replay.probes != 1 || replay.authed {
					add("replay-not-absorbed", "refused replay: %d bytes written, %d dials, %d probe reports, authenticated report=%v", replay.got, replay.dials, replay.probes, replay.authed)
				}
			}
			if fresh.status != "OK" {
				add("fresh-refused{"+fresh.status+"}", "a never-seen handshake of the same key was not served: %+v", fresh)
			}
		}
		return fmt.Sprint(first.status, replay.status, fresh.status), true, fs
	}
	return sc
}

func cases() []caseT {
	var out []caseT
	for _, where := range []string{"same", "other-listener", "other-service"} {
		for _, b := range []string{"none", "reload", "failed-reload", "other-traffic"} {
			for _, h := range []int{1, 10, 20000} {
				if h == 1 && b == "other-traffic" {
					continue // five other handshakes push it out of a history of one: no obligation
				}
				out = append(out, caseT{Where: where, Between: b, History: h})
				if h == 10 {
					out = append(out, caseT{Where: where, Between: b, History: h, Legacy: true})
					if b == "none" || b == "reload" {
						out = append(out, caseT{Where: where, Between: b, History: h, EmptyID: true}, caseT{Where: where, Between: b, History: h, EmptyID: true, Legacy: true})
					}
				}
				if h <= 10 && b != "other-traffic" {
					// fill the history first, so that the original lands right after a rotation
					out = append(out, caseT{Where: where, Between: b, History: h, Pre: h}, caseT{Where: where, Between: b, History: h, Pre: 2*h + 1})
				}
			}
		}
	}
	return out
}

func init() {
	hk.Register("C07main", func(ctx *engine.Ctx) {
		for i, c := range cases() {
			if ctx.Mine(int64(i)) {
				ctx.RunCase("srv-replay", "E", scenario(c), c, nil)
			}
		}
	})
	// C06's replay clause on the whole server, both configuration formats
	hk.Register("C06main", func(ctx *engine.Ctx) {
		i := 0
		for _, c := range cases() {
			if c.History != 10 {
				continue // (with and without earlier handshakes that fill the history: the replayed one is always within it)
			}
			if ctx.Mine(int64(i)) {
				ctx.RunCase("srv-replay-probe", "E", scenario(c), c, nil)
			}
			i++
		}
	})
	hk.Replayers["C06main"] = func(ctx *engine.Ctx, rp engine.Replay) []*engine.Finding {
		var c caseT
		if err := json.Unmarshal(rp.Input, &c); err != nil {
			return []*engine.Finding{{Sig: "BROKEN:bad-input", Msg: err.Error()}}
		}
		rp.Choices = nil
		return engine.ReplayCase("srv-replay-probe", scenario(c), rp)
	}
	hk.Replayers["C07main"] = func(ctx *engine.Ctx, rp engine.Replay) []*engine.Finding {
		var c caseT
		if err := json.Unmarshal(rp.Input, &c); err != nil {
			return []*engine.Finding{{Sig: "BROKEN:bad-input", Msg: err.Error()}}
		}
		rp.Choices = nil
		return engine.ReplayCase("srv-replay", scenario(c), rp)
	}
}
