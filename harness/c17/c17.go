// Package c17: tunnel time equals the time each client actually had a tunnel open.
//
//	tt-seq  (Q) all operation sequences to depth d over {TCP open+authenticate / close, UDP
//	        association add / remove for (client IP, key) pairs, unauthenticated TCP open/close,
//	        clock ticks, scrapes} on the real Prometheus serviceMetrics with the virtual clock;
//	        reference: per (IP, key) the union of open intervals; after every scrape the reported
//	        seconds per key equal the sum over IPs, per-location totals equal per-key totals.
//	tt-conc (S) scrape racing open/close and clock ticks, and scrape racing scrape, with the
//	        clock read as a scheduling point.
package c17

import (
	"encoding/json"
	"errors"
	"fmt"
	"math"
	"net"
	"time"

	"github.com/Jigsaw-Code/outline-ss-server/ipinfo"
	outline_prometheus "github.com/Jigsaw-Code/outline-ss-server/prometheus"
	"github.com/Jigsaw-Code/outline-ss-server/service"
	"github.com/Jigsaw-Code/outline-ss-server/service/metrics"
	"github.com/prometheus/client_golang/prometheus"
	dto "github.com/prometheus/client_model/go"

	"verif/engine"
	"verif/harness/hk"
	"verif/harness/promx"
	"verif/harness/tcpx"
	"verif/harness/world"
	"verif/rt/vrt"
)

type fakeDB struct{}

func (fakeDB) GetIPInfo(ip net.IP) (ipinfo.IPInfo, error) {
	if ip.Equal(net.ParseIP("198.51.100.9")) {
		// a client the database fails for: its tunnels count all the same (location XD)
		return ipinfo.IPInfo{}, errors.New("database lookup failed")
	}
	if ip.Equal(net.ParseIP("93.184.216.5")) {
		return ipinfo.IPInfo{CountryCode: "US", ASN: ipinfo.ASN{Number: 64500, Organization: "ExampleNet"}}, nil
	}
	return ipinfo.IPInfo{CountryCode: "DE", ASN: ipinfo.ASN{Number: 64501, Organization: "BeispielNetz"}}, nil
}

var clientIPs = []string{"93.184.216.5", "2606:4700::99", "198.51.100.9"}
var locOf = []string{"US", "DE", "XD"}

type pair struct {
	ip  int
	key string
}

// the (client IP, key) pairs of the alphabet
var pairs = []pair{{0, "k1"}, {1, "k1"}, {0, "k2"}, {0, ""}}

// ops: 0..3 openTCP(pair), 4..7 closeTCP(pair), 8..9 openUDP(pair 0,1), 10..11 closeUDP, 12 tick 1s, 13 tick 2.5s, 14 scrape, 15 unauthenticated open+close
const (
	opOpenTCP   = 0
	opCloseTCP  = 4
	opOpenUDP   = 8
	opCloseUDP  = 10
	opTick1     = 12
	opTick2     = 13
	opScrape    = 14
	opUnauth    = 15
	nOpsNoEmpty = 16
	// third pass: a client whose location lookup fails (pair pE) and a key without id over UDP (pair pU)
	opOpenTCPE  = 16
	opCloseTCPE = 17
	opOpenUDPE  = 18
	opCloseUDPE = 19
	opOpenUDPU  = 20
	opCloseUDPU = 21
)

var (
	pE = pair{2, "k1"}
	pU = pair{0, ""}
)

type seqCase struct {
	Ops   []int `json:"ops"`
	Empty bool  `json:"with_empty_key_id"`
	NoDB  bool  `json:"no_location_database,omitempty"` // the collectors are built without a database: every client's location is ""
}

func addrOf(ip int, port int) net.Addr {
	return &net.TCPAddr{IP: net.ParseIP(clientIPs[ip]), Port: port}
}

type refClient struct {
	count int
	since time.Duration
}

type model struct {
	now     time.Duration
	clients map[pair]*refClient
	perKey  map[string]float64
	perLoc  map[string]float64
	nodb    bool // no location database: every location is ""
}

func (m *model) open(p pair) {
	c := m.clients[p]
	if c == nil {
		c = &refClient{}
		m.clients[p] = c
	}
	if c.count == 0 {
		c.since = m.now
	}
	c.count++
}

func (m *model) close(p pair) {
	c := m.clients[p]
	c.count--
	if c.count == 0 {
		d := (m.now - c.since).Seconds()
		m.perKey[p.key] += d
		m.perLoc[m.loc(p.ip)] += d
	}
}

func (m *model) loc(ip int) string {
	if m.nodb {
		return ""
	}
	return locOf[ip]
}

// totals up to now (open tunnels included)
func (m *model) totals() (map[string]float64, map[string]float64) {
	k, l := map[string]float64{}, map[string]float64{}
	for a, b := range m.perKey {
		k[a] = b
	}
	for a, b := range m.perLoc {
		l[a] = b
	}
	for p, c := range m.clients {
		if c.count > 0 {
			d := (m.now - c.since).Seconds()
			k[p.key] += d
			l[m.loc(p.ip)] += d
		}
	}
	return k, l
}

func scrape(sm prometheus.Collector) (map[string]float64, map[string]float64, error) {
	samples, _, err := promx.Gather(sm)
	if err != nil {
		return nil, nil, err
	}
	k, l := map[string]float64{}, map[string]float64{}
	for _, s := range samples {
		switch s.Name {
		case "tunnel_time_seconds":
			k[s.Labels["access_key"]] += s.Value
		case "tunnel_time_seconds_per_location":
			l[s.Labels["location"]] += s.Value
		}
	}
	return k, l, nil
}

func eq(a, b float64) bool { return math.Abs(a-b) < 1e-6 }

func compare(got, want map[string]float64) string {
	for k, v := range want {
		if !eq(got[k], v) {
			return fmt.Sprintf("%q: reported %.3f s, actual %.3f s", k, got[k], v)
		}
	}
	for k, v := range got {
		if !eq(want[k], v) {
			return fmt.Sprintf("%q: reported %.3f s, actual %.3f s", k, v, want[k])
		}
	}
	return ""
}

func runSeq(ctx *engine.Ctx, sc seqCase) {
	vrt.SetPassNow(vrt.Epoch)
	var db ipinfo.IPInfoMap = fakeDB{}
	if sc.NoDB {
		db = nil
	}
	smx, err := outline_prometheus.NewServiceMetrics(db)
	if err != nil {
		panic(err)
	}
	var sm service.ServiceMetrics = smx
	m := &model{clients: map[pair]*refClient{}, perKey: map[string]float64{}, perLoc: map[string]float64{}, nodb: sc.NoDB}
	openTCP := map[pair][]service.TCPConnMetrics{}
	openUDP := map[pair][]service.UDPConnMetrics{}
	port := 1000
	fail := func(sig, msg string) { ctx.Fail("tt-seq", sig, msg+fmt.Sprintf(" case=%+v", sc), sc, nil) }
	check := func(step int) bool {
		k, l, err := scrape(smx)
		if err != nil {
			fail("gather-error", err.Error())
			return false
		}
		wk, wl := m.totals()
		if d := compare(k, wk); d != "" {
			fail("tunnel-time-per-key", fmt.Sprintf("after step %d: key %s", step, d))
			return false
		}
		if d := compare(l, wl); d != "" {
			fail("tunnel-time-per-location", fmt.Sprintf("after step %d: location %s", step, d))
			return false
		}
		return true
	}
	obs := ""
	for i, op := range sc.Ops {
		switch {
		case op == opOpenTCPE || (op >= opOpenTCP && op < opOpenTCP+4):
			p := pE
			if op != opOpenTCPE {
				p = pairs[op-opOpenTCP]
			}
			port++
			c := world.NewMemConn(nil, addrOf(p.ip, port))
			cm := sm.AddOpenTCPConnection(c)
			cm.AddAuthenticated(p.key)
			openTCP[p] = append(openTCP[p], cm)
			m.open(p)
		case op == opCloseTCPE || (op >= opCloseTCP && op < opCloseTCP+4):
			p := pE
			if op != opCloseTCPE {
				p = pairs[op-opCloseTCP]
			}
			if len(openTCP[p]) == 0 {
				continue
			}
			cm := openTCP[p][0]
			openTCP[p] = openTCP[p][1:]
			cm.AddClosed("OK", metrics.ProxyMetrics{ClientProxy: 10, ProxyTarget: 5, TargetProxy: 7, ProxyClient: 12}, time.Second)
			m.close(p)
		case op == opOpenUDPE || op == opOpenUDPU || (op >= opOpenUDP && op < opOpenUDP+2):
			var p pair
			switch op {
			case opOpenUDPE:
				p = pE
			case opOpenUDPU:
				p = pU
			default:
				p = pairs[op-opOpenUDP]
			}
			port++
			ua := &net.UDPAddr{IP: net.ParseIP(clientIPs[p.ip]), Port: port}
			openUDP[p] = append(openUDP[p], sm.AddUDPNatEntry(ua, p.key))
			m.open(p)
		case op == opCloseUDPE || op == opCloseUDPU || (op >= opCloseUDP && op < opCloseUDP+2):
			var p pair
			switch op {
			case opCloseUDPE:
				p = pE
			case opCloseUDPU:
				p = pU
			default:
				p = pairs[op-opCloseUDP]
			}
			if len(openUDP[p]) == 0 {
				continue
			}
			cm := openUDP[p][0]
			openUDP[p] = openUDP[p][1:]
			cm.RemoveNatEntry()
			m.close(p)
		case op == opTick1:
			vrt.Advance(time.Second)
			m.now += time.Second
		case op == opTick2:
			vrt.Advance(2500 * time.Millisecond)
			m.now += 2500 * time.Millisecond
		case op == opScrape:
			if !check(i) {
				return
			}
			obs += "s"
		case op == opUnauth:
			port++
			c := world.NewMemConn(nil, addrOf(0, port))
			cm := sm.AddOpenTCPConnection(c)
			cm.AddProbe("ERR_CIPHER", "timeout", 50)
			cm.AddClosed("ERR_CIPHER", metrics.ProxyMetrics{ClientProxy: 50}, time.Second)
		}
	}
	vrt.Advance(time.Second)
	m.now += time.Second
	if !check(len(sc.Ops)) {
		return
	}
	wk, _ := m.totals()
	ctx.Record("tt-seq", "Q", fmt.Sprint(sc.Ops, wk), len(wk) > 0, int64(len(sc.Ops)), int64(len(sc.Ops)))
}

func ttSeq(ctx *engine.Ctx) {
	depth := 5
	if ctx.Tier == "thorough" {
		depth = 6
	}
	// the alphabet without the empty-key pair, and (at depth-1) with it
	for pass := 0; pass < 4; pass++ {
		var alpha []int
		d := depth
		for op := 0; op < nOpsNoEmpty; op++ {
			isEmpty := op == opOpenTCP+3 || op == opCloseTCP+3
			if (pass == 0 || pass == 3) && isEmpty {
				continue
			}
			if pass == 1 && (op == opOpenTCP+2 || op == opCloseTCP+2 || op == opOpenUDP+1 || op == opCloseUDP+1 || op == opUnauth || op == opTick2) {
				continue // smaller alphabet around the empty key id
			}
			alpha = append(alpha, op)
		}
		if pass == 1 {
			d = depth - 1
		}
		if pass == 3 {
			// the same alphabet as pass 0 on collectors built without a location database
			d = depth - 1
		}
		if pass == 2 {
			// a client whose lookup fails, and a key without id over UDP next to TCP
			alpha = []int{opOpenTCPE, opCloseTCPE, opOpenUDPE, opCloseUDPE, opOpenUDPU, opCloseUDPU, opOpenTCP + 3, opCloseTCP + 3, opTick1, opScrape}
			d = depth - 1
		}
		total := int64(1)
		for i := 0; i < d; i++ {
			total *= int64(len(alpha))
		}
		for code := int64(0); code < total; code++ {
			if !ctx.Mine(code) {
				continue
			}
			if code&0x3ff == 0 && ctx.Expired() {
				ctx.Incomplete("tt-seq", "tt-seq: time cap hit at sequence %d of %d (depth %d, pass %d)", code, total, d, pass)
				return
			}
			ops := make([]int, d)
			c := code
			for i := 0; i < d; i++ {
				ops[i] = alpha[c%int64(len(alpha))]
				c /= int64(len(alpha))
			}
			sc := seqCase{Ops: ops, Empty: pass == 1, NoDB: pass == 3}
			hk.Guard(ctx, "tt-seq", sc, func() { runSeq(ctx, sc) })
			if code == 0 {
				ctx.Res.Sample(map[string]any{"unit": "tt-seq", "case": sc})
			}
		}
		ctx.Res.Note("tt-seq pass %d: all %d^%d sequences", pass, len(alpha), d)
	}
}

// ---- through the real TCP handler ----

// ttHandler: connection outcome classes through the real stream handler with the real
// collectors; afterwards the reported tunnel time per key must equal the time during which
// connections that really authenticated were open (authentication report to close report) -
// in particular refused replays and probes, which the server keeps open to drain them,
// contribute nothing.
func ttHandler(ctx *engine.Ctx) {
	specs := []tcpx.Spec{
		{Cache: 10, RealMetrics: true, Conns: []tcpx.ConnSpec{{Class: "ok", Cipher: 0, Up: 10, Down: 10}, {Class: "replay-client", Cipher: 0, Up: 10, Down: 10}}},
		{Cache: 0, RealMetrics: true, Conns: []tcpx.ConnSpec{{Class: "ok", Cipher: 1, Up: 10, Down: 100}, {Class: "replay-server", Cipher: 1}}},
		{RealMetrics: true, Conns: []tcpx.ConnSpec{{Class: "relay-client", Cipher: 2, Up: 5, Down: 5}, {Class: "cipher", Cipher: 0}, {Class: "bad-addr", Cipher: 3, Var: 1}}},
		{RealMetrics: true, Conns: []tcpx.ConnSpec{{Class: "relay-target", Cipher: 0}, {Class: "refused", Cipher: 1, Up: 3}}},
		// authenticated, then silent for 10 s before the address arrives (valid / malformed): the
		// tunnel is open from the moment the client is authenticated
		{RealMetrics: true, Conns: []tcpx.ConnSpec{{Class: "stall", Cipher: 0, Up: 10, Down: 10}, {Class: "stall-bad-addr", Cipher: 1}}},
		{RealMetrics: true, Conns: []tcpx.ConnSpec{{Class: "stall-bad-addr", Cipher: 2}, {Class: "ok", Cipher: 3, Up: 4, Down: 4}, {Class: "stall", Cipher: 3, Up: 1, Down: 1}}},
	}
	for i, s := range specs {
		if !ctx.Mine(int64(i)) {
			continue
		}
		s := s
		o := &tcpx.Obs{}
		sc := &engine.Scenario{Name: "tt-handler", Opt: vrt.Options{Horizon: 2 * time.Hour}}
		sc.Body = tcpx.Build(s, o, func() service.ServiceMetrics {
			m, err := outline_prometheus.NewServiceMetrics(fakeDB{})
			if err != nil {
				panic(err)
			}
			return m
		})
		sc.Check = func(x *vrt.Exec) (string, bool, []*engine.Finding) {
			fs := hk.Generic(x, hk.Opts{})
			if len(fs) > 0 || o.Metrics == nil {
				return "generic", true, fs
			}
			want := map[string]float64{}
			for _, co := range o.Conns {
				if co == nil || co.Rec == nil || !co.WantAuth || len(co.Rec.Closed) != 1 || len(co.Rec.AuthAt) == 0 {
					continue
				}
				from := co.Rec.AuthAt[0]
				if co.AuthSentAt >= 0 {
					// the client is authenticated at the instant its authenticating bytes arrive, whenever
					// the server chooses to report it
					from = co.AuthSentAt
				}
				want[co.Key.ID] += (co.Rec.Closed[0].At - from).Seconds()
			}
			got, _, err := scrape(o.Metrics.(prometheus.Collector))
			if err != nil {
				fs = append(fs, &engine.Finding{Sig: "gather-error", Msg: err.Error()})
			} else if d := compare(got, want); d != "" {
				for k, v := range want {
					if v == 0 && got[k] == 0 {
						delete(want, k)
					}
				}
				if d2 := compareNonZero(got, want); d2 != "" {
					fs = append(fs, &engine.Finding{Sig: "tunnel-time-through-handler", Msg: "after real connections through the stream handler: key " + d2 + fmt.Sprintf(" spec=%s", s.String())})
				}
			}
			return fmt.Sprint(got), true, fs
		}
		ctx.RunCase("tt-handler", "E", sc, s, nil)
	}
}

// compareNonZero ignores keys whose expected and reported time are both zero (a zero-valued
// series may or may not exist).
func compareNonZero(got, want map[string]float64) string {
	for k, v := range want {
		if !eq(got[k], v) {
			return fmt.Sprintf("%q: reported %.3f s, actual %.3f s", k, got[k], v)
		}
	}
	for k, v := range got {
		if !eq(want[k], v) {
			return fmt.Sprintf("%q: reported %.3f s, actual %.3f s", k, v, want[k])
		}
	}
	return ""
}

// ---- concurrency ----

func collect(sm prometheus.Collector) (map[string]float64, map[string]float64) {
	ch := make(chan prometheus.Metric, 4096)
	sm.Collect(ch)
	close(ch)
	k, l := map[string]float64{}, map[string]float64{}
	for mt := range ch {
		var d dto.Metric
		if err := mt.Write(&d); err != nil || d.Counter == nil {
			continue
		}
		desc := mt.Desc().String()
		lab := map[string]string{}
		for _, lp := range d.Label {
			lab[lp.GetName()] = lp.GetValue()
		}
		switch {
		case contains(desc, `"tunnel_time_seconds_per_location"`):
			l[lab["location"]] += d.Counter.GetValue()
		case contains(desc, `"tunnel_time_seconds"`):
			k[lab["access_key"]] += d.Counter.GetValue()
		}
	}
	return k, l
}

func contains(s, sub string) bool {
	for i := 0; i+len(sub) <= len(s); i++ {
		if s[i:i+len(sub)] == sub {
			return true
		}
	}
	return false
}

func concScenario(variant int) *engine.Scenario {
	var final map[string]float64
	var finalLoc map[string]float64
	var want float64
	var negatives []string
	var ivs [][4]time.Time // per tunnel of variant 3: earliest/latest possible open, earliest/latest possible close
	sc := &engine.Scenario{Name: fmt.Sprintf("tt-conc-%d", variant), Opt: vrt.Options{ClockContended: true, LogYield: true}}
	sc.Body = func() {
		final, finalLoc, want, negatives, ivs = nil, nil, 0, nil, nil
		smx, err := outline_prometheus.NewServiceMetrics(fakeDB{})
		if err != nil {
			panic(err)
		}
		var sm service.ServiceMetrics = smx
		p := pairs[0]
		c0 := sm.AddOpenTCPConnection(world.NewMemConn(nil, addrOf(p.ip, 1)))
		c0.AddAuthenticated(p.key)
		start := vrt.NowQuiet()
		var ts []*vrt.Thread
		if variant != 3 {
			ts = append(ts, vrt.Spawn("scraper", func() {
				k, _ := collect(smx)
				for key, v := range k {
					if v < 0 {
						negatives = append(negatives, fmt.Sprintf("%s=%v", key, v))
					}
				}
			}))
			ts = append(ts, vrt.Spawn("ticker", func() {
				vrt.Advance(time.Second)
				vrt.Advance(time.Second)
			}))
		}
		switch variant {
		case 0:
			ts = append(ts, vrt.Spawn("traffic", func() {
				c1 := sm.AddOpenTCPConnection(world.NewMemConn(nil, addrOf(p.ip, 2)))
				c1.AddAuthenticated(p.key)
				c1.AddClosed("OK", metrics.ProxyMetrics{}, time.Second)
			}))
		case 1:
			ts = append(ts, vrt.Spawn("scraper2", func() { collect(smx) }))
		case 2:
			ts = append(ts, vrt.Spawn("traffic", func() {
				u := sm.AddUDPNatEntry(&net.UDPAddr{IP: net.ParseIP(clientIPs[1]), Port: 9}, "k1")
				u.RemoveNatEntry()
			}))
		case 3:
			// two tunnels of one not yet active (IP, key) opening at the same time, closing one after
			// the other: the client is active from the first open to the last close
			q := pairs[2] // (ip0, k2)
			for j := 0; j < 2; j++ {
				j := j
				ts = append(ts, vrt.Spawn(fmt.Sprintf("open%d", j), func() {
					c := sm.AddOpenTCPConnection(world.NewMemConn(nil, addrOf(q.ip, 10+j)))
					t0 := vrt.NowQuiet()
					c.AddAuthenticated(q.key)
					t0b := vrt.NowQuiet()
					vrt.Advance(time.Second) // time passes while the tunnel is open
					t1 := vrt.NowQuiet()
					c.AddClosed("OK", metrics.ProxyMetrics{}, time.Second)
					t2 := vrt.NowQuiet()
					ivs = append(ivs, [4]time.Time{t0, t0b, t1, t2})
				}))
			}
		}
		vrt.Join(ts...)
		c0.AddClosed("OK", metrics.ProxyMetrics{}, time.Second)
		want = vrt.NowQuiet().Sub(start).Seconds()
		final, finalLoc = collect(smx)
	}
	sc.Check = func(x *vrt.Exec) (string, bool, []*engine.Finding) {
		fs := hk.Generic(x, hk.Opts{})
		if len(fs) == 0 {
			if len(negatives) > 0 {
				fs = append(fs, &engine.Finding{Sig: "negative-tunnel-time", Msg: fmt.Sprint(negatives)})
			}
			// client (ip0,k1) had a tunnel open during the whole run; in variant 2 client (ip1,k1) for an
			// instant of unknown length <= the run (bounded by the ticks that happened in between)
			got := final["k1"]
			lo, hi := want, want
			if variant == 2 {
				hi = 2 * want
			}
			if got < lo-1e-6 || got > hi+1e-6 {
				fs = append(fs, &engine.Finding{Sig: "tunnel-time-per-key", Msg: fmt.Sprintf("key k1: reported %.3f s, the tunnel was open %.3f s", got, want)})
			}
			if variant == 3 && len(ivs) == 2 {
				// client (ip0,k2): active from the first open to the last close; each instant is known up
				// to the clock reads inside the call (the ticker may move the clock during a call)
				// union of the two activity intervals: lower bound from the shortest possible intervals
				// [latest open, earliest close], upper bound from the longest [earliest open, latest close]
				union := func(lo, hi int) float64 {
					a0, a1 := ivs[0][lo], ivs[0][hi]
					b0, b1 := ivs[1][lo], ivs[1][hi]
					la, lb := a1.Sub(a0).Seconds(), b1.Sub(b0).Seconds()
					if la < 0 {
						la = 0
					}
					if lb < 0 {
						lb = 0
					}
					// overlap
					s0, e0 := a0, a1
					if b0.After(s0) {
						s0 = b0
					}
					if b1.Before(e0) {
						e0 = b1
					}
					ov := e0.Sub(s0).Seconds()
					if ov < 0 || la == 0 || lb == 0 {
						ov = 0
					}
					return la + lb - ov
				}
				lo2, hi2 := union(1, 2), union(0, 3)
				if g := final["k2"]; g < lo2-1e-6 || g > hi2+1e-6 {
					fs = append(fs, &engine.Finding{Sig: "tunnel-time-per-key", Msg: fmt.Sprintf("key k2: two tunnels of one client opened at the same time; reported %.3f s, the client was active between %.3f s and %.3f s", g, lo2, hi2)})
				}
				got += final["k2"]
			}
			tl := 0.0
			for _, v := range finalLoc {
				tl += v
			}
			if !eq(tl, got) {
				fs = append(fs, &engine.Finding{Sig: "tunnel-time-per-location", Msg: fmt.Sprintf("per-location total %.3f differs from per-key total %.3f", tl, got)})
			}
		}
		return fmt.Sprint(final, want), true, fs
	}
	return sc
}

func ConcScenarios() []*engine.Scenario { return concScenarios() }

func concScenarios() []*engine.Scenario {
	return []*engine.Scenario{concScenario(0), concScenario(1), concScenario(2), concScenario(3)}
}

func init() {
	hk.Register("C17", func(ctx *engine.Ctx) {
		bound := 2
		if ctx.Tier == "thorough" {
			bound = 4
		}
		for _, sc := range concScenarios() {
			engine.ExploreS(ctx, sc, engine.SConfig{BothPolicies: true, Bound: bound, Shard: ctx.Shard, NShards: ctx.NShards, Deadline: ctx.Deadline})
		}
		ttHandler(ctx)
		ttUDPFlows(ctx)
		ttSeq(ctx)
	})
	hk.Replayers["C17"] = func(ctx *engine.Ctx, rp engine.Replay) []*engine.Finding {
		if rp.Unit == "tt-handler" {
			sub := &engine.Ctx{Res: engine.NewResult("C17", ctx.Tier), NShards: 1}
			ttHandler(sub)
			return sub.Res.Findings
		}
		if rp.Unit == "tt-udp-flows" {
			return replayUDPFlow(rp)
		}
		if rp.Unit == "tt-seq" {
			sub := &engine.Ctx{Res: engine.NewResult("C17", ctx.Tier)}
			var sc seqCase
			json.Unmarshal(rp.Input, &sc)
			hk.Guard(sub, "tt-seq", sc, func() { runSeq(sub, sc) })
			return sub.Res.Findings
		}
		return engine.ReplayScenario(concScenarios(), rp)
	}
}
