package c17

import (
	"encoding/json"
	"fmt"
	"time"

	outline_prometheus "github.com/Jigsaw-Code/outline-ss-server/prometheus"
	"github.com/Jigsaw-Code/outline-ss-server/service"
	"github.com/prometheus/client_golang/prometheus"

	"verif/engine"
	"verif/harness/hk"
	"verif/harness/udpx"
	"verif/rt/vrt"
)

// tt-udp-flows (E): UDP associations through the real packet handler into the real collectors.
// An association is a tunnel from its first datagram until it ends (expiry, DNS lifetime, or the
// close of its listener); the seconds scraped afterwards - long after - are those and no more.

type udpFlow struct {
	Name   string             `json:"name"`
	Shared bool               `json:"address_shared,omitempty"` // the handler reads from a listener-manager handle and the address stays open for somebody else
	Ops    []udpx.Op          `json:"ops"`
	After  time.Duration      `json:"scrape_after"` // the scrape happens this long after the last operation
	Want   map[string]float64 `json:"want_seconds_per_key"`
}

func udpFlows() []udpFlow {
	s0 := udpx.Op{K: "S", C: 0, Key: 0, T: 1, N: 20}
	s1 := udpx.Op{K: "S", C: 2, Key: 1, T: 1, N: 14}
	dns := udpx.Op{K: "S", C: 0, Key: 0, T: 0, N: 30}
	adv := func(d time.Duration) udpx.Op { return udpx.Op{K: "A", D: d} }
	q := udpx.Op{K: "Q"}
	var out []udpFlow
	for _, shared := range []bool{false, true} {
		out = append(out,
			udpFlow{Name: "open-at-shutdown", Shared: shared, Ops: []udpx.Op{s0, adv(10 * time.Second), q}, After: 100 * time.Second, Want: map[string]float64{"k0": 10}},
			udpFlow{Name: "two-open-at-shutdown", Shared: shared, Ops: []udpx.Op{s0, adv(10 * time.Second), s1, adv(5 * time.Second), q}, After: 100 * time.Second, Want: map[string]float64{"k0": 15, "k1": 5}},
			udpFlow{Name: "expired-before-shutdown", Shared: shared, Ops: []udpx.Op{s0, adv(6 * time.Minute), adv(10 * time.Second), q}, After: 100 * time.Second, Want: map[string]float64{"k0": 300}},
			udpFlow{Name: "dns-lifetime", Shared: shared, Ops: []udpx.Op{dns, adv(30 * time.Second), q}, After: 100 * time.Second, Want: map[string]float64{"k0": 17}},
			udpFlow{Name: "refreshed-then-shutdown", Shared: shared, Ops: []udpx.Op{s0, adv(200 * time.Second), s0, adv(200 * time.Second), q}, After: 100 * time.Second, Want: map[string]float64{"k0": 400}},
		)
	}
	return out
}

func udpFlowScenario(f udpFlow) *engine.Scenario {
	var got map[string]float64
	var gerr error
	sc := &engine.Scenario{Name: "tt-udp-flows", Opt: vrt.Options{Horizon: udpx.Horizon}}
	sc.Body = func() {
		got, gerr = nil, nil
		var smx prometheus.Collector
		tr := &udpx.Trace{}
		udpx.Run(udpx.Config{Keys: udpx.DefaultKeys(), NatTimeout: 5 * time.Minute, ViaManager: f.Shared, KeepOther: f.Shared,
			Real: func() service.UDPMetrics {
				m, err := outline_prometheus.NewServiceMetrics(fakeDB{})
				if err != nil {
					panic(err)
				}
				smx = m
				return m
			}}, f.Ops, tr)
		// long after everything has ended
		vrt.Sleep(f.After)
		if smx != nil {
			got, _, gerr = scrape(smx)
		}

	}
	sc.Check = func(x *vrt.Exec) (string, bool, []*engine.Finding) {
		fs := hk.Generic(x, hk.Opts{})
		if len(fs) > 0 {
			return "generic", true, fs
		}
		if gerr != nil {
			return "gather", true, []*engine.Finding{{Sig: "gather-error", Msg: gerr.Error()}}
		}
		if d := compare(got, f.Want); d != "" {
			b, _ := json.Marshal(f)
			fs = append(fs, &engine.Finding{Sig: "tunnel-time-per-key", Msg: fmt.Sprintf("UDP flows through the real handler: key %s case=%s", d, b)})
		}
		return fmt.Sprint(got), true, fs
	}
	return sc
}

func ttUDPFlows(ctx *engine.Ctx) {
	for i, f := range udpFlows() {
		if ctx.Mine(int64(i)) {
			ctx.RunCase("tt-udp-flows", "E", udpFlowScenario(f), f, nil)
		}
	}
}

func replayUDPFlow(rp engine.Replay) []*engine.Finding {
	var f udpFlow
	if err := json.Unmarshal(rp.Input, &f); err != nil {
		return []*engine.Finding{{Sig: "BROKEN:bad-input", Msg: err.Error()}}
	}
	rp.Choices = nil
	return engine.ReplayCase("tt-udp-flows", udpFlowScenario(f), rp)
}
