// Package udpx runs operation sequences against the real UDP packet handler in the UDP
// handler world and records, after every operation (at quiescence), everything that was
// observable: datagrams at targets and clients, metrics calls, sockets the server created
// or closed, deadlines it set. C03, C04, C14, C16 and C18 put their oracles on the trace.
package udpx

import (
	"encoding/json"
	"fmt"
	"net"
	"time"

	"github.com/Jigsaw-Code/outline-ss-server/service"

	"verif/harness/hk"
	"verif/harness/world"
	"verif/rt/vnet"
	"verif/rt/vrt"
)

// Clients 4 and 5 are the same link-local address and port on two interfaces (zones): two clients.
var Clients = []string{"203.0.113.5:4000", "203.0.113.5:4001", "203.0.113.9:4000", "[2001:db8:1::7]:4000", "[fe80::7%eth0]:4000", "[fe80::7%eth1]:4000"}

// Targets: index 0, 3 and 7 (IPv6) are DNS ports; index 6 is NOT a DNS port although it ends in "53".
var Targets = []string{"93.184.216.34:53", "93.184.216.34:80", "[2606:2800:220:1:248:1893:25c8:1946]:443", "93.184.216.40:53", "[fe80::1%eth0]:53", "[fe80::1234:5678:9abc:def0%a-very-long-zone-name]:8080", "93.184.216.34:8053", "[2606:4700:4700::1111]:53"}

// Stranger addresses (never a destination of the client).
var Strangers = []string{"198.51.100.77:7777", "198.51.100.77:53"}

type Op struct {
	K   string        `json:"k"`             // S send | R reply | X stranger | A advance | Q shutdown | QL close listener L only | U key list replaced by one without key Key | E read error | P parallel
	C   int           `json:"c,omitempty"`   // client
	Key int           `json:"key,omitempty"` // key index; -1 foreign key
	T   int           `json:"t,omitempty"`   // target (S, R) or stranger (X)
	N   int           `json:"n,omitempty"`   // payload size
	Mod string        `json:"mod,omitempty"` // S: "" | flip | trunc-salt | trunc-tag | badtype | truncaddr | private | loopback | cgnat | cgnat-mapped | ula | broadcast | empty-domain | domain | nxdomain | empty | raw-wire | raw:<dst>
	D   time.Duration `json:"d,omitempty"`   // A; sub-operations of P: delay before acting
	Par []Op          `json:"par,omitempty"` // P: operations issued concurrently by separate threads
	Raw []byte        `json:"raw,omitempty"` // S: the whole authenticated plaintext (address header included)
	L   int           `json:"l,omitempty"`   // S: which listener of the service the datagram is sent to (0 = first)
}

func (o Op) String() string { b, _ := json.Marshal(o); return string(b) }

type Recv struct {
	Who     int // target / client index
	Data    []byte
	From    string
	FromUDP *net.UDPAddr
}

type Step struct {
	Op          Op
	At          time.Duration
	AliveBefore bool   // S/R/X: the client's association socket existed and was open when the op was issued
	SrcBefore   string // source address of that association
	Sent        []byte // S: wire datagram; R/X: payload
	Plain       []byte // S: payload after the address header
	Dst         string // S: destination written in the header
	TargetRecv  []Recv
	ClientRecv  []Recv
	Metrics     []world.UDPEvent
	Net         []vrt.Event
	NewSocks    []string // local addresses of sockets the server created during the step
	ClosedSocks []string
	Skipped     bool
	Sub         []*Step // P: what each sub-operation sent
	ReplyPort   int     // R/X: the server port the reply was addressed to
}

type Trace struct {
	Steps      []*Step
	Keys       []*world.Key
	NatTimeout time.Duration
	Open       []string
	Returned   bool
	Recovered  []string
	Real       service.UDPMetrics
	AllMetrics []world.UDPEvent
	Deadlines  map[string][]time.Duration // per server socket: sequence of read deadlines set (relative to Epoch)
	Slack      time.Duration              // time a teardown may take (the configured duration of a removal report)
}

type Config struct {
	Keys       []*world.Key
	NatTimeout time.Duration
	Real       func() service.UDPMetrics
	FailSocket int                 // the n-th outbound socket creation fails (0 = never)
	Validator  string              // "" default policy | "allow-all"
	Hosts      map[string][]string // extra resolver entries
	Listeners  int                 // UDP listeners of the service, all served by the same handler (default 1)
	SlowRemove time.Duration       // every removal report takes this long (virtual time)
	ViaManager bool                // the handler reads from a listener-manager handle (shared socket), as in the server
	DualStack  bool                // the proxy listens on [::]:9000 (IPv4 and IPv6 clients); IPv6 clients send to [::1]:9000
	KeepOther  bool                // with ViaManager: somebody else holds a second handle on the proxy address until the very end
	ViaService bool                // the handler is the one inside service.NewShadowsocksService built without a NAT timeout (default: 5 minutes; NatTimeout must say 5 minutes for the oracles)
	AutoReply  []int               // targets (by index) that answer every datagram at once by themselves (a thread of their own)
}

func DefaultKeys() []*world.Key {
	return []*world.Key{
		world.MakeKey("k0", world.Ciphers[0], "s0"),
		world.MakeKey("k1", world.Ciphers[1], "s1"),
		world.MakeKey("k2", world.Ciphers[2], "s2"),
		world.MakeKey("k3", world.Ciphers[3], "s3"),
		world.MakeKey("dup0", world.Ciphers[0], "s0"),
	}
}

var Foreign = world.MakeKey("foreign", world.Ciphers[1], "not-configured")

// Payload returns the deterministic payload of size n for (client, step).
func Payload(c, step, n int) []byte {
	p := world.Pattern(byte(17*c+step), n)
	if n >= 2 {
		p[0], p[1] = byte(c), byte(step)
	}
	return p
}

// Run executes ops (must be called as the body of a vrt execution) and fills tr.
func Run(cfg Config, ops []Op, tr *Trace) {
	*tr = Trace{Keys: cfg.Keys, NatTimeout: cfg.NatTimeout, Deadlines: map[string][]time.Duration{}, Slack: cfg.SlowRemove}
	vw := vnet.Reset()
	vw.Hosts["dns.example"] = []net.IP{net.ParseIP("93.184.216.34")}
	vw.Hosts["private.example"] = []net.IP{net.ParseIP("10.0.0.7")}
	vw.UDPSocketFailAt = cfg.FailSocket
	for h, as := range cfg.Hosts {
		var ips []net.IP
		for _, a := range as {
			ips = append(ips, net.ParseIP(a))
		}
		vw.Hosts[h] = ips
	}
	hk.ResetLogs()
	var real service.UDPMetrics
	if cfg.Real != nil {
		real = cfg.Real()
		tr.Real = real
	}
	w := world.NewUDP(cfg.Keys, cfg.NatTimeout, real)
	w.Rec.SlowRemove = cfg.SlowRemove
	if cfg.ViaService {
		w.UseService()
	}
	w.ViaManager = cfg.ViaManager
	w.KeepOther = cfg.KeepOther
	if cfg.DualStack {
		w.Addr = "[::]:9000"
	}
	if cfg.Validator == "allow-all" {
		w.H.SetTargetIPValidator(func(net.IP) error { return nil })
	}
	w.Start()
	proxies := []*net.UDPAddr{world.UDPAddr(world.ProxyUDP)}
	for i := 1; i < cfg.Listeners; i++ {
		a := fmt.Sprintf("127.0.0.1:%d", 9000+i)
		w.StartExtra(a)
		proxies = append(proxies, world.UDPAddr(a))
	}
	for _, t := range Targets {
		w.Sock(t)
	}
	for _, s := range Strangers {
		w.Sock(s)
	}
	natSock := map[int]*vnet.UDPConn{}
	var autoRecv []Recv
	for _, ti := range cfg.AutoReply {
		ti := ti
		sock := w.Sock(Targets[ti])
		vrt.SpawnDaemon(fmt.Sprintf("auto-target-%d", ti), func() {
			buf := make([]byte, 65536)
			for {
				n, from, err := sock.ReadFromUDP(buf)
				if err != nil {
					return
				}
				autoRecv = append(autoRecv, Recv{Who: ti, Data: append([]byte{}, buf[:n]...), From: from.String(), FromUDP: from})
				sock.WriteTo(append([]byte("auto-answer:"), buf[:n]...), from)
			}
		})
	}
	knownSocks := map[*vnet.UDPConn]bool{}
	for _, u := range vw.UDPSockets() {
		knownSocks[u] = true
	}
	openBefore := map[*vnet.UDPConn]bool{}
	stopped := false
	mIdx, eIdx := 0, 0
	observe := func(st *Step, c int) {
		vrt.WaitIdle()
		st.TargetRecv = append(st.TargetRecv, autoRecv...)
		autoRecv = nil
		for i, t := range Targets {
			for _, d := range w.Sock(t).Drain() {
				st.TargetRecv = append(st.TargetRecv, Recv{Who: i, Data: d.Data, From: d.From.String(), FromUDP: d.From})
			}
		}
		for i, cl := range Clients {
			if s, ok := w.Socks()[cl]; ok {
				for _, d := range s.Drain() {
					st.ClientRecv = append(st.ClientRecv, Recv{Who: i, Data: d.Data, From: d.From.String(), FromUDP: d.From})
				}
			}
		}
		for _, s := range Strangers {
			w.Sock(s).Drain()
		}
		st.Metrics = append(st.Metrics, w.Rec.Events[mIdx:]...)
		mIdx = len(w.Rec.Events)
		evs := vrt.Cur().Events
		for _, ev := range evs[eIdx:] {
			st.Net = append(st.Net, ev)
			if ev.Kind == "udp.setreaddeadline" {
				tr.Deadlines[ev.A] = append(tr.Deadlines[ev.A], time.Duration(ev.N))
			}
		}
		eIdx = len(evs)
		for _, u := range vw.UDPSockets() {
			if u.Owner != "srv" {
				continue
			}
			if !knownSocks[u] {
				knownSocks[u] = true
				st.NewSocks = append(st.NewSocks, u.LocalAddr().String())
				if c >= 0 {
					natSock[c] = u
				}
				for _, r := range st.TargetRecv {
					if len(r.Data) >= 2 && int(r.Data[0]) < len(Clients) && r.FromUDP.Port == u.LocalAddr().(*net.UDPAddr).Port {
						natSock[int(r.Data[0])] = u
					}
				}
			}
			if openBefore[u] && u.IsClosed() {
				st.ClosedSocks = append(st.ClosedSocks, u.LocalAddr().String())
			}
			openBefore[u] = !u.IsClosed()
		}
	}
	for i, op := range ops {
		st := &Step{Op: op, At: vrt.NowQuiet().Sub(vrt.Epoch)}
		tr.Steps = append(tr.Steps, st)
		if stopped && op.K == "A" {
			// after the shutdown only the clock moves on
			vrt.Sleep(op.D)
			observe(st, -1)
			continue
		}
		if stopped {
			st.Skipped = true
			continue
		}
		c := -1
		if op.K == "S" || op.K == "R" || op.K == "X" {
			c = op.C
			if u := natSock[c]; u != nil && !u.IsClosed() {
				st.AliveBefore = true
				st.SrcBefore = srcOf(vw, u, op)
			}
		}
		switch op.K {
		case "P":
			var ts []*vrt.Thread
			for j, sub := range op.Par {
				j, sub := j, sub
				ss := &Step{Op: sub}
				st.Sub = append(st.Sub, ss)
				if u := natSock[sub.C]; (sub.K == "R" || sub.K == "X") && u != nil {
					ss.ReplyPort = u.LocalAddr().(*net.UDPAddr).Port
				}
				ts = append(ts, vrt.Spawn(fmt.Sprintf("par%d", j), func() {
					if sub.D > 0 {
						vrt.Sleep(sub.D)
					} else {
						vrt.Yield("par")
					}
					switch sub.K {
					case "S":
						key := Foreign
						if sub.Key >= 0 {
							key = cfg.Keys[sub.Key]
						}
						payload := Payload(sub.C, 100+i*10+j, sub.N)
						plain := append(append([]byte{}, world.Addr(Targets[sub.T])...), payload...)
						wire := world.PackUDP(key, uint64(1000+i*16+j), plain)
						ss.Sent, ss.Plain, ss.Dst = wire, payload, Targets[sub.T]
						w.Sock(Clients[sub.C]).SendRaw(wire, proxies[sub.L%len(proxies)])
					case "U":
						w.List.Update(world.MakeList(keysWithout(cfg.Keys, sub.Key)))
					case "R", "X":
						if ss.ReplyPort == 0 {
							ss.Skipped = true
							return
						}
						from := Targets[sub.T%len(Targets)]
						if sub.K == "X" {
							from = Strangers[sub.T%len(Strangers)]
						}
						payload := Payload(sub.C+8, 100+i*10+j, sub.N)
						ss.Sent = payload
						dst := &net.UDPAddr{IP: vw.ProxyIP4, Port: ss.ReplyPort}
						if world.UDPAddr(from).IP.To4() == nil {
							dst.IP = vw.ProxyIP6
						}
						w.Sock(from).SendRaw(payload, dst)
					}
				}))
			}
			vrt.Join(ts...)
			observe(st, -1)
		case "S":
			key := Foreign
			if op.Key >= 0 {
				key = cfg.Keys[op.Key]
			}
			payload := Payload(op.C, i, op.N)
			dst := Targets[op.T]
			var hdr []byte
			switch {
			case op.Mod == "private":
				dst = "10.0.0.7:53"
			case op.Mod == "loopback":
				dst = "127.0.0.1:53"
			case op.Mod == "cgnat":
				dst = "100.64.0.9:53"
			case op.Mod == "cgnat-mapped":
				dst = "[::ffff:100.100.1.1]:53"
			case op.Mod == "ula":
				dst = "[fd00::7]:53"
			case op.Mod == "broadcast":
				dst = "255.255.255.255:53"
			case op.Mod == "domain":
				dst = "dns.example:53"
			case op.Mod == "private-domain":
				dst = "private.example:53"
			case op.Mod == "nxdomain":
				dst = "nx.example:53" // a name the resolver does not know
			case len(op.Mod) > 4 && op.Mod[:4] == "raw:":
				dst = op.Mod[4:]
			}
			switch op.Mod {
			case "badtype":
				hdr = []byte{0x09, 1, 2, 3, 4, 0, 80}
			case "truncaddr":
				hdr = world.Addr(dst)[:3]
				payload = nil
			case "empty":
				hdr, payload = nil, nil
			case "empty-domain":
				// a domain name of length zero: resolves to no address at all (the unspecified one)
				hdr = []byte{3, 0, 0, 53}
			default:
				hdr = world.Addr(dst)
			}
			plain := append(append([]byte{}, hdr...), payload...)
			if op.Raw != nil {
				plain, payload = op.Raw, nil
			}
			wire := world.PackUDP(key, uint64(i*16+op.C), plain)
			switch op.Mod {
			case "flip":
				wire[len(wire)/2] ^= 0x10
			case "trunc-salt":
				wire = wire[:key.K.SaltSize()-1]
			case "trunc-tag":
				wire = wire[:key.K.SaltSize()+15]
			case "raw-wire":
				// the datagram itself is N arbitrary bytes (N may be 0: an empty datagram)
				wire = Payload(op.C+3, i, op.N)
			}
			st.Sent, st.Plain, st.Dst = wire, payload, dst
			sock := w.Sock(Clients[op.C])
			to := proxies[op.L%len(proxies)]
			if cfg.DualStack && world.UDPAddr(Clients[op.C]).IP.To4() == nil {
				to = &net.UDPAddr{IP: net.IPv6loopback, Port: to.Port}
			}
			sock.SendRaw(wire, to)
			observe(st, c)
		case "R", "X":
			u := natSock[op.C]
			if u == nil {
				st.Skipped = true
				continue
			}
			from := Targets[op.T%len(Targets)]
			if op.K == "X" {
				from = Strangers[op.T%len(Strangers)]
			}
			payload := Payload(op.C+8, i, op.N)
			st.Sent = payload
			st.ReplyPort = u.LocalAddr().(*net.UDPAddr).Port
			dst := &net.UDPAddr{IP: vw.ProxyIP4, Port: u.LocalAddr().(*net.UDPAddr).Port}
			if world.UDPAddr(from).IP.To4() == nil {
				dst.IP = vw.ProxyIP6
			}
			w.Sock(from).SendRaw(payload, dst)
			observe(st, -1)
		case "E":
			// a transient, non-timeout read error on the client's outbound socket
			if u := natSock[op.C]; u != nil && !u.IsClosed() {
				st.AliveBefore = true
				u.InjectReadError()
			} else {
				st.Skipped = true
				continue
			}
			observe(st, -1)
		case "A":
			vrt.Sleep(op.D)
			observe(st, -1)
		case "U":
			// the key list is replaced by one without key op.Key (a reload that revokes it)
			w.List.Update(world.MakeList(keysWithout(cfg.Keys, op.Key)))
			observe(st, -1)
		case "QL":
			// only listener L of the service is closed (a reload that drops one UDP address)
			w.StopListener(op.L % len(proxies))
			observe(st, -1)
		case "Q":
			w.Stop()
			stopped = true
			observe(st, -1)
		}
	}
	final := &Step{Op: Op{K: "END"}, At: vrt.NowQuiet().Sub(vrt.Epoch)}
	if !stopped {
		w.Stop()
	}
	w.CloseOther()
	observe(final, -1)
	tr.Steps = append(tr.Steps, final)
	tr.Open = vw.OpenSockets("srv")
	tr.Returned = w.Returned
	tr.Recovered = hk.RecoveredPanics()
	tr.AllMetrics = w.Rec.Events
}

func keysWithout(keys []*world.Key, drop int) []*world.Key {
	var out []*world.Key
	for i, k := range keys {
		if i != drop {
			out = append(out, k)
		}
	}
	return out
}

func srcOf(vw *vnet.World, u *vnet.UDPConn, op Op) string {
	port := u.LocalAddr().(*net.UDPAddr).Port
	return fmt.Sprintf("%d", port)
}

// Horizon for scenarios built on Run.
const Horizon = 6 * time.Hour
