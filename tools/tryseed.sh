#!/bin/sh
# tools/tryseed.sh <patch.diff> <Cxx> [Cyy ...] : apply a seeded change to the repository, run the
# quick checks, print what each reports, and undo the change again. Never commits anything.
# VERIF_DIR / VERIF_REPO (default /verif, /repo) point it at snapshot copies for background runs.
patch="$1"; shift
V="${VERIF_DIR:-/verif}"; R="${VERIF_REPO:-/repo}"
# runs against a changed tree must not overwrite the evidence of the unchanged one
export VERIF_EVIDENCE_DIR=/tmp/verif_seed_evidence; mkdir -p $VERIF_EVIDENCE_DIR
cd "$R" || exit 2
if ! git diff HEAD --quiet; then echo "tryseed: $R has uncommitted changes, refusing"; exit 2; fi
git apply "$patch" || { echo "tryseed: patch does not apply"; exit 2; }
for c in "$@"; do
  out=$(cd "$V" && ./vcheck "$c" --tier quick 2>&1); rc=$?
  sigs=$(echo "$out" | grep -E "^  signature:" | sed 's/^  signature: //' | cut -c1-110 | sort -u | head -4 | tr '\n' '|')
  echo "$c rc=$rc $(echo "$out" | grep -c '^VIOLATION') violation(s) $sigs $(echo "$out" | grep -E '^BROKEN' | cut -c1-200)"
done
git -C "$R" reset -q --hard HEAD && git -C "$R" clean -fdq
