#!/bin/sh
# tools/tryseed.sh <patch.diff> <Cxx> [Cyy ...] : apply a seeded change to /repo, run the quick
# checks, print what each reports, and undo the change again. Never commits anything to /repo.
patch="$1"; shift
# runs against a changed tree must not overwrite the evidence of the unchanged one
export VERIF_EVIDENCE_DIR=/tmp/verif_seed_evidence; mkdir -p $VERIF_EVIDENCE_DIR
cd /repo || exit 2
if ! git diff HEAD --quiet; then echo "tryseed: /repo has uncommitted changes, refusing"; exit 2; fi
git apply "$patch" || { echo "tryseed: patch does not apply"; exit 2; }
for c in "$@"; do
  out=$(cd /verif && ./vcheck "$c" --tier quick 2>&1); rc=$?
  sigs=$(echo "$out" | grep -E "^  signature:" | sed 's/^  signature: //' | cut -c1-110 | sort -u | head -4 | tr '\n' '|')
  echo "$c rc=$rc $(echo "$out" | grep -c '^VIOLATION') violation(s) $sigs $(echo "$out" | grep -E '^BROKEN' | cut -c1-200)"
done
git -C /repo reset -q --hard HEAD && git -C /repo clean -fdq
