#!/bin/sh
# tools/trybenign.sh <patch.diff> [checks...]: apply a behaviour-preserving refactoring and run the
# quick checks; every check must exit 0. Default: all 20. (VERIF_DIR / VERIF_REPO as in tryseed.sh)
patch="$1"; shift
V="${VERIF_DIR:-/verif}"; R="${VERIF_REPO:-/repo}"
checks="$@"; [ -z "$checks" ] && checks="C01 C02 C03 C04 C05 C06 C07 C08 C09 C10 C11 C12 C13 C14 C15 C16 C17 C18 C19 C20"
export VERIF_EVIDENCE_DIR=/tmp/verif_seed_evidence; mkdir -p $VERIF_EVIDENCE_DIR
cd "$R" || exit 2
if ! git diff HEAD --quiet; then echo "trybenign: $R not clean"; exit 2; fi
git apply "$patch" || { echo "trybenign: patch does not apply"; exit 2; }
bad=0
for c in $checks; do
  out=$(cd "$V" && ./vcheck "$c" --tier quick 2>&1); rc=$?
  if [ $rc -ne 0 ]; then bad=1; echo "ALARM $c rc=$rc: $(echo "$out" | grep -E '^(VIOLATION|BROKEN)|signature' | head -4 | cut -c1-200 | tr '\n' '|')"; fi
done
git -C "$R" reset -q --hard HEAD && git -C "$R" clean -fdq
[ $bad -eq 0 ] && echo "silent: $(basename $patch) ($checks)"
