#!/bin/sh
# tools/confirmseed.sh <prop> <mutA|mutB> : confirm a sub-agent's change in its scratch worktree:
# applies, builds, baseline suite passes (4 known ipinfo failures aside), demo fails with / passes without.
prop=$1; mut=$2; wt=/tmp/wt_$prop; sd=/tmp/seed_$prop
export GOFLAGS=-mod=mod GOPROXY=off GOSUMDB=off GOTOOLCHAIN=local
cd $wt || exit 2
git checkout -q -- . ; git clean -fdq
demo=$(ls $sd | grep -i "demo.*$mut" | grep "_test.go" | head -1)
[ -z "$demo" ] && { echo "$prop $mut: no demo test file"; exit 1; }
pkg=$(grep -m1 '^package ' $sd/$demo | awk '{print $2}')
case "$pkg" in
  main) dir=cmd/outline-ss-server;; service|service_test) dir=service;; prometheus) dir=prometheus;; net) dir=net;; integration_test) dir=internal/integration_test;; ipinfo) dir=ipinfo;; metrics) dir=service/metrics;; *) dir=$pkg;;
esac
run_demo() { cp $sd/$demo $wt/$dir/$demo; (cd $wt && go test -vet=off -count=1 -run 'Demo' ./$dir/ >/tmp/demo_$prop.out 2>&1); rc=$?; rm -f $wt/$dir/$demo; return $rc; }
run_demo; base=$?
git apply $sd/$mut.diff || { echo "$prop $mut: diff does not apply"; exit 1; }
go build ./... >/dev/null 2>&1; build=$?
suite=$(go test -vet=off -count=1 ./... 2>&1 | grep -E "^(FAIL|---) " | grep -v "ipinfo" | grep -v "^FAIL$" | head -5)
run_demo; withmut=$?
git checkout -q -- . ; git clean -fdq
echo "$prop $mut: pkg=$dir build_rc=$build demo_without=$base demo_with=$withmut suite_failures=[$(echo $suite | cut -c1-200)]"
