#!/usr/bin/env python3
"""tools/saveseed.py <prop> <mut> <needs> -- <checks...>: run the quick checks against a confirmed
sub-agent change (applied to /repo and undone again) and store it under /verif/seeded/."""
import json, os, shutil, subprocess, sys, re
prop, mut = sys.argv[1], sys.argv[2]
i = sys.argv.index('--')
needs = ' '.join(sys.argv[3:i])
checks = sys.argv[i+1:]
sd = f'/tmp/seed_{prop}'
out = f'/verif/seeded/{prop}-{mut}'
os.makedirs(out, exist_ok=True)
shutil.copy(f'{sd}/{mut}.diff', f'{out}/patch.diff')
for f in os.listdir(sd):
    if 'demo' in f.lower() and mut.lower() in f.lower():
        shutil.copy(f'{sd}/{f}', f'{out}/{f}.txt' if f.endswith('.go') else f'{out}/{f}')
conf = subprocess.run(['/verif/tools/confirmseed.sh', prop, mut], capture_output=True, text=True).stdout.strip()
res = subprocess.run(['/verif/tools/tryseed.sh', f'{out}/patch.diff'] + checks, capture_output=True, text=True).stdout.strip().splitlines()
detected = {}
for line in res:
    m = re.match(r'(C\d+) rc=(\d+) (\d+) violation\(s\) (.*)', line)
    if m:
        detected[m.group(1)] = {'exit': int(m.group(2)), 'violations': int(m.group(3)), 'signatures': [s for s in m.group(4).split('|') if s.strip()]}
notes = open(f'{sd}/notes.md').read() if os.path.exists(f'{sd}/notes.md') else ''
shutil.copy(f'{sd}/notes.md', f'{out}/agent-notes.md') if notes else None
meta = {
  'breaks_property': prop,
  'origin': 'independent sub-agent given only the property text and a scratch worktree',
  'needs_to_manifest': needs,
  'confirmation': conf,
  'what_i_ran': [f'tools/confirmseed.sh {prop} {mut}  (apply, go build ./..., go test ./..., demo with/without the change, in a scratch worktree)',
                 f'tools/tryseed.sh seeded/{prop}-{mut}/patch.diff ' + ' '.join(checks) + '  (git -C /repo apply; ./vcheck <id> --tier quick; git -C /repo checkout -- .)'],
  'quick_check_results': detected,
  'caught_by': sorted(k for k, v in detected.items() if v['exit'] == 1),
}
json.dump(meta, open(f'{out}/meta.json', 'w'), indent=1)
print(prop, mut, 'caught_by', meta['caught_by'], '|', conf[-60:])
