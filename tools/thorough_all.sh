#!/bin/sh
# tools/thorough_all.sh [snapshot]: run every thorough check once and print its summary line.
# With "snapshot" it works on copies of /verif and /repo (see reseed_all.sh) and leaves /verif/evidence alone.
if [ "$1" = "snapshot" ]; then
  rm -rf /tmp/verif_tsnap /tmp/repo_tsnap
  rsync -a --exclude .cache --exclude bin --exclude .git /verif/ /tmp/verif_tsnap/
  git clone -q /repo /tmp/repo_tsnap
  sed -i 's#=> /repo$#=> /tmp/repo_tsnap#' /tmp/verif_tsnap/go.mod
  export VERIF_DIR=/tmp/verif_tsnap VERIF_REPO=/tmp/repo_tsnap VERIF_EVIDENCE_DIR=/tmp/verif_thorough_evidence
  mkdir -p $VERIF_EVIDENCE_DIR
fi
cd "${VERIF_DIR:-/verif}"
for p in C01 C02 C03 C04 C05 C06 C07 C08 C09 C10 C11 C12 C13 C14 C15 C16 C17 C18 C19 C20; do
  out=$(./vcheck $p --tier thorough --shards 8 2>&1); rc=$?
  echo "$p rc=$rc $(echo "$out" | grep -v '^  cap' | tail -1 | cut -c1-220) caps=$(echo "$out" | grep -c '^  cap')"
  echo "$out" | grep -E "^VIOLATION|^BROKEN|signature" | head -5
done
[ "$1" = "snapshot" ] && rm -rf /tmp/verif_tsnap /tmp/repo_tsnap
