#!/usr/bin/env python3
"""Regenerates the seeded-corpus table at the end of DESIGN.md from seeded/*/meta.json."""
import json, glob, os
rows = []
for d in sorted(glob.glob('/verif/seeded/*/meta.json')):
    m = json.load(open(d))
    name = os.path.basename(os.path.dirname(d))
    res = m.get('quick_check_results', {})
    ran = ', '.join(f"{k}:{'caught' if v['exit']==1 else 'silent'}" for k, v in sorted(res.items()))
    own = m['breaks_property']
    own_caught = 'yes' if own in m.get('caught_by', []) else ('no' + (' (' + m.get('note_own', '') + ')' if m.get('note_own') else ''))
    rows.append(f"| {name} | {m['needs_to_manifest']} | {own_caught} | {ran} | {m.get('strengthened', '')} |")
table = "| change | needs to manifest | caught by its own property's check | quick checks run (result) | check strengthened because of it |\n|---|---|---|---|---|\n" + "\n".join(rows)
s = open('/verif/DESIGN.md').read()
marker = '<!-- SEEDED-TABLE -->'
s = s[:s.index(marker) + len(marker)] + "\n\n" + table + "\n"
open('/verif/DESIGN.md', 'w').write(s)
print(len(rows), 'rows')
