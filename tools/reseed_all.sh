#!/bin/sh
# tools/reseed_all.sh: re-run every stored seeded change against its own property's quick check
# (must be caught) and every stored behaviour-preserving refactoring against all 20 (must be silent).
cd /verif
for d in seeded/C*/; do
  n=$(basename $d); p=${n%%-*}
  r=$(tools/tryseed.sh /verif/$d/patch.diff $p | cut -c1-160)
  case "$r" in *"rc=1"*) echo "caught  $n $r";; *) echo "MISSED  $n $r";; esac
done
for f in seeded/benign/*.diff; do tools/trybenign.sh /verif/$f; done
