#!/bin/sh
# tools/reseed_all.sh: re-run every stored seeded change against its own property's quick check
# (must be caught) and every stored behaviour-preserving refactoring against all 20 (must be silent).
# With "snapshot" as first argument it works on copies (/tmp/verif_snap, /tmp/repo_snap) so that
# /verif and /repo stay free while it runs (three to four hours for 300 changes).
if [ "$1" = "snapshot" ]; then
  rm -rf /tmp/verif_snap /tmp/repo_snap
  rsync -a --exclude .cache --exclude bin --exclude .git /verif/ /tmp/verif_snap/
  git clone -q /repo /tmp/repo_snap
  sed -i 's#=> /repo$#=> /tmp/repo_snap#' /tmp/verif_snap/go.mod
  export VERIF_DIR=/tmp/verif_snap VERIF_REPO=/tmp/repo_snap
fi
V="${VERIF_DIR:-/verif}"
cd "$V"
for d in seeded/C*/; do
  n=$(basename $d); p=${n%%-*}
  r=$(tools/tryseed.sh $V/$d/patch.diff $p | cut -c1-160)
  case "$r" in *"rc=1"*) echo "caught  $n $r";; *) echo "MISSED  $n $r";; esac
done
for f in seeded/benign/*.diff; do tools/trybenign.sh $V/$f; done
[ "$1" = "snapshot" ] && rm -rf /tmp/verif_snap /tmp/repo_snap
