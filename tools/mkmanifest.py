#!/usr/bin/env python3
"""Regenerates /verif/MANIFEST.json from the table below (one row per claimed property)."""
import json

S = "stateless model checking of the implementation: controlled scheduler, deviation-bounded DFS over all schedules and data choices"
Q = "explicit-state search: exhaustive operation sequences / state x operation enumeration on the real code against a reference model"
E = "exhaustive enumeration of a bounded input domain through the real code against a reference model"

checks = {
 "C01": dict(engine="Q+E+S", tech=Q + "; " + E + "; " + S,
   text="every state of the key list (all orders x all last-client-IP assignments, built through the public API) x every (key, client IP) is authenticated once on the real authenticator and compared with the configuration; all single-bit flips/truncations of the 50 key-finding bytes; position sweep to 100 (300) keys; concurrent authentications vs. list replacement under every schedule within the bound; key lists built from configurations (same secret under several ciphers, duplicates, 45 keys) through the real server; legacy key lists over grouped and interleaved ports and a usage history from fixed client addresses; with the replay history disabled the same opening presented again and again",
   note="bounded: 5 (6) keys in the state sweep, lists to 100 (300) keys, 3 client IPs; AEAD unforgeability assumed (all 2^400 openings cannot be enumerated)"),
 "C02": dict(engine="E+S", tech=E + "; " + S,
   text="real StreamServe/Handle/default dialer on the in-memory network: payload-size x chunking x segmentation x address-type x cipher x coalescing grid on the default schedule, plus every schedule (deviation bound 2/3) of six who-speaks-first / who-half-closes-first scenarios with 256-byte socket buffers; connections silent for 58 s / 60 s / 1 h after the handshake; oracle compares both byte streams and the end-of-stream order (metrics and leaks are C15/C18); the target answering and going away while a slow client keeps uploading (kernel send queue modelled in vnet); relays whose listener is closed mid-transfer; the server's accept path (listener manager) with a client that half-closes and reads late",
   note="bounded payload set {0,1,16382,16383,16384,32767}; one connection per execution; vnet TCP model"),
 "C03": dict(engine="Q+E+S", tech=Q + "; " + E + "; " + S,
   text="all operation sequences to depth 3 (4) over a 26-operation menu of client datagrams (valid under each cipher, wrong key, other listed key on a live association, flipped, truncated, bad address, private destination, domain) and target/stranger replies on the real packet handler; oracle decides forwarding, payload integrity, source stability, attribution, reply encryption/sender address/salt freshness from the statement, association liveness is observed on the sockets; datagram and reply sizes up to the buffer limits incl. zoned IPv6 senders; two Handle loops on one handler and a handler reading from a listener-manager handle, datagrams back to back, under every schedule within the bound; both address families on one association; configuration-level key lists on UDP listeners through the real server; reply sizes to a client with an IPv6 address on a dual-stack socket",
   note="two clients, four targets; sequences run at quiescence (default schedule); sizes from a boundary set"),
 "C04": dict(engine="Q+S", tech=Q + "; " + S,
   text="all sequences to depth 3 (4) over three clients (same IP/different port, different IP), two targets, a stranger and clock advances with the C03 oracle plus the ownership invariant (no server socket ever carries two clients; a datagram arriving at a client's source goes to that client only); every schedule within the bound of a new datagram racing a reply and the association's expiry, and of two clients opening at once; CGNAT / ULA destinations; two clients that differ only in the IPv6 zone; a service with two UDP listeners on one handler racing; broadcast and zero-length-domain destinations; one client over DNS / non-DNS datagrams, DNS replies and pauses: the source is stable within the promised lifetime; a reply from a host of the other address family; a datagram that does not decrypt on the live association",
   note="NAT timeout 10 s on the virtual clock; deviation bound 3 (5)"),
 "C05": dict(engine="E+S", tech=E + "; " + S,
   text="the real RequirePublicIP against an independent bit-level classifier over IPv4 (quick: every block boundary +-2 and six addresses per /16; thorough: all 2^32) in 4-byte and mapped form and over all 65536 IPv6 /16s x 8 tails; end to end through the real TCP handler + default dialer and the real UDP handler + default validator: every SOCKS encoding x 32 representative addresses x 17 resolver answers x packet positions 1-3, oracle on the vnet traffic log; the same destination repeated within an association; two concurrent dials (one non-public) through the shared default dialer under every schedule incl. accesses to closure-shared variables; the first two validations of a process at once, each execution in a process of its own",
   note="IPv6 by /16 prefix and tail pattern; vnet.Dialer mirrors net.Dialer's Control sequence (conformance suite)"),
 "C07": dict(engine="Q+E+S", tech=Q + "; " + E + "; " + S,
   text="every sequence of depth 7 (8) over {Add(h1..h5), Add(h6 colliding with h1), Resize(0..3)} from every initial capacity 0..3 on the real ReplayCache in lock-step with the statement's reference model; capacities up to 20000 with 2.5N handshakes and re-presentation; construction limits; concurrent Add/Add/Add and Add/Add/Resize under every schedule (unbounded) with the race monitor; two concurrent Adds on a full active set then a replay; services built around one shared history that is resized in between; access keys with an empty id; replays across listeners, services, formats and reloads on the whole server; all sequences over key ids that agree in their first four bytes / are prefixes / are empty, with shared salts",
   note="the cross-listener / cross-reload clauses are covered by the package-main harness (same property id) once built; checksum collisions are constructed, not searched"),
 "C08": dict(engine="E", tech=E,
   text="4 (100) batches x 50 complete connections per cipher through the real handler: exact pairwise freshness of the server salts within a batch, recognisability by the key's own generator, and reflection of real recorded server output (whole, extended, every truncation >= 50 bytes) with the cache nil/disabled/on: ERR_REPLAY_SERVER and probe handling (nothing written, no dial, closed at the timeout); supplementary free-running pass of concurrent salt generation under the race detector (sampling); a key list that starts with an aes-128 key of the same secret; the entropy source failing from its n-th read on; a key with an empty ID; the reflecting client using a key of another salt size in between",
   note="crypto/rand is a deterministic DRBG per batch; aes-128 (16-byte salt) is outside the recognisability clause"),
 "C14": dict(engine="Q+E+S", tech=Q + " on a virtual clock; " + E + "; " + S,
   text="all 15^4 (15^5) sequences over {DNS / non-DNS datagrams of two clients (incl. a port ending in 53 and a datagram whose sendto fails), replies from port 53 / 80 / 8053, advances of 1 s, 16 s, 17 s+, T-1 s, T+, shutdown} for NAT timeouts 300 s and 10 s on the real packet handler; reference = the statement's promise (max over datagrams of send time + 17 s / T), the server's own deadlines are read from the socket log: no early expiry, deadlines monotone, reclamation after the deadline, single-DNS fast close, prompt shutdown, one removal report per association, no leaked thread or socket; teardown windows (removal reports that take virtual time) with datagrams, replies and other clients arriving before, inside and after them; a DNS reply racing a second datagram under every schedule within the bound; a DNS server with an IPv6 address; shutdown of a handler whose address stays open for another handle",
   note="exact virtual instants; no datagram is sent at the very instant of a deadline (open outcome)"),
 "C15": dict(engine="E+S", tech=E + "; " + S,
   text="every connection outcome class (OK, ERR_CIPHER, both replay kinds, ERR_READ_ADDRESS, ERR_ADDRESS_*, ERR_CONNECT, ERR_RELAY_CLIENT, ERR_RELAY_TARGET) x ciphers x sizes, singly and in sequences, with a recording TCPConnMetrics teed into the real Prometheus collectors: call multiplicity/order/status, probe bytes = bytes sent, counters vs. bytes on the vnet sockets (equal when completed, never larger), gathered counters vs. calls; pairs of concurrent connections under every schedule within the bound; both relay directions failing (client first); probes of zero bytes",
   note="deviation bound 2 (3) for the concurrent pairs"),
 "C16": dict(engine="Q+S", tech=Q + "; " + S,
   text="all sequences to depth 3 (4) over the C03 menu plus clock advances with a recording UDPMetrics (every third sequence also through the real Prometheus collectors): one add/remove per association, one client report per datagram on an association with status, wire size and payload size, one target report per reply, per-key per-direction sums equal the bytes on the sockets, gathered counters equal the calls; a DNS target that answers at once racing the report of the datagram just relayed, under every schedule within the bound; removal reported when the association ends, with the listener still open",
   note="association liveness observed on the sockets"),
 "C18": dict(engine="E+S", tech=E + "; " + S,
   text="TCP: every address-type byte x fillers, domain lengths, headers truncated at every length, out-of-range and zero chunk lengths, every outcome class, each followed by a well-formed connection that must be served; UDP: the same shapes as datagrams, replies of boundary sizes from IPv4/IPv6/zoned sources, socket-creation failure, shutdown; concurrent hostile+normal connections, injected accept error, listener shutdown with handlers in flight, and associations expiring while datagrams arrive (unordered conflicting map accesses = runtime abort) under every schedule within the bound; oracle: no unrecovered or recovered panic, no thread or socket left, StreamServe/Handle return only after their handlers; a handler that fails and is recovered next to a normal connection; shutdown of a listener-manager listener with connections arriving; livelock detection (a thread that never blocks for good); connections accepted vs. handlers finished when StreamServe returns; a handler in a connect that never completes at shutdown; nothing left of idle clients while the listener is open",
   note="deviation bound 1 (2)"),
 "C06": dict(engine="E+S", tech=E + " on a virtual clock; " + S,
   text="every probe of the grid (random bytes of every length 0..120 and large, every truncation <50 of a valid stream, every single-bit flip of a valid 3-chunk stream, replays) x 4 ciphers x key-list sizes x client behaviours {keep open, FIN, more data at T/2} runs through the real handler; the reference model decides whether it authenticates; oracle: zero bytes written, no dial, close exactly at min(client close, t0+59s) by FIN, AddProbe bytes = bytes sent; post-authentication invalid streams are never actively closed; replays against the whole server in both configuration formats; a probe racing a legitimate authentication on the same key (race-directed exploration); replays after the history has rotated and the server was reloaded; probes arriving after two clients from two addresses have used two keys",
   note="virtual time (exact instants, no wall clock); quick tier samples one bit per byte for ciphers 2-4"),
 "C09": dict(engine="E+S", tech=E + "; " + S,
   text="the real server (package main, started through RunOutlineServer on vnet) is booted with every 3rd (every) configuration of a ~4300-element space (1-2 services x listener sets x ordered key lists with duplicated (cipher, secret) pairs and shared keys x legacy per-port keys, both formats mixed); then every (listener, key of the universe) pair is probed with a real TCP connection / UDP datagram; expectation (authenticates iff the (cipher, secret) belongs to the owner, first configured ID) is computed from the configuration alone; usage histories from fixed client addresses; legacy sets with interleaved ports; two clients with different keys of one service at the same time under every schedule within the bound; opening bytes arriving in two pieces; one client socket talking to two UDP listeners in turn",
   note="key universe of 5 keys + 1 foreign key, 6 ports; the harness is injected into package main through the build overlay and uses only RunOutlineServer / newPrometheusServerMetrics / Stop"),
 "C10": dict(engine="Q", tech=Q + " with fault enumeration",
   text="all 18^2 (18^3) reload sequences after booting configuration A over: five valid configurations (shared addresses/keys, dropped keys, format switch) and every failure stage (missing file, malformed YAML, three validation errors, bad cipher in service 0 / service 1 / a legacy key, the 1st..4th listener or the legacy UDP socket unbindable); reloads go through the real SIGHUP path; after every step the bound sockets, the C09 authentication matrix and the number of live server threads are compared with the last configuration that loaded; after Stop nothing is bound and nothing runs; configurations with keys sharing a secret, valid and with an unsupported cipher",
   note="bind failures are injected in vnet for addresses the running configuration does not already hold (a shared address is not bound again)"),
 "C11": dict(engine="S", tech=S,
   text="every schedule within the deviation bound of: a reload (real SIGHUP path) racing a new TCP client and a UDP client on a retained address, with a connection opened before the reload (idle after handshake / mid-transfer / half-closed with a late target) that finishes afterwards; one and two consecutive reloads; invariant at every scheduling decision: the retained TCP and UDP addresses are bound; end oracle: no dial refused, each connection opened exactly once, retained-key clients authenticated and served, pre-existing connection intact; a pre-existing connection half-closed by the target with the client still uploading; legacy format with a second client and datagram right behind the first (both base scheduling policies); the hand-over itself at component level; a UDP listener dropped by one reload and brought back by the next; a reload that cannot succeed; a key shared with a newly added service; a client with a key of the new configuration after the reload",
   note="deviation bound 1 (2); a handler whose context is cancelled before it dialed its target may end ERR_CONNECT (documented open outcome)"),
 "C12": dict(engine="S", tech=S,
   text="every schedule within the bound of two handles on one address (stream and packet), user threads accepting/reading until error, closer threads closing at an arbitrary moment and calling once more, a connector/sender; variants: both close, one drains and is never closed (nothing may be lost), re-acquisition racing the released generation; oracle: no duplicate, no loss, closed-network error after Close, socket released, no thread left, undeliverable accepted connections closed; Close called twice on a stream handle; a packet handle next to stream handles on one address; two threads reading one packet handle",
   note="deviation bound 2 (3); handles are acquired before the threads start (the listen/close race itself is C13)"),
 "C17": dict(engine="Q+S", tech=Q + " on a virtual clock; " + S,
   text="all 13^5 (13^6) sequences (plus 8^4 (8^5) around an empty key ID) over TCP open+authenticate/close and UDP add/remove for (client IP, key) pairs, unauthenticated connections, clock ticks and scrapes on the real Prometheus serviceMetrics; after every scrape the reported seconds per key and per location are compared with the union of open intervals; scrape racing traffic, ticks and another scrape, and two tunnels of one fresh client starting at once, with the clock read as a scheduling point; every TCP outcome class (incl. refused replays) through the real stream handler and the real collectors; clients that authenticate and stay silent before sending the address (the tunnel starts when the authenticating bytes arrive); a client whose location lookup fails; a key without id over UDP",
   note="deviation bound 2 (4) for the concurrent units"),
 "C19": dict(engine="S", tech=S + " with a vector-clock happens-before race monitor and a linearizability check (porcupine; sequential specification = the implementation run sequentially)",
   text="key list {Snapshot || MarkUsed || Update}, replay history {Add || Add || Add || Resize}, the association table under datagrams/replies/expiry/shutdown, shared listeners (C12 scenarios) and collectors (C17 concurrent scenarios): every schedule (unbounded for the small components, deviation-bounded otherwise) is executed with every instrumented field/map/list access checked for an unordered conflicting pair, and the recorded call/return histories checked for linearizability; a supplementary free-running pass of the component bodies under the Go race detector (sampling; reports are genuine, silence proves nothing); shared-listener outcomes that no sequential order of the calls gives (delivery after Close has returned, double delivery); the association race (second datagram vs fast-closing DNS answer) against sequential orders",
   note="the monitor sees fields of structs declared in the repository, maps reached through them, container/list objects, closure-shared local variables and package-level variables; slice elements and third-party internals are outside it; a race found in any S unit of any check triggers a second exploration with the racing accesses as scheduling points"),
 "C20": dict(engine="E+Q", tech=E + "; " + Q,
   text="GetIPInfoFromAddr/GetIPInfoFromIP over 24 hosts of every class x 4 address forms, zoned, names, malformed, nil x 4 database behaviours with a recording fake database against the decision table (incl. database not consulted for XA/XL/disabled); all 35^2 (35^3) sequences x 3 database modes of traffic operations from distinctive client addresses through the real collectors, the text exposition scanned after every operation for address material, unknown label names and port-valued samples; the same table observed through the real TCP/UDP collectors (location label of every gathered sample); one set of labels per address whichever the protocol of the flow; every class of TCP connection (incl. a probe reset by its sender) through the real handler on vnet into the real collectors, same scan",
   note="exposure is checked at the collector API (the seam every handler reports through) and, for TCP, through the real stream handler"),
 "C13": dict(engine="S", tech=S,
   text="every schedule of 2- and 3-thread listen/close programs on the real ListenerManager within a deviation bound is executed; deadlock = no enabled thread with an unfinished caller (wait-for cycle extracted); the manager is re-used afterwards; programs with traffic pending on the shared socket (an unaccepted connection, an unread datagram) when the handles close; failed listens; stream handles closed again and handles used after their close",
   note="bounded: <=3 user threads, <=4 operations each, 2 addresses; deviation bound 2 (2 threads) / 1 (3 threads) quick, 3 / 2 thorough"),
}

def main():
    m = {
     "version": 1,
     "setup_cmd": "./vcheck setup",
     "hooks": {
      "guard": "none (build overlay)",
      "enable": "no hook is committed to /repo: every check instruments /repo's current working tree into a scratch directory (verif/instr) and builds with `go build -overlay`; see DESIGN.md section 3.1",
      "baseline_off_cmd": "cd /repo && GOFLAGS=-mod=mod GOPROXY=off GOSUMDB=off GOTOOLCHAIN=local go test -vet=off -count=1 -timeout 25m ./...",
      "source_commits": [],
      "add_only": True,
     },
     "engines": [
      {"name": "S", "path": "engine/engine.go", "kind_free_text": S, "serves_properties": sorted(k for k, v in checks.items() if "S" in v["engine"])},
      {"name": "Q", "path": "engine/engine.go", "kind_free_text": Q, "serves_properties": sorted(k for k, v in checks.items() if "Q" in v["engine"])},
      {"name": "E", "path": "engine/engine.go", "kind_free_text": E, "serves_properties": sorted(k for k, v in checks.items() if "E" in v["engine"])},
     ],
     "checks": [],
     "not_applicable": [],
     "notes": "All checks run the real code of /repo's current working tree (instrumented through a build overlay) under the controlled runtime rt/vrt on the in-memory network rt/vnet. known_findings.json lists the genuine defects found (all nine repaired by fix: commits in /repo; no known finding is open).",
    }
    for pid in sorted(checks):
        c = checks[pid]
        m["checks"].append({
          "property_id": pid,
          "quick_cmd": f"./vcheck {pid} --tier quick",
          "thorough_cmd": f"./vcheck {pid} --tier thorough",
          "evidence_file": f"/verif/evidence/{pid}.json",
          "replay_cmd_template": f"./vcheck {pid} --replay {{path}}",
          "engine": c["engine"],
          "level_claimed": {"category": "model_checking", "text": c["text"], "design_ref": f"DESIGN.md section 7 / {pid}"},
          "level_note": c["note"],
          "technique": c["tech"],
        })
    for i in range(1, 21):
        pid = "C%02d" % i
        if pid not in checks:
            m["not_applicable"].append({"property_id": pid, "reason": "check not built yet (model checking applies; harness in progress)"})
    json.dump(m, open("/verif/MANIFEST.json", "w"), indent=1)
    print("checks:", len(m["checks"]), "not_applicable:", len(m["not_applicable"]))

main()
