#!/usr/bin/env python3
"""Regenerates /verif/MANIFEST.json from the table below (one row per claimed property)."""
import json

S = "stateless model checking of the implementation: controlled scheduler, deviation-bounded DFS over all schedules and data choices"
Q = "explicit-state search: exhaustive operation sequences / state x operation enumeration on the real code against a reference model"
E = "exhaustive enumeration of a bounded input domain through the real code against a reference model"

checks = {
 "C01": dict(engine="Q+E+S", tech=Q + "; " + E + "; " + S,
   text="every state of the key list (all orders x all last-client-IP assignments, built through the public API) x every (key, client IP) is authenticated once on the real authenticator and compared with the configuration; all single-bit flips/truncations of the 50 key-finding bytes; position sweep to 100 (300) keys; concurrent authentications vs. list replacement under every schedule within the bound, with the happens-before race monitor",
   note="bounded: 5 (6) keys in the state sweep, lists to 100 (300) keys, 3 client IPs; AEAD unforgeability assumed (all 2^400 openings cannot be enumerated)"),
 "C02": dict(engine="E+S", tech=E + "; " + S,
   text="real StreamServe/Handle/default dialer on the in-memory network: payload-size x chunking x segmentation x address-type x cipher x coalescing grid on the default schedule, plus every schedule (deviation bound 2/3) of six who-speaks-first / who-half-closes-first scenarios with 256-byte socket buffers; oracle compares both byte streams, EOF order, status and the four byte counters",
   note="bounded payload set {0,1,16382,16383,16384,32767}; one connection per execution; vnet TCP model"),
 "C06": dict(engine="E", tech=E + " on a virtual clock",
   text="every probe of the grid (random bytes of every length 0..120 and large, every truncation <50 of a valid stream, every single-bit flip of a valid 3-chunk stream, replays) x 4 ciphers x key-list sizes x client behaviours {keep open, FIN, more data at T/2} runs through the real handler; the reference model decides whether it authenticates; oracle: zero bytes written, no dial, close exactly at min(client close, t0+59s) by FIN, AddProbe bytes = bytes sent; post-authentication invalid streams are never actively closed",
   note="virtual time (exact instants, no wall clock); quick tier samples one bit per byte for ciphers 2-4"),
 "C13": dict(engine="S", tech=S,
   text="every schedule of 2- and 3-thread listen/close programs on the real ListenerManager within a deviation bound is executed; deadlock = no enabled thread with an unfinished caller (wait-for cycle extracted); the manager is re-used afterwards",
   note="bounded: <=3 user threads, <=4 operations each, 2 addresses; deviation bound 2 (2 threads) / 1 (3 threads) quick, 3 / 2 thorough"),
}

def main():
    m = {
     "version": 1,
     "setup_cmd": "./vcheck setup",
     "hooks": {
      "guard": "none (build overlay)",
      "enable": "no hook is committed to /repo: every check instruments /repo's current working tree into a scratch directory (verif/instr) and builds with `go build -overlay`; see DESIGN.md section 3.1",
      "baseline_off_cmd": "cd /repo && GOFLAGS=-mod=mod GOPROXY=off GOSUMDB=off GOTOOLCHAIN=local go test -vet=off -count=1 -timeout 25m ./...",
      "source_commits": [],
      "add_only": True,
     },
     "engines": [
      {"name": "S", "path": "engine/engine.go", "kind_free_text": S, "serves_properties": sorted(k for k, v in checks.items() if "S" in v["engine"])},
      {"name": "Q", "path": "engine/engine.go", "kind_free_text": Q, "serves_properties": sorted(k for k, v in checks.items() if "Q" in v["engine"])},
      {"name": "E", "path": "engine/engine.go", "kind_free_text": E, "serves_properties": sorted(k for k, v in checks.items() if "E" in v["engine"])},
     ],
     "checks": [],
     "not_applicable": [],
     "notes": "All checks run the real code of /repo's current working tree (instrumented through a build overlay) under the controlled runtime rt/vrt on the in-memory network rt/vnet. known_findings.json lists genuine defects recorded rather than repaired.",
    }
    for pid in sorted(checks):
        c = checks[pid]
        m["checks"].append({
          "property_id": pid,
          "quick_cmd": f"./vcheck {pid} --tier quick",
          "thorough_cmd": f"./vcheck {pid} --tier thorough",
          "evidence_file": f"/verif/evidence/{pid}.json",
          "replay_cmd_template": f"./vcheck {pid} --replay {{path}}",
          "engine": c["engine"],
          "level_claimed": {"category": "model_checking", "text": c["text"], "design_ref": f"DESIGN.md section 7 / {pid}"},
          "level_note": c["note"],
          "technique": c["tech"],
        })
    for i in range(1, 21):
        pid = "C%02d" % i
        if pid not in checks:
            m["not_applicable"].append({"property_id": pid, "reason": "check not built yet (model checking applies; harness in progress)"})
    json.dump(m, open("/verif/MANIFEST.json", "w"), indent=1)
    print("checks:", len(m["checks"]), "not_applicable:", len(m["not_applicable"]))

main()
