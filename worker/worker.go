// Package worker is the common main of the worker binaries (service-level and
// package-main-level): parse the shard arguments, run the harness, print the result.
package worker

import (
	"encoding/json"
	"flag"
	"fmt"
	"io"
	"log"
	"log/slog"
	"os"
	"time"

	"verif/engine"
	"verif/harness/hk"
	"verif/rt/vrt"
)

func Main(reg map[string]hk.Check, reps map[string]hk.Replayer) {
	prop := flag.String("prop", "", "property id")
	tier := flag.String("tier", "quick", "quick|thorough")
	shard := flag.Int("shard", 0, "shard index")
	nshards := flag.Int("nshards", 1, "number of shards")
	budget := flag.Duration("budget", 60*time.Second, "wall-clock budget (internal deadline)")
	seed := flag.Uint64("seed", 1, "seed")
	replay := flag.String("replay", "", "replay file")
	fresh := flag.Bool("fresh-exec", false, "child mode: run one execution of the scenario described on stdin and print its outcome")
	flag.Parse()
	// the code under test logs through slog / log: keep stdout clean
	log.SetOutput(io.Discard)
	slog.SetDefault(slog.New(hk.LogRecorder()))
	vrt.Seed = *seed
	if *fresh {
		os.Setenv("VERIF_FRESH_CHILD", "1")
		rp := reps[*prop]
		if rp == nil {
			fmt.Fprintln(os.Stderr, "BROKEN: no replayer for", *prop)
			os.Exit(2)
		}
		cctx := &engine.Ctx{Res: engine.NewResult(*prop, *tier), Tier: *tier}
		engine.FreshChild(func(r engine.Replay) []*engine.Finding { return rp(cctx, r) })
		return
	}
	ctx := &engine.Ctx{Res: engine.NewResult(*prop, *tier), Tier: *tier, Shard: *shard, NShards: *nshards, Seed: *seed,
		Deadline: time.Now().Add(*budget)}
	t0 := time.Now()
	if *replay != "" {
		b, err := os.ReadFile(*replay)
		if err != nil {
			fmt.Fprintln(os.Stderr, "BROKEN:", err)
			os.Exit(2)
		}
		var f engine.Finding
		if err := json.Unmarshal(b, &f); err != nil {
			fmt.Fprintln(os.Stderr, "BROKEN:", err)
			os.Exit(2)
		}
		rp := reps[*prop]
		if rp == nil {
			fmt.Fprintln(os.Stderr, "BROKEN: no replayer for", *prop)
			os.Exit(2)
		}
		for _, g := range rp(ctx, f.Replay) {
			g.Property = *prop
			ctx.Res.Findings = append(ctx.Res.Findings, g)
		}
	} else {
		c := reg[*prop]
		if c == nil {
			fmt.Fprintln(os.Stderr, "BROKEN: unknown property", *prop)
			os.Exit(2)
		}
		c(ctx)
	}
	ctx.Res.WallS = time.Since(t0).Seconds()
	enc := json.NewEncoder(os.Stdout)
	if err := enc.Encode(ctx.Res); err != nil {
		fmt.Fprintln(os.Stderr, "BROKEN:", err)
		os.Exit(2)
	}
}
