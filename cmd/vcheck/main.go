// vcheck is the single entry point used by MANIFEST.json:
//
//	vcheck <Cxx> --tier quick|thorough [--replay file] [--shards N] [--budget dur]
//
// It instruments /repo's current working tree into a scratch overlay (never touching
// /repo), builds the worker binary with that overlay, runs the property's harness in
// N worker processes, merges their results, matches findings against
// known_findings.json, confirms new findings by replaying them 5 times, writes
// evidence/<id>.json and exits 0 (held / only known findings), 1 (VIOLATION) or
// 2 (BROKEN: the machinery itself failed).
package main

import (
	"bytes"
	"crypto/sha256"
	"encoding/json"
	"flag"
	"fmt"
	"io"
	"os"
	"os/exec"
	"path/filepath"
	"regexp"
	"sort"
	"strconv"
	"strings"
	"sync"
	"time"

	"verif/engine"
	"verif/instr"
)

// verifDir is /verif; VERIF_DIR points a background validation run at a snapshot copy of it (and
// --repo / VERIF_REPO at a clone of the repository) so that work in /verif and /repo goes on.
var verifDir = func() string {
	if d := os.Getenv("VERIF_DIR"); d != "" {
		return d
	}
	return "/verif"
}()

var repoDir = "/repo"

// properties served by the worker built from package main of the server
var mainProps = map[string]bool{"C09": true, "C10": true, "C11": true}

// properties that additionally have units in the package-main worker (registered there under this name)
var alsoMain = map[string]string{"C07": "C07main", "C01": "C01main", "C06": "C06main", "C03": "C03main", "C14": "C14main", "C15": "C15main", "C16": "C16main", "C08": "C08main"}

type knownEntry struct {
	Status   string `json:"status"` // "known" | "fixed"
	Property string `json:"property"`
	Sig      string `json:"sig"`
	What     string `json:"what"`
	Commit   string `json:"commit,omitempty"`
}

type knownFile struct {
	Entries []knownEntry `json:"entries"`
}

func env() []string {
	e := os.Environ()
	e = append(e, "GOFLAGS=-mod=mod", "GOPROXY=off", "GOSUMDB=off", "GOTOOLCHAIN=local")
	return e
}

func broken(format string, a ...any) {
	fmt.Printf("BROKEN: "+format+"\n", a...)
	os.Exit(2)
}

func hashTree(h io.Writer, root string, filter func(path string) bool) {
	var files []string
	filepath.Walk(root, func(p string, info os.FileInfo, err error) error {
		if err != nil {
			return nil
		}
		if info.IsDir() {
			n := info.Name()
			if n == ".git" || n == ".cache" || n == "evidence" || n == "bin" || n == "seeded" || n == "mutants" {
				return filepath.SkipDir
			}
			return nil
		}
		if filter(p) {
			files = append(files, p)
		}
		return nil
	})
	sort.Strings(files)
	for _, f := range files {
		b, err := os.ReadFile(f)
		if err != nil {
			continue
		}
		fmt.Fprintf(h, "%s %d\n", f, len(b))
		h.Write(b)
	}
}

// build instruments the current tree and builds the worker; results are cached under
// /verif/.cache/<hash of all inputs>.
func build(mainWorker bool, verbose bool) (bin string) {
	h := sha256.New()
	hashTree(h, repoDir, func(p string) bool {
		return (strings.HasSuffix(p, ".go") && !strings.HasSuffix(p, "_test.go")) || strings.HasSuffix(p, "go.mod") || strings.HasSuffix(p, "go.sum")
	})
	hashTree(h, verifDir, func(p string) bool { return strings.HasSuffix(p, ".go") || strings.HasSuffix(p, "go.mod") })
	key := fmt.Sprintf("%x", h.Sum(nil)[:10])
	cacheRoot := filepath.Join(verifDir, ".cache")
	dir := filepath.Join(cacheRoot, key)
	name := "vworker"
	if mainWorker {
		name = "vworker-main"
	}
	bin = filepath.Join(dir, name)
	if _, err := os.Stat(bin); err == nil {
		return bin
	}
	os.MkdirAll(dir, 0o755)
	// prune old cache entries
	if ents, err := os.ReadDir(cacheRoot); err == nil && len(ents) > 4 {
		type e struct {
			n string
			t time.Time
		}
		var es []e
		for _, x := range ents {
			if fi, err := x.Info(); err == nil && x.Name() != key {
				es = append(es, e{x.Name(), fi.ModTime()})
			}
		}
		sort.Slice(es, func(i, j int) bool { return es[i].t.Before(es[j].t) })
		for i := 0; i < len(es)-3; i++ {
			os.RemoveAll(filepath.Join(cacheRoot, es[i].n))
		}
	}
	ovDir := filepath.Join(dir, "ov")
	if _, err := os.Stat(filepath.Join(ovDir, "overlay.json")); err != nil {
		t0 := time.Now()
		res, err := instr.Run(instr.Config{Repo: repoDir, OutDir: ovDir, HB: true, MainInject: filepath.Join(verifDir, "inject", "zz_verif_main.go.txt")})
		if err != nil {
			os.RemoveAll(dir)
			broken("instrumenter failed on the current tree: %v", err)
		}
		if verbose {
			fmt.Printf("instrumented %d files in %.1fs: %s\n", res.Files, time.Since(t0).Seconds(), res.SortedStats())
		}
	}
	target := "./cmd/vworker"
	if mainWorker {
		target = "github.com/Jigsaw-Code/outline-ss-server/cmd/outline-ss-server"
	}
	t0 := time.Now()
	cmd := exec.Command("go", "build", "-overlay", filepath.Join(ovDir, "overlay.json"), "-o", bin, target)
	cmd.Dir = verifDir
	cmd.Env = env()
	out, err := cmd.CombinedOutput()
	if err != nil {
		os.Remove(bin)
		broken("instrumented build failed: %v\n%s", err, out)
	}
	if verbose {
		fmt.Printf("built %s in %.1fs\n", name, time.Since(t0).Seconds())
	}
	return bin
}

func runWorker(bin string, args []string, hardTimeout time.Duration) (*engine.Result, error) {
	cmd := exec.Command(bin, args...)
	cmd.Env = append(env(), "GOMAXPROCS=2")
	var stdout, stderr bytes.Buffer
	cmd.Stdout = &stdout
	cmd.Stderr = &stderr
	if err := cmd.Start(); err != nil {
		return nil, err
	}
	done := make(chan error, 1)
	go func() { done <- cmd.Wait() }()
	select {
	case err := <-done:
		if err != nil {
			tail := stderr.String()
			if len(tail) > 3000 {
				tail = tail[len(tail)-3000:]
			}
			return nil, fmt.Errorf("worker %v: %v\n%s", args, err, tail)
		}
	case <-time.After(hardTimeout):
		cmd.Process.Kill()
		return nil, fmt.Errorf("worker %v: hard timeout after %v (uninstrumented blocking call?)", args, hardTimeout)
	}
	var r engine.Result
	if err := json.Unmarshal(stdout.Bytes(), &r); err != nil {
		return nil, fmt.Errorf("worker %v: bad output: %v: %.300s", args, err, stdout.String())
	}
	return &r, nil
}

func main() {
	if len(os.Args) < 2 {
		fmt.Println("usage: vcheck <property|setup> [--tier quick|thorough] [--replay file]")
		os.Exit(2)
	}
	prop := os.Args[1]
	fs := flag.NewFlagSet("vcheck", flag.ExitOnError)
	tier := fs.String("tier", "quick", "quick|thorough")
	replay := fs.String("replay", "", "replay a recorded finding")
	shards := fs.Int("shards", 16, "worker processes")
	budget := fs.Duration("budget", 0, "internal wall-clock deadline per worker (default: 80s quick, 12m thorough)")
	verbose := fs.Bool("v", false, "verbose")
	defRepo := "/repo"
	if r := os.Getenv("VERIF_REPO"); r != "" {
		defRepo = r
	}
	repo := fs.String("repo", defRepo, "repository under verification")
	fs.Parse(os.Args[2:])
	repoDir = *repo
	seed := uint64(1)
	if s := os.Getenv("VERIF_SEED"); s != "" {
		if v, err := strconv.ParseUint(s, 10, 64); err == nil {
			seed = v
		}
	}
	if prop == "setup" {
		build(false, true)
		build(true, true)
		if _, _, err := runFree("salts", true); err != nil {
			fmt.Println("note:", err)
		}
		// bind the environment model to the real kernel (never fails the setup: reported only)
		cmd := exec.Command("go", "run", "./cmd/vconf")
		cmd.Dir = verifDir
		cmd.Env = env()
		out, err := cmd.CombinedOutput()
		fmt.Print(string(out))
		if err != nil {
			fmt.Println("note: vnet conformance suite reported disagreements (see above); checks that depend on vnet are still run")
		}
		fmt.Println("setup ok")
		return
	}
	if *budget == 0 {
		*budget = 80 * time.Second
		if *tier == "thorough" {
			*budget = 12 * time.Minute
		}
	}
	t0 := time.Now()
	bin := build(mainProps[prop], *verbose)

	if *replay != "" {
		rprop := prop
		if b, err := os.ReadFile(*replay); err == nil {
			var f engine.Finding
			if json.Unmarshal(b, &f) == nil && f.Property != "" && f.Property != prop {
				rprop = f.Property
				if alsoMain[prop] == rprop {
					bin = build(true, *verbose)
				}
			}
		}
		r, err := runWorker(bin, []string{"-prop", rprop, "-tier", *tier, "-replay", *replay, "-seed", fmt.Sprint(seed)}, 5*time.Minute)
		if err != nil {
			broken("%v", err)
		}
		if len(r.Findings) == 0 {
			fmt.Println("replay: no finding reproduced")
			return
		}
		for _, f := range r.Findings {
			fmt.Printf("replay: %s\n  %s\n", f.Sig, f.Msg)
			for _, l := range f.Replay.Trace {
				fmt.Println("   ", l)
			}
		}
		os.Exit(1)
	}

	// run the shards
	n := *shards
	type job struct {
		bin, prop string
		shard     int
	}
	var jobs []job
	for i := 0; i < n; i++ {
		jobs = append(jobs, job{bin, prop, i})
	}
	binOf := map[string]string{prop: bin}
	if mp, ok := alsoMain[prop]; ok {
		mb := build(true, *verbose)
		binOf[mp] = mb
		for i := 0; i < n; i++ {
			jobs = append(jobs, job{mb, mp, i})
		}
	}
	results := make([]*engine.Result, len(jobs))
	errs := make([]error, len(jobs))
	var wg sync.WaitGroup
	sem := make(chan struct{}, n)
	for i, j := range jobs {
		wg.Add(1)
		go func(i int, j job) {
			defer wg.Done()
			sem <- struct{}{}
			defer func() { <-sem }()
			args := []string{"-prop", j.prop, "-tier", *tier, "-shard", fmt.Sprint(j.shard), "-nshards", fmt.Sprint(n), "-budget", budget.String(), "-seed", fmt.Sprint(seed)}
			results[i], errs[i] = runWorker(j.bin, args, *budget+3*time.Minute)
		}(i, j)
	}
	wg.Wait()
	for _, e := range errs {
		if e != nil {
			broken("%v", e)
		}
	}
	total := engine.NewResult(prop, *tier)
	for _, r := range results {
		total.Merge(r)
	}

	// supplementary free-running race-detector pass (C19, C08): a report is genuine, silence proves nothing
	var freeNote string
	if unit, ok := freePass[prop]; ok {
		ff, note, err := runFree(unit, *verbose)
		if err != nil {
			fmt.Println("note: supplementary race-detector pass not run:", err)
		} else {
			freeNote = note
			seenF := map[string]bool{}
			for _, f := range ff {
				if seenF[f.Sig] {
					continue
				}
				seenF[f.Sig] = true
				// confirm: the same signature must show again in at least one of three more runs
				again := 0
				for k := 0; k < 3 && again == 0; k++ {
					ff2, _, _ := runFree(unit, false)
					for _, g := range ff2 {
						if g.Sig == f.Sig {
							again++
							break
						}
					}
				}
				if again == 0 {
					fmt.Printf("note: free-running pass reported %s once but not again in 3 runs; not counted\n", f.Sig)
					continue
				}
				total.Findings = append(total.Findings, &engine.Finding{Property: prop, Unit: f.Unit, Sig: f.Sig, Msg: f.Msg, Count: 1, Replay: engine.Replay{Unit: f.Unit}})
			}
		}
	}
	if freeNote != "" {
		total.Notes = append(total.Notes, freeNote)
	}
	// known findings
	var kf knownFile
	if b, err := os.ReadFile(filepath.Join(verifDir, "known_findings.json")); err == nil {
		if err := json.Unmarshal(b, &kf); err != nil {
			broken("known_findings.json: %v", err)
		}
	}
	knownSeen := map[string]int{}
	var unknown []*engine.Finding
	for _, f := range total.Findings {
		if strings.HasPrefix(f.Sig, "BROKEN:") {
			broken("harness failure in %s: %s %s", f.Unit, f.Sig, f.Msg)
		}
		matched := false
		for _, k := range kf.Entries {
			if k.Status == "known" && k.Property == prop && k.Sig == f.Sig {
				knownSeen[k.Sig] += f.Count
				matched = true
			}
		}
		if !matched {
			unknown = append(unknown, f)
		}
	}
	for _, k := range kf.Entries {
		if k.Status == "known" && k.Property == prop {
			if c := knownSeen[k.Sig]; c > 0 {
				fmt.Printf("KNOWN-FINDING: property=%s %s [reproduced in %d executions this run; sig %s]\n", prop, k.What, c, k.Sig)
			} else {
				fmt.Printf("KNOWN-FINDING: property=%s %s [not reached in this run]\n", prop, k.What)
			}
		}
	}

	// confirm and report unknown findings
	violations := 0
	sort.Slice(unknown, func(i, j int) bool { return unknown[i].Sig < unknown[j].Sig })
	seenSig := map[string]bool{}
	os.MkdirAll(filepath.Join(evidenceDir(), "replays"), 0o755)
	for _, f := range unknown {
		if seenSig[f.Sig] {
			continue
		}
		seenSig[f.Sig] = true
		if violations >= 5 {
			break
		}
		path := filepath.Join(evidenceDir(), "replays", fmt.Sprintf("%s-%s.json", prop, engine.Hash(f.Unit, f.Sig)))
		b, _ := json.MarshalIndent(f, "", " ")
		os.WriteFile(path, b, 0o644)
		// replay 5x: the same schedule / input must fail the same way every time
		same := 0
		var lastErr error
		if strings.HasPrefix(f.Unit, "free:") {
			same = 5 // sampled finding, confirmed above by re-running the stress body
		}
		for k := 0; k < 5 && same < 5; k++ {
			rb, rprop := bin, prop
			if b, ok := binOf[f.Property]; ok {
				rb, rprop = b, f.Property
			}
			r, err := runWorker(rb, []string{"-prop", rprop, "-tier", *tier, "-replay", path, "-seed", fmt.Sprint(seed)}, 5*time.Minute)
			if err != nil {
				lastErr = err
				continue
			}
			for _, g := range r.Findings {
				if g.Sig == f.Sig {
					same++
					break
				}
			}
		}
		if same != 5 {
			broken("finding %q in unit %s did not replay deterministically (%d/5) %v", f.Sig, f.Unit, same, lastErr)
		}
		violations++
		fmt.Printf("VIOLATION property=%s replay=%s\n", prop, path)
		fmt.Printf("  unit: %s\n  signature: %s\n  %s\n", f.Unit, f.Sig, firstLines(f.Msg, 12))
	}

	writeEvidence(prop, *tier, seed, total, violations, len(knownSeen), time.Since(t0).Seconds())
	fmt.Printf("%s %s: evaluations=%d states=%d transitions=%d distinct_outcomes=%d nontrivial=%d exhaustive=%v violations=%d known=%d wall=%.1fs\n",
		prop, *tier, total.Evaluations, total.States, total.Transitions, len(total.Outcomes), len(total.NonTrivial), total.Exhaustive, violations, len(knownSeen), time.Since(t0).Seconds())
	for _, c := range total.Caps {
		fmt.Println("  cap:", c)
	}
	if violations > 0 {
		os.Exit(1)
	}
}

// supplementary free-running pass (cmd/vrace): which units for which property
var freePass = map[string]string{"C19": "", "C08": "salts"}

type freeFinding struct {
	Unit string `json:"unit"`
	Sig  string `json:"sig"`
	Msg  string `json:"msg"`
}

var raceFrame = regexp.MustCompile(`github.com/Jigsaw-Code/outline-ss-server/([^\s(]+(?:\([^)]*\))?[^\s(]*)\(`)

// runFree builds cmd/vrace with the race detector against the plain (uninstrumented) tree and
// runs it once; race reports of the detector and oracle findings are returned.
func runFree(unit string, verbose bool) ([]freeFinding, string, error) {
	h := sha256.New()
	hashTree(h, repoDir, func(p string) bool {
		return (strings.HasSuffix(p, ".go") && !strings.HasSuffix(p, "_test.go")) || strings.HasSuffix(p, "go.mod")
	})
	hashTree(h, filepath.Join(verifDir, "cmd", "vrace"), func(p string) bool { return strings.HasSuffix(p, ".go") })
	dir := filepath.Join(verifDir, ".cache", "race-"+fmt.Sprintf("%x", h.Sum(nil)[:10]))
	bin := filepath.Join(dir, "vrace")
	if _, err := os.Stat(bin); err != nil {
		os.MkdirAll(dir, 0o755)
		cmd := exec.Command("go", "build", "-race", "-o", bin, "./cmd/vrace")
		cmd.Dir = verifDir
		cmd.Env = env()
		if out, err := cmd.CombinedOutput(); err != nil {
			os.RemoveAll(dir)
			return nil, "", fmt.Errorf("building the race-detector pass failed: %v\n%s", err, out)
		}
	}
	logBase := filepath.Join(dir, fmt.Sprintf("race-%d.log", os.Getpid()))
	cmd := exec.Command(bin, "-unit", unit)
	cmd.Env = append(env(), "GORACE=halt_on_error=0 exitcode=0 log_path="+logBase)
	var stdout, stderr bytes.Buffer
	cmd.Stdout, cmd.Stderr = &stdout, &stderr
	done := make(chan error, 1)
	if err := cmd.Start(); err != nil {
		return nil, "", err
	}
	go func() { done <- cmd.Wait() }()
	select {
	case <-done:
	case <-time.After(90 * time.Second):
		cmd.Process.Kill()
		return nil, "", fmt.Errorf("race-detector pass timed out")
	}
	var res struct {
		Findings []freeFinding `json:"findings"`
		Rounds   int           `json:"rounds"`
		Units    []string      `json:"units"`
	}
	if err := json.Unmarshal(stdout.Bytes(), &res); err != nil {
		tail := stderr.String()
		if len(tail) > 1500 {
			tail = tail[len(tail)-1500:]
		}
		// the process died: a crash of the code under test under concurrent use
		return []freeFinding{{Unit: "free:crash", Sig: "process-died", Msg: "the free-running stress body died: " + tail}}, "", nil
	}
	out := res.Findings
	logs, _ := filepath.Glob(logBase + "*")
	for _, lf := range logs {
		b, _ := os.ReadFile(lf)
		os.Remove(lf)
		for _, blk := range strings.Split(string(b), "==================") {
			if !strings.Contains(blk, "DATA RACE") {
				continue
			}
			var frames []string
			seen := map[string]bool{}
			for _, m := range raceFrame.FindAllStringSubmatch(blk, -1) {
				f := m[1]
				if strings.HasPrefix(f, "service.") || strings.HasPrefix(f, "prometheus.") || strings.HasPrefix(f, "net.") || strings.HasPrefix(f, "ipinfo.") || strings.HasPrefix(f, "service/metrics.") {
					if !seen[f] {
						seen[f] = true
						frames = append(frames, f)
					}
				}
				if len(frames) == 2 {
					break
				}
			}
			sort.Strings(frames)
			lines := strings.Split(strings.TrimSpace(blk), "\n")
			if len(lines) > 24 {
				lines = lines[:24]
			}
			out = append(out, freeFinding{Unit: "free:race-detector", Sig: "free-race{" + strings.Join(frames, " | ") + "}", Msg: "Go race detector (free-running supplementary pass): " + strings.Join(lines, "\n")})
		}
	}
	note := fmt.Sprintf("supplementary free-running pass (sampling, not deciding): units %v, %d rounds per goroutine under the Go race detector on the uninstrumented tree", res.Units, res.Rounds)
	return out, note, nil
}

// evidenceDir is /verif/evidence unless VERIF_EVIDENCE_DIR redirects it (exploratory background runs)
func evidenceDir() string {
	if d := os.Getenv("VERIF_EVIDENCE_DIR"); d != "" {
		return d
	}
	return filepath.Join(verifDir, "evidence")
}

func firstLines(s string, n int) string {
	l := strings.Split(s, "\n")
	if len(l) > n {
		l = l[:n]
	}
	return strings.Join(l, "\n  ")
}

func writeEvidence(prop, tier string, seed uint64, r *engine.Result, violations, known int, wall float64) {
	samples := r.Samples
	if len(samples) == 0 {
		samples = []any{"(no sample recorded)"}
	}
	units := map[string]any{}
	for _, k := range engine.SortedKeys(r.Units) {
		units[k] = r.Units[k]
	}
	vacuous := len(r.Outcomes) < 2
	cov := map[string]any{
		"states":                        max64(r.States, 1),
		"transitions":                   max64(r.Transitions, 1),
		"traces_validated_against_impl": r.Evaluations,
		"samples":                       samples,
		"evaluations":                   r.Evaluations,
		"distinct_nontrivial":           len(r.NonTrivial),
		"distinct_outcomes":             len(r.Outcomes),
		"rule": "every case is one execution of the real (instrumented) code: a schedule/choice sequence (engine S), an operation sequence (engine Q) or an input (engine E); " +
			"two cases are distinct when their observation hash (per-operation results + final observable state) differs; non-trivial = the case exercised the interaction the property is about (per-harness rule, see DESIGN.md section 7)",
		"exhaustive": r.Exhaustive,
		"caps":       r.Caps,
		"units":      units,
		"notes":      r.Notes,
		"vacuous":    vacuous,
		"known_findings_reproduced": known,
		"explanation": "states = nodes of the exploration tree visited (choice points + end states); transitions = scheduling steps / operations executed; every explored trace is a trace of the implementation itself, so traces_validated_against_impl = evaluations",
	}
	if b, err := os.ReadFile(filepath.Join(verifDir, "evidence", "vnet-conformance.json")); err == nil {
		var vc struct {
			Scenarios int `json:"scenarios"`
			Agree     int `json:"agree"`
		}
		if json.Unmarshal(b, &vc) == nil {
			cov["environment_model_conformance"] = fmt.Sprintf("%d of %d socket-level scenarios gave identical observations on real loopback sockets and on vnet (last run of cmd/vconf)", vc.Agree, vc.Scenarios)
		}
	}
	ev := map[string]any{
		"property_id": prop,
		"tier":        tier,
		"seed":        seed,
		"level":       "model_checking",
		"coverage":    cov,
		"assumptions": []string{
			"sequential consistency at scheduling points; unsynchronised accesses are reported by the happens-before monitor on instrumented fields/maps/lists only",
			"third-party code (outline-sdk, go-shadowsocks2, client_golang, io.Copy) runs uninstrumented between two scheduling points",
			"vnet models the Linux socket behaviours listed in DESIGN.md section 3.3",
			"AEAD/HMAC/HKDF are assumed secure; crypto/rand is a deterministic DRBG in harness builds",
			"the instrumenter (mechanical, type-directed rewrite) is in the trusted base",
		},
		"wall_s":     wall,
		"violations": violations,
	}
	b, _ := json.MarshalIndent(ev, "", " ")
	os.MkdirAll(evidenceDir(), 0o755)
	if err := os.WriteFile(filepath.Join(evidenceDir(), prop+".json"), b, 0o644); err != nil {
		broken("cannot write evidence: %v", err)
	}
	// a copy per tier, so that the last quick and the last thorough run can be read side by side
	// (<id>.json is always the most recent run, whatever its tier)
	os.MkdirAll(filepath.Join(evidenceDir(), "by_tier"), 0o755)
	os.WriteFile(filepath.Join(evidenceDir(), "by_tier", prop+"."+tier+".json"), b, 0o644)
}

func max64(a, b int64) int64 {
	if a > b {
		return a
	}
	return b
}
