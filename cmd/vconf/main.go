// vconf runs the vnet conformance suite (real loopback sockets vs. vnet) and writes
// evidence/vnet-conformance.json. Exit 0 if every scenario agrees (or loopback is unusable,
// which is reported), 1 otherwise.
package main

import (
	"encoding/json"
	"fmt"
	"net"
	"os"

	"verif/harness/conf"
)

func main() {
	if l, err := net.Listen("tcp", "127.0.0.1:0"); err != nil {
		fmt.Println("vnet-conformance: loopback sockets are not available here, skipped:", err)
		return
	} else {
		l.Close()
	}
	res := conf.RunAll()
	agree := 0
	for _, r := range res {
		if r.Agree {
			agree++
		} else {
			fmt.Printf("DISAGREE %s %s\n  real: %q\n  vnet: %q\n", r.Name, r.Note, r.Real, r.Vnet)
		}
	}
	b, _ := json.MarshalIndent(map[string]any{"scenarios": len(res), "agree": agree, "results": res}, "", " ")
	os.MkdirAll("/verif/evidence", 0o755)
	os.WriteFile("/verif/evidence/vnet-conformance.json", b, 0o644)
	fmt.Printf("vnet-conformance: %d of %d scenarios agree\n", agree, len(res))
	if agree != len(res) {
		os.Exit(1)
	}
}
