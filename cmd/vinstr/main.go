// vinstr runs the instrumenter by hand (debugging aid): vinstr -out DIR [-hb=false]
package main

import (
	"flag"
	"fmt"
	"os"

	"verif/instr"
)

func main() {
	out := flag.String("out", "", "output directory")
	repo := flag.String("repo", "/repo", "repository root")
	hb := flag.Bool("hb", true, "instrument memory accesses")
	inject := flag.String("main-inject", "", "file to add to package main")
	flag.Parse()
	if *out == "" {
		fmt.Fprintln(os.Stderr, "need -out")
		os.Exit(2)
	}
	res, err := instr.Run(instr.Config{Repo: *repo, OutDir: *out, HB: *hb, MainInject: *inject})
	if err != nil {
		fmt.Fprintln(os.Stderr, "BROKEN: instrumenter:", err)
		os.Exit(2)
	}
	fmt.Println("overlay:", res.Overlay, "files:", res.Files, res.SortedStats())
}
