// vrace is the SUPPLEMENTARY free-running pass (sampling, not the deciding technique): the
// same component bodies the model-checking harnesses use, run by real goroutines on the
// uninstrumented code of /repo under Go's race detector, plus oracles that cannot give a
// false alarm (a salt the key's own generator does not recognise, a snapshot that is not a
// permutation). It reaches what the cooperative scheduler cannot: conflicting accesses that
// lie between two scheduling points with no synchronisation operation or instrumented
// field in between (slice elements written inside third-party calls, e.g. a shared scratch
// buffer handed to hmac.Sum). A race report of the detector is always genuine; not seeing
// one proves nothing.
//
// Usage: vrace [-unit name] [-rounds n]; prints JSON {"findings":[{"unit","sig","msg"}], "rounds":…}.
// Build: go build -race ./cmd/vrace (done by vcheck). GORACE log_path is set by the caller.
package main

import (
	"container/list"
	"encoding/json"
	"flag"
	"fmt"
	"io"
	"log"
	"log/slog"
	"net"
	"net/netip"
	"os"
	"sort"
	"strings"
	"sync"
	"time"

	"github.com/Jigsaw-Code/outline-sdk/transport/shadowsocks"
	"github.com/Jigsaw-Code/outline-ss-server/ipinfo"
	outline_prometheus "github.com/Jigsaw-Code/outline-ss-server/prometheus"
	"github.com/Jigsaw-Code/outline-ss-server/service"
	"github.com/Jigsaw-Code/outline-ss-server/service/metrics"
	"github.com/prometheus/client_golang/prometheus"
)

type finding struct {
	Unit string `json:"unit"`
	Sig  string `json:"sig"`
	Msg  string `json:"msg"`
}

var (
	mu       sync.Mutex
	findings []finding
)

func report(unit, sig, msg string) {
	mu.Lock()
	defer mu.Unlock()
	for _, f := range findings {
		if f.Unit == unit && f.Sig == sig {
			return
		}
	}
	findings = append(findings, finding{unit, sig, msg})
}

var ciphers = []string{"chacha20-ietf-poly1305", "aes-256-gcm", "aes-192-gcm", "aes-128-gcm"}

func par(n int, f func(g int)) {
	var wg sync.WaitGroup
	for g := 0; g < n; g++ {
		wg.Add(1)
		go func(g int) {
			defer wg.Done()
			defer func() {
				if r := recover(); r != nil {
					msg := fmt.Sprint(r)
					report("free:panic", "panic{"+normalise(msg)+"}", "a goroutine of the stress body panicked (the code under test crashed under concurrent use): "+msg)
				}
			}()
			f(g)
		}(g)
	}
	wg.Wait()
}

// salts: many connections of one key at once draw and verify server salts
func unitSalts(rounds int) {
	for _, c := range ciphers {
		key, err := shadowsocks.NewEncryptionKey(c, "s@lt")
		if err != nil {
			panic(err)
		}
		e := service.MakeCipherEntry("k", key, "s@lt")
		marked := key.SaltSize() >= 20
		par(8, func(g int) {
			salt := make([]byte, key.SaltSize())
			for i := 0; i < rounds; i++ {
				if err := e.SaltGenerator.GetSalt(salt); err != nil {
					report("free:salts", "getsalt-error", err.Error())
					return
				}
				if marked && !e.SaltGenerator.IsServerSalt(salt) {
					report("free:salts", "salt-unrecognised{concurrent}", fmt.Sprintf("cipher %s: a salt drawn while other connections of the same key draw theirs is not recognised by the key's own generator", c))
					return
				}
			}
		})
	}
}

func unitKeyList(rounds int) {
	mk := func(ids ...string) *list.List {
		l := list.New()
		for i, id := range ids {
			key, _ := shadowsocks.NewEncryptionKey(ciphers[i%4], "secret-"+id)
			e := service.MakeCipherEntry(id, key, "secret-"+id)
			l.PushBack(&e)
		}
		return l
	}
	cl := service.NewCipherList()
	cl.Update(mk("a", "b", "c", "d"))
	ips := []netip.Addr{netip.MustParseAddr("203.0.113.5"), netip.MustParseAddr("2001:db8::5")}
	par(6, func(g int) {
		for i := 0; i < rounds; i++ {
			switch g % 3 {
			case 0:
				snap := cl.SnapshotForClientIP(ips[i%2])
				seen := map[string]bool{}
				for _, e := range snap {
					if e == nil {
						report("free:keylist", "snapshot-nil-element", "snapshot contains a nil element")
						return
					}
					id := e.Value.(*service.CipherEntry).ID
					if seen[id] {
						report("free:keylist", "snapshot-duplicate", "snapshot lists "+id+" twice")
						return
					}
					seen[id] = true
				}
			case 1:
				snap := cl.SnapshotForClientIP(ips[g%2])
				if len(snap) > 0 {
					cl.MarkUsedByClientIP(snap[(i+g)%len(snap)], ips[i%2])
				}
			case 2:
				if i%50 == 0 {
					cl.Update(mk("a", "b", "c", "d"))
				}
			}
		}
	})
}

func unitReplay(rounds int) {
	c := service.NewReplayCache(50)
	par(6, func(g int) {
		salt := make([]byte, 32)
		for i := 0; i < rounds; i++ {
			salt[1], salt[2], salt[3] = byte(i), byte(i>>8), byte(g%3)
			c.Add("k", salt)
			if g == 5 && i%100 == 0 {
				c.Resize(10 + i%40)
			}
		}
	})
}

type memConn struct{ remote net.Addr }

func (c memConn) Read([]byte) (int, error)         { return 0, nil }
func (c memConn) Write(b []byte) (int, error)      { return len(b), nil }
func (c memConn) Close() error                     { return nil }
func (c memConn) LocalAddr() net.Addr              { return &net.TCPAddr{IP: net.IPv4(192, 0, 2, 1), Port: 9000} }
func (c memConn) RemoteAddr() net.Addr             { return c.remote }
func (c memConn) SetDeadline(time.Time) error      { return nil }
func (c memConn) SetReadDeadline(time.Time) error  { return nil }
func (c memConn) SetWriteDeadline(time.Time) error { return nil }

type db struct{}

func (db) GetIPInfo(net.IP) (ipinfo.IPInfo, error) { return ipinfo.IPInfo{CountryCode: "US"}, nil }

func unitCollectors(rounds int) {
	sm, err := outline_prometheus.NewServiceMetrics(db{})
	if err != nil {
		panic(err)
	}
	var s service.ServiceMetrics = sm
	par(6, func(g int) {
		for i := 0; i < rounds/4; i++ {
			switch g % 3 {
			case 0:
				cm := s.AddOpenTCPConnection(memConn{&net.TCPAddr{IP: net.IPv4(93, 184, 216, byte(1+i%3)), Port: 1000 + g}})
				cm.AddAuthenticated("k1")
				cm.AddClosed("OK", metrics.ProxyMetrics{ClientProxy: 1}, time.Millisecond)
			case 1:
				um := s.AddUDPNatEntry(&net.UDPAddr{IP: net.IPv4(93, 184, 216, byte(1+i%3)), Port: 2000 + g}, "k1")
				um.AddPacketFromClient("OK", 10, 5)
				um.RemoveNatEntry()
			case 2:
				ch := make(chan prometheus.Metric, 4096)
				sm.Collect(ch)
			}
		}
	})
}

func normalise(s string) string {
	b := []byte(s)
	for i := range b {
		if b[i] >= '0' && b[i] <= '9' {
			b[i] = '#'
		}
	}
	if len(b) > 80 {
		b = b[:80]
	}
	return string(b)
}

func main() {
	log.SetOutput(io.Discard)
	slog.SetDefault(slog.New(slog.NewTextHandler(io.Discard, nil)))
	unit := flag.String("unit", "", "run only this unit")
	rounds := flag.Int("rounds", 3000, "iterations per goroutine")
	flag.Parse()
	units := map[string]func(int){"salts": unitSalts, "keylist": unitKeyList, "replay": unitReplay, "collectors": unitCollectors}
	var names []string
	for n := range units {
		names = append(names, n)
	}
	sort.Strings(names)
	var ran []string
	for _, n := range names {
		if *unit != "" && !strings.HasSuffix(*unit, n) {
			continue
		}
		ran = append(ran, n)
		func() {
			defer func() {
				if r := recover(); r != nil {
					report("free:"+n, "panic", fmt.Sprint(r))
				}
			}()
			units[n](*rounds)
		}()
	}
	json.NewEncoder(os.Stdout).Encode(map[string]any{"findings": findings, "rounds": *rounds, "units": ran})
}
