// vworker runs one shard of one property harness inside the instrumented build and
// prints an engine.Result as JSON on stdout.
package main

import (
	"verif/harness/hk"
	"verif/worker"

	_ "verif/harness/c01"
	_ "verif/harness/c02"
	_ "verif/harness/c03"
	_ "verif/harness/c04"
	_ "verif/harness/c05"
	_ "verif/harness/c06"
	_ "verif/harness/c07"
	_ "verif/harness/c08"
	_ "verif/harness/c12"
	_ "verif/harness/c13"
	_ "verif/harness/c14"
	_ "verif/harness/c15"
	_ "verif/harness/c16"
	_ "verif/harness/c17"
	_ "verif/harness/c18"
	_ "verif/harness/c19"
	_ "verif/harness/c20"
)

func main() { worker.Main(hk.Registry, hk.Replayers) }
