// Package vatomic replaces sync/atomic in instrumented builds: every atomic operation is a
// scheduling point and a happens-before edge (loads acquire, stores release, read-modify-write
// operations do both; Go's atomics are sequentially consistent), carried out on the real atomic
// underneath. Outside a controlled execution the operations are the plain ones.
package vatomic

import (
	"sync/atomic"
	"unsafe"

	"verif/rt/vrt"
)

func load(p unsafe.Pointer)  { vrt.AtomicOp(p, true, false) }
func store(p unsafe.Pointer) { vrt.AtomicOp(p, false, true) }
func rmw(p unsafe.Pointer)   { vrt.AtomicOp(p, true, true) }

type Int32 struct{ v atomic.Int32 }

func (x *Int32) Load() int32           { load(unsafe.Pointer(x)); return x.v.Load() }
func (x *Int32) Store(val int32)       { store(unsafe.Pointer(x)); x.v.Store(val) }
func (x *Int32) Swap(new int32) int32  { rmw(unsafe.Pointer(x)); return x.v.Swap(new) }
func (x *Int32) Add(delta int32) int32 { rmw(unsafe.Pointer(x)); return x.v.Add(delta) }
func (x *Int32) CompareAndSwap(old, new int32) bool {
	rmw(unsafe.Pointer(x))
	return x.v.CompareAndSwap(old, new)
}

func LoadInt32(addr *int32) int32       { load(unsafe.Pointer(addr)); return atomic.LoadInt32(addr) }
func StoreInt32(addr *int32, val int32) { store(unsafe.Pointer(addr)); atomic.StoreInt32(addr, val) }
func SwapInt32(addr *int32, new int32) int32 {
	rmw(unsafe.Pointer(addr))
	return atomic.SwapInt32(addr, new)
}
func AddInt32(addr *int32, delta int32) int32 {
	rmw(unsafe.Pointer(addr))
	return atomic.AddInt32(addr, delta)
}
func CompareAndSwapInt32(addr *int32, old, new int32) bool {
	rmw(unsafe.Pointer(addr))
	return atomic.CompareAndSwapInt32(addr, old, new)
}

type Int64 struct{ v atomic.Int64 }

func (x *Int64) Load() int64           { load(unsafe.Pointer(x)); return x.v.Load() }
func (x *Int64) Store(val int64)       { store(unsafe.Pointer(x)); x.v.Store(val) }
func (x *Int64) Swap(new int64) int64  { rmw(unsafe.Pointer(x)); return x.v.Swap(new) }
func (x *Int64) Add(delta int64) int64 { rmw(unsafe.Pointer(x)); return x.v.Add(delta) }
func (x *Int64) CompareAndSwap(old, new int64) bool {
	rmw(unsafe.Pointer(x))
	return x.v.CompareAndSwap(old, new)
}

func LoadInt64(addr *int64) int64       { load(unsafe.Pointer(addr)); return atomic.LoadInt64(addr) }
func StoreInt64(addr *int64, val int64) { store(unsafe.Pointer(addr)); atomic.StoreInt64(addr, val) }
func SwapInt64(addr *int64, new int64) int64 {
	rmw(unsafe.Pointer(addr))
	return atomic.SwapInt64(addr, new)
}
func AddInt64(addr *int64, delta int64) int64 {
	rmw(unsafe.Pointer(addr))
	return atomic.AddInt64(addr, delta)
}
func CompareAndSwapInt64(addr *int64, old, new int64) bool {
	rmw(unsafe.Pointer(addr))
	return atomic.CompareAndSwapInt64(addr, old, new)
}

type Uint32 struct{ v atomic.Uint32 }

func (x *Uint32) Load() uint32            { load(unsafe.Pointer(x)); return x.v.Load() }
func (x *Uint32) Store(val uint32)        { store(unsafe.Pointer(x)); x.v.Store(val) }
func (x *Uint32) Swap(new uint32) uint32  { rmw(unsafe.Pointer(x)); return x.v.Swap(new) }
func (x *Uint32) Add(delta uint32) uint32 { rmw(unsafe.Pointer(x)); return x.v.Add(delta) }
func (x *Uint32) CompareAndSwap(old, new uint32) bool {
	rmw(unsafe.Pointer(x))
	return x.v.CompareAndSwap(old, new)
}

func LoadUint32(addr *uint32) uint32 { load(unsafe.Pointer(addr)); return atomic.LoadUint32(addr) }
func StoreUint32(addr *uint32, val uint32) {
	store(unsafe.Pointer(addr))
	atomic.StoreUint32(addr, val)
}
func SwapUint32(addr *uint32, new uint32) uint32 {
	rmw(unsafe.Pointer(addr))
	return atomic.SwapUint32(addr, new)
}
func AddUint32(addr *uint32, delta uint32) uint32 {
	rmw(unsafe.Pointer(addr))
	return atomic.AddUint32(addr, delta)
}
func CompareAndSwapUint32(addr *uint32, old, new uint32) bool {
	rmw(unsafe.Pointer(addr))
	return atomic.CompareAndSwapUint32(addr, old, new)
}

type Uint64 struct{ v atomic.Uint64 }

func (x *Uint64) Load() uint64            { load(unsafe.Pointer(x)); return x.v.Load() }
func (x *Uint64) Store(val uint64)        { store(unsafe.Pointer(x)); x.v.Store(val) }
func (x *Uint64) Swap(new uint64) uint64  { rmw(unsafe.Pointer(x)); return x.v.Swap(new) }
func (x *Uint64) Add(delta uint64) uint64 { rmw(unsafe.Pointer(x)); return x.v.Add(delta) }
func (x *Uint64) CompareAndSwap(old, new uint64) bool {
	rmw(unsafe.Pointer(x))
	return x.v.CompareAndSwap(old, new)
}

func LoadUint64(addr *uint64) uint64 { load(unsafe.Pointer(addr)); return atomic.LoadUint64(addr) }
func StoreUint64(addr *uint64, val uint64) {
	store(unsafe.Pointer(addr))
	atomic.StoreUint64(addr, val)
}
func SwapUint64(addr *uint64, new uint64) uint64 {
	rmw(unsafe.Pointer(addr))
	return atomic.SwapUint64(addr, new)
}
func AddUint64(addr *uint64, delta uint64) uint64 {
	rmw(unsafe.Pointer(addr))
	return atomic.AddUint64(addr, delta)
}
func CompareAndSwapUint64(addr *uint64, old, new uint64) bool {
	rmw(unsafe.Pointer(addr))
	return atomic.CompareAndSwapUint64(addr, old, new)
}

type Uintptr struct{ v atomic.Uintptr }

func (x *Uintptr) Load() uintptr             { load(unsafe.Pointer(x)); return x.v.Load() }
func (x *Uintptr) Store(val uintptr)         { store(unsafe.Pointer(x)); x.v.Store(val) }
func (x *Uintptr) Swap(new uintptr) uintptr  { rmw(unsafe.Pointer(x)); return x.v.Swap(new) }
func (x *Uintptr) Add(delta uintptr) uintptr { rmw(unsafe.Pointer(x)); return x.v.Add(delta) }
func (x *Uintptr) CompareAndSwap(old, new uintptr) bool {
	rmw(unsafe.Pointer(x))
	return x.v.CompareAndSwap(old, new)
}

func LoadUintptr(addr *uintptr) uintptr { load(unsafe.Pointer(addr)); return atomic.LoadUintptr(addr) }
func StoreUintptr(addr *uintptr, val uintptr) {
	store(unsafe.Pointer(addr))
	atomic.StoreUintptr(addr, val)
}
func SwapUintptr(addr *uintptr, new uintptr) uintptr {
	rmw(unsafe.Pointer(addr))
	return atomic.SwapUintptr(addr, new)
}
func AddUintptr(addr *uintptr, delta uintptr) uintptr {
	rmw(unsafe.Pointer(addr))
	return atomic.AddUintptr(addr, delta)
}
func CompareAndSwapUintptr(addr *uintptr, old, new uintptr) bool {
	rmw(unsafe.Pointer(addr))
	return atomic.CompareAndSwapUintptr(addr, old, new)
}

type Bool struct{ v atomic.Bool }

func (x *Bool) Load() bool         { load(unsafe.Pointer(x)); return x.v.Load() }
func (x *Bool) Store(val bool)     { store(unsafe.Pointer(x)); x.v.Store(val) }
func (x *Bool) Swap(new bool) bool { rmw(unsafe.Pointer(x)); return x.v.Swap(new) }
func (x *Bool) CompareAndSwap(old, new bool) bool {
	rmw(unsafe.Pointer(x))
	return x.v.CompareAndSwap(old, new)
}

type Pointer[T any] struct{ v atomic.Pointer[T] }

func (x *Pointer[T]) Load() *T       { load(unsafe.Pointer(x)); return x.v.Load() }
func (x *Pointer[T]) Store(val *T)   { store(unsafe.Pointer(x)); x.v.Store(val) }
func (x *Pointer[T]) Swap(new *T) *T { rmw(unsafe.Pointer(x)); return x.v.Swap(new) }
func (x *Pointer[T]) CompareAndSwap(old, new *T) bool {
	rmw(unsafe.Pointer(x))
	return x.v.CompareAndSwap(old, new)
}

type Value struct{ v atomic.Value }

func (x *Value) Load() any        { load(unsafe.Pointer(x)); return x.v.Load() }
func (x *Value) Store(val any)    { store(unsafe.Pointer(x)); x.v.Store(val) }
func (x *Value) Swap(new any) any { rmw(unsafe.Pointer(x)); return x.v.Swap(new) }
func (x *Value) CompareAndSwap(old, new any) bool {
	rmw(unsafe.Pointer(x))
	return x.v.CompareAndSwap(old, new)
}

func LoadPointer(addr *unsafe.Pointer) unsafe.Pointer {
	load(unsafe.Pointer(addr))
	return atomic.LoadPointer(addr)
}
func StorePointer(addr *unsafe.Pointer, val unsafe.Pointer) {
	store(unsafe.Pointer(addr))
	atomic.StorePointer(addr, val)
}
func SwapPointer(addr *unsafe.Pointer, new unsafe.Pointer) unsafe.Pointer {
	rmw(unsafe.Pointer(addr))
	return atomic.SwapPointer(addr, new)
}
func CompareAndSwapPointer(addr *unsafe.Pointer, old, new unsafe.Pointer) bool {
	rmw(unsafe.Pointer(addr))
	return atomic.CompareAndSwapPointer(addr, old, new)
}
