// Package vnet is the environment model: an in-memory IP stack (TCP listeners and
// connections, UDP sockets, a dialer with Control, a scripted resolver) driven by
// the controlled scheduler and the virtual clock. Every blocking call is a
// scheduling point with an enabled predicate on the modelled socket state.
//
// The behaviours the oracles rely on are pinned to the real kernel by the
// conformance suite (harness/conf).
package vnet

import (
	"context"
	"errors"
	"fmt"
	"io"
	"net"
	"net/netip"
	"os"
	"sort"
	"strconv"
	"syscall"
	"time"

	"github.com/Jigsaw-Code/outline-sdk/transport"

	"verif/rt/vrt"
)

type World struct {
	tcpLn    []*TCPListener
	udp      []*UDPConn
	conns    []*TCPConn
	nextPort int
	nextID   int

	ProxyIP4        net.IP // source address of outbound sockets of the system under test
	ProxyIP6        net.IP
	Hosts           map[string][]net.IP // scripted resolver
	BindErr         map[string]error    // "tcp/<addr>" or "udp/<addr>" as passed by the caller -> error
	DialErr         map[string]error    // "ip:port" -> error returned by connect
	DialHang        map[string]bool     // "ip:port" -> the connect never completes: the dial returns only when its context is cancelled
	UDPSocketFailAt int                 // the n-th (1-based) outbound ListenPacket("udp","") fails; 0 = never
	udpOutCount     int
	TCPBuf          int // receive buffer size of TCP endpoints
	TCPSndBuf       int // send buffer size of TCP endpoints; 0 = no send queue (a write blocks until the peer's receive buffer takes the bytes)
	UDPQueue        int // datagrams a UDP socket queues before dropping
}

var W *World

// Reset installs a fresh world (call at the start of every execution).
func Reset() *World {
	W = &World{
		nextPort: 40000,
		ProxyIP4: net.ParseIP("198.51.100.1").To4(),
		ProxyIP6: net.ParseIP("2001:db8:ffff::1"),
		Hosts:    map[string][]net.IP{},
		BindErr:  map[string]error{},
		DialErr:  map[string]error{},
		DialHang: map[string]bool{},
		TCPBuf:   65536,
		UDPQueue: 64,
	}
	return W
}

func (w *World) id() int { w.nextID++; return w.nextID }

func (w *World) ephemeral() int {
	for {
		w.nextPort++
		p := w.nextPort
		free := true
		for _, l := range w.tcpLn {
			if !l.closed && l.addr.Port == p {
				free = false
			}
		}
		for _, u := range w.udp {
			if !u.closed && u.local.Port == p {
				free = false
			}
		}
		if free {
			return p
		}
	}
}

func isWild(ip net.IP) bool { return len(ip) == 0 || ip.IsUnspecified() }

func sameIP(a, b net.IP, za, zb string) bool { return a.Equal(b) && za == zb }

// ---------------------------------------------------------------------------
// errors

// dialTimeoutErr: what net.Dialer reports when its deadline passes ("i/o timeout", matches
// context.DeadlineExceeded, not os.ErrDeadlineExceeded).
type dialTimeoutErr struct{}

func (dialTimeoutErr) Error() string   { return "i/o timeout" }
func (dialTimeoutErr) Timeout() bool   { return true }
func (dialTimeoutErr) Temporary() bool { return true }
func (dialTimeoutErr) Is(t error) bool { return t == context.DeadlineExceeded }

type timeoutErr struct{}

func (timeoutErr) Error() string   { return "i/o timeout" }
func (timeoutErr) Timeout() bool   { return true }
func (timeoutErr) Temporary() bool { return true }
func (timeoutErr) Is(t error) bool { return t == os.ErrDeadlineExceeded }

func opErr(op, netw string, src, dst net.Addr, err error) error {
	return &net.OpError{Op: op, Net: netw, Source: src, Addr: dst, Err: err}
}

var errReset = os.NewSyscallError("read", syscall.ECONNRESET)
var errPipe = os.NewSyscallError("write", syscall.EPIPE)
var errRefused = os.NewSyscallError("connect", syscall.ECONNREFUSED)
var errAddrInUse = os.NewSyscallError("bind", syscall.EADDRINUSE)

// ErrTransientAccept is the injected non-ErrClosed accept failure.
var ErrTransientAccept = os.NewSyscallError("accept4", syscall.EMFILE)

// ---------------------------------------------------------------------------
// TCP

type TCPListener struct {
	w          *World
	addr       *net.TCPAddr
	backlog    []*TCPConn
	closed     bool
	Owner      string
	acceptErrs int // pending injected transient errors
	Accepted   int
}

type TCPConn struct {
	w             *World
	ID            int
	Side          string // "dial" or "acc"
	Owner         string // "srv" or "env"
	local, remote *net.TCPAddr
	peer          *TCPConn
	rbuf          []byte
	peerFin       bool
	rst           bool
	rstSeen       bool // the reset has been reported to the application (by a read or a write)
	rstByPeer     bool // the peer reset the connection by itself (not in answer to data we sent to a closed socket)
	readClosed    bool
	writeClosed   bool
	closed        bool
	rdl, wdl      time.Time
	BytesRead     int64
	BytesWritten  int64
	ClosedAt      time.Duration
	FinAt         time.Duration // when this side sent FIN (CloseWrite or Close), -1 if never
	SentRST       bool
	// send queue: bytes this side has written that the peer's receive buffer had no room for yet.
	// Only used when a send buffer size is configured (World.TCPSndBuf or SetWriteBuffer);
	// otherwise a write blocks until the peer's receive buffer takes the bytes. Unsent bytes are
	// lost when the connection is reset (by either side); a FIN is delivered after them.
	sq         []byte
	finQueued  bool
	lingerZero bool // SO_LINGER with a zero timeout
	sndBuf     int  // 0: the world's default
	rcvBuf     int  // 0: the world's default
}

func (c *TCPConn) sndCap() int {
	if c.sndBuf > 0 {
		return c.sndBuf
	}
	return c.w.TCPSndBuf
}

func (c *TCPConn) rcvCap() int {
	if c.rcvBuf > 0 {
		return c.rcvBuf
	}
	return c.w.TCPBuf
}

// flush moves queued bytes of c into the peer's receive buffer as far as it has room, and delivers
// a queued FIN once the queue is empty.
func (c *TCPConn) flush() {
	p := c.peer
	if len(c.sq) > 0 {
		if p.closed || p.readClosed {
			c.sq = nil
		} else if room := p.rcvCap() - len(p.rbuf); room > 0 {
			n := len(c.sq)
			if n > room {
				n = room
			}
			p.rbuf = append(p.rbuf, c.sq[:n]...)
			c.sq = c.sq[n:]
		}
	}
	if len(c.sq) == 0 && c.finQueued {
		c.finQueued = false
		p.peerFin = true
	}
}

// reset: the connection is reset; what either side had not sent yet is lost (what a side has
// already received stays readable, then its reads fail).
func (c *TCPConn) reset() {
	c.sq, c.finQueued = nil, false
	c.peer.sq, c.peer.finQueued = nil, false
}

func (c *TCPConn) Name() string      { return fmt.Sprintf("c%d/%s", c.ID, c.Side) }
func (c *TCPConn) Peer() *TCPConn    { return c.peer }
func (c *TCPConn) IsClosed() bool    { return c.closed }
func (c *TCPConn) WriteClosed() bool { return c.writeClosed || c.closed }
func (c *TCPConn) GotRST() bool      { return c.rst }
func (c *TCPConn) Unread() int       { return len(c.rbuf) }

func (w *World) bindConflictTCP(a *net.TCPAddr) bool {
	for _, l := range w.tcpLn {
		if l.closed || l.addr.Port != a.Port {
			continue
		}
		if isWild(l.addr.IP) || isWild(a.IP) || sameIP(l.addr.IP, a.IP, l.addr.Zone, a.Zone) {
			return true
		}
	}
	return false
}

func (w *World) listenTCP(owner string, a *net.TCPAddr) (*TCPListener, error) {
	if a == nil {
		a = &net.TCPAddr{}
	}
	laddr := &net.TCPAddr{IP: a.IP, Port: a.Port, Zone: a.Zone}
	if isWild(laddr.IP) {
		laddr.IP = net.IPv6zero
	}
	if e, ok := w.BindErr["tcp/"+a.String()]; ok && owner == "srv" {
		return nil, opErr("listen", "tcp", nil, a, e)
	}
	if laddr.Port == 0 {
		laddr.Port = w.ephemeral()
	} else if w.bindConflictTCP(laddr) {
		return nil, opErr("listen", "tcp", nil, a, errAddrInUse)
	}
	l := &TCPListener{w: w, addr: laddr, Owner: owner}
	w.tcpLn = append(w.tcpLn, l)
	vrt.Log("tcp.listen", laddr.String(), owner, 0)
	return l, nil
}

// ListenTCP is the replacement of net.ListenTCP for the system under test.
func ListenTCP(network string, a *net.TCPAddr) (*TCPListener, error) {
	if vrt.Aborting() {
		return nil, net.ErrClosed
	}
	vrt.Yield("listen")
	return W.listenTCP("srv", a)
}

// Listen is the replacement of net.Listen (tcp only).
func Listen(network, address string) (net.Listener, error) {
	a, err := ResolveTCPAddr(network, address)
	if err != nil {
		return nil, err
	}
	return ListenTCP(network, a)
}

func (l *TCPListener) Addr() net.Addr { return l.addr }

func (l *TCPListener) AcceptTCP() (*TCPConn, error) {
	if vrt.Aborting() {
		return nil, net.ErrClosed
	}
	vrt.WaitUntil("accept", l, func() bool { return l.closed || len(l.backlog) > 0 || l.acceptErrs > 0 })
	if vrt.Aborting() {
		return nil, net.ErrClosed
	}
	if l.closed {
		return nil, opErr("accept", "tcp", nil, l.addr, net.ErrClosed)
	}
	if l.acceptErrs > 0 {
		l.acceptErrs--
		return nil, opErr("accept", "tcp", nil, l.addr, ErrTransientAccept)
	}
	c := l.backlog[0]
	l.backlog = l.backlog[1:]
	l.Accepted++
	vrt.Log("tcp.accept", c.Name(), c.remote.String(), 0)
	return c, nil
}

func (l *TCPListener) Accept() (net.Conn, error) {
	c, err := l.AcceptTCP()
	if err != nil {
		return nil, err
	}
	return c, nil
}

func (l *TCPListener) Close() error {
	if vrt.Aborting() {
		return nil
	}
	vrt.Yield("listener.close")
	if l.closed {
		return opErr("close", "tcp", nil, l.addr, net.ErrClosed)
	}
	l.closed = true
	for _, c := range l.backlog {
		// never accepted: the kernel resets them
		c.closed = true
		c.ClosedAt = vrt.NowQuiet().Sub(vrt.Epoch)
		c.SentRST = true
		c.peer.rst, c.peer.rstByPeer = true, true
	}
	l.backlog = nil
	vrt.Log("tcp.listener.close", l.addr.String(), l.Owner, 0)
	return nil
}

func (l *TCPListener) SetDeadline(t time.Time) error { return nil }

// InjectAcceptError makes the next Accept fail once with a transient error.
func (l *TCPListener) InjectAcceptError() { l.acceptErrs++ }
func (l *TCPListener) IsClosed() bool     { return l.closed }
func (l *TCPListener) Backlog() int       { return len(l.backlog) }

func (w *World) findListener(ip net.IP, port int, zone string) *TCPListener {
	var wild *TCPListener
	for _, l := range w.tcpLn {
		if l.closed || l.addr.Port != port {
			continue
		}
		if sameIP(l.addr.IP, ip, l.addr.Zone, zone) {
			return l
		}
		if isWild(l.addr.IP) {
			wild = l
		}
	}
	return wild
}

func (w *World) connect(owner string, laddr, raddr *net.TCPAddr) (*TCPConn, error) {
	if e, ok := w.DialErr[raddr.String()]; ok {
		vrt.Log("tcp.connect.fail", laddr.String(), raddr.String(), 0)
		return nil, opErr("dial", "tcp", nil, raddr, e)
	}
	vrt.Log("tcp.connect", laddr.String(), raddr.String(), 0)
	if owner == "srv" {
		vrt.Log("srv.tcp.out", laddr.String(), raddr.String(), 0)
	}
	l := w.findListener(raddr.IP, raddr.Port, raddr.Zone)
	if l == nil {
		return nil, opErr("dial", "tcp", nil, raddr, errRefused)
	}
	id := w.id()
	never := time.Duration(-1)
	a := &TCPConn{w: w, ID: id, Side: "dial", Owner: owner, local: laddr, remote: raddr, FinAt: never, ClosedAt: never}
	b := &TCPConn{w: w, ID: id, Side: "acc", Owner: l.Owner, local: raddr, remote: laddr, FinAt: never, ClosedAt: never}
	a.peer, b.peer = b, a
	w.conns = append(w.conns, a, b)
	l.backlog = append(l.backlog, b)
	return a, nil
}

func (c *TCPConn) LocalAddr() net.Addr  { return c.local }
func (c *TCPConn) RemoteAddr() net.Addr { return c.remote }

func (c *TCPConn) Read(b []byte) (int, error) {
	if vrt.Aborting() {
		return 0, net.ErrClosed
	}
	if c.closed {
		vrt.Step("tcp.read(closed)")
		return 0, opErr("read", "tcp", c.local, c.remote, net.ErrClosed)
	}
	if len(b) == 0 {
		return 0, nil
	}
	vrt.WaitUntilOr("tcp.read", c,
		func() bool { return len(c.rbuf) > 0 || c.peerFin || c.rst || c.closed || c.readClosed },
		func() time.Time { return c.rdl })
	if vrt.Aborting() {
		return 0, net.ErrClosed
	}
	now := vrt.NowQuiet()
	switch {
	case c.closed:
		return 0, opErr("read", "tcp", c.local, c.remote, net.ErrClosed)
	case !c.rdl.IsZero() && !c.rdl.After(now):
		return 0, opErr("read", "tcp", c.local, c.remote, timeoutErr{})
	case c.readClosed:
		return 0, io.EOF
	case len(c.rbuf) > 0:
		// (also after a reset: what was received before the RST stays readable, as on Linux)
		n := copy(b, c.rbuf)
		c.rbuf = c.rbuf[n:]
		c.BytesRead += int64(n)
		c.peer.flush()
		return n, nil
	case c.rst:
		c.rstSeen = true
		return 0, opErr("read", "tcp", c.local, c.remote, errReset)
	default: // peerFin
		return 0, io.EOF
	}
}

func (c *TCPConn) Write(b []byte) (int, error) {
	if vrt.Aborting() {
		return 0, net.ErrClosed
	}
	total := 0
	for {
		if c.closed {
			vrt.Step("tcp.write(closed)")
			return total, opErr("write", "tcp", c.local, c.remote, net.ErrClosed)
		}
		p := c.peer
		vrt.WaitUntilOr("tcp.write", c,
			func() bool {
				if c.sndCap() > 0 {
					return c.closed || c.writeClosed || c.rst || p.closed || len(c.sq) < c.sndCap()
				}
				return c.closed || c.writeClosed || c.rst || p.closed || p.readClosed || len(p.rbuf) < p.rcvCap()
			},
			func() time.Time { return c.wdl })
		if vrt.Aborting() {
			return total, net.ErrClosed
		}
		now := vrt.NowQuiet()
		switch {
		case c.closed:
			return total, opErr("write", "tcp", c.local, c.remote, net.ErrClosed)
		case !c.wdl.IsZero() && !c.wdl.After(now):
			return total, opErr("write", "tcp", c.local, c.remote, timeoutErr{})
		case c.writeClosed:
			return total, opErr("write", "tcp", c.local, c.remote, errPipe)
		case c.rst:
			if !c.rstSeen && c.rstByPeer {
				// the pending error of a reset sent by the peer is reported once, by whichever call
				// comes first; afterwards the socket is just shut
				c.rstSeen = true
				return total, opErr("write", "tcp", c.local, c.remote, os.NewSyscallError("write", syscall.ECONNRESET))
			}
			return total, opErr("write", "tcp", c.local, c.remote, errPipe)
		case p.closed:
			// the segment leaves, the peer answers with RST (whatever the closed peer had still
			// queued for us is lost with it)
			c.rst = true
			c.reset()
			c.BytesWritten += int64(len(b))
			return total + len(b), nil
		case p.readClosed:
			c.BytesWritten += int64(len(b))
			return total + len(b), nil
		}
		if c.sndCap() > 0 {
			room := c.sndCap() - len(c.sq)
			n := len(b)
			if n > room {
				n = room
			}
			c.sq = append(c.sq, b[:n]...)
			c.flush()
			c.BytesWritten += int64(n)
			total += n
			b = b[n:]
			if len(b) == 0 {
				return total, nil
			}
			continue
		}
		room := p.rcvCap() - len(p.rbuf)
		n := len(b)
		if n > room {
			n = room
		}
		p.rbuf = append(p.rbuf, b[:n]...)
		c.BytesWritten += int64(n)
		total += n
		b = b[n:]
		if len(b) == 0 {
			return total, nil
		}
	}
}

// ReadFrom mirrors *net.TCPConn's io.ReaderFrom (generic copy).
func (c *TCPConn) ReadFrom(r io.Reader) (int64, error) {
	return io.Copy(onlyWriter{c}, r)
}

type onlyWriter struct{ io.Writer }

func (c *TCPConn) stamp() time.Duration { return vrt.NowQuiet().Sub(vrt.Epoch) }

func (c *TCPConn) Close() error {
	if vrt.Aborting() {
		return nil
	}
	vrt.Yield("tcp.close")
	if c.closed {
		return opErr("close", "tcp", c.local, c.remote, net.ErrClosed)
	}
	c.closed = true
	c.ClosedAt = c.stamp()
	if (len(c.rbuf) > 0 && !c.readClosed) || c.lingerZero {
		c.SentRST = true
		c.peer.rst, c.peer.rstByPeer = true, true
		c.reset()
		vrt.Log("tcp.rst", c.Name(), "close-with-unread-or-linger0", int64(len(c.rbuf)))
	} else if !c.writeClosed {
		// orderly: the FIN follows whatever is still queued (the socket lingers in the background)
		c.finQueued = true
		c.flush()
		c.FinAt = c.stamp()
		vrt.Log("tcp.fin", c.Name(), "close", 0)
	}
	vrt.Log("tcp.close", c.Name(), c.Owner, 0)
	return nil
}

func (c *TCPConn) CloseWrite() error {
	if vrt.Aborting() {
		return nil
	}
	vrt.Yield("tcp.closewrite")
	if c.closed {
		return opErr("close", "tcp", c.local, c.remote, net.ErrClosed)
	}
	if c.rst {
		return opErr("close", "tcp", c.local, c.remote, os.NewSyscallError("shutdown", syscall.ENOTCONN))
	}
	if !c.writeClosed {
		c.writeClosed = true
		c.finQueued = true
		c.flush()
		c.FinAt = c.stamp()
		vrt.Log("tcp.fin", c.Name(), "closewrite", 0)
	}
	return nil
}

func (c *TCPConn) CloseRead() error {
	if vrt.Aborting() {
		return nil
	}
	vrt.Yield("tcp.closeread")
	if c.closed {
		return opErr("close", "tcp", c.local, c.remote, net.ErrClosed)
	}
	if c.rst {
		// shutdown(2) on a connection the peer has reset
		return opErr("close", "tcp", c.local, c.remote, os.NewSyscallError("shutdown", syscall.ENOTCONN))
	}
	c.readClosed = true
	c.rbuf = nil
	c.peer.flush()
	return nil
}

func (c *TCPConn) SetDeadline(t time.Time) error {
	if vrt.Aborting() {
		return nil
	}
	vrt.Yield("tcp.setdeadline")
	if c.closed {
		return opErr("set", "tcp", c.local, c.remote, net.ErrClosed)
	}
	c.rdl, c.wdl = t, t
	return nil
}

func (c *TCPConn) SetReadDeadline(t time.Time) error {
	if vrt.Aborting() {
		return nil
	}
	vrt.Yield("tcp.setreaddeadline")
	if c.closed {
		return opErr("set", "tcp", c.local, c.remote, net.ErrClosed)
	}
	c.rdl = t
	vrt.Log("tcp.setreaddeadline", c.Name(), "", int64(t.Sub(vrt.Epoch)))
	return nil
}

func (c *TCPConn) SetWriteDeadline(t time.Time) error {
	if vrt.Aborting() {
		return nil
	}
	vrt.Yield("tcp.setwritedeadline")
	if c.closed {
		return opErr("set", "tcp", c.local, c.remote, net.ErrClosed)
	}
	c.wdl = t
	return nil
}

func (c *TCPConn) SetKeepAlive(bool) error                { return nil }
func (c *TCPConn) SetKeepAlivePeriod(time.Duration) error { return nil }
func (c *TCPConn) SetNoDelay(bool) error                  { return nil }

// SetLinger(0): Close discards what has not been sent yet and resets the connection.
func (c *TCPConn) SetLinger(sec int) error { c.lingerZero = sec == 0; return nil }

// SetReadBuffer / SetWriteBuffer set this endpoint's buffer sizes (the send queue exists only for
// endpoints with a send buffer size).
func (c *TCPConn) SetReadBuffer(n int) error  { c.rcvBuf = n; return nil }
func (c *TCPConn) SetWriteBuffer(n int) error { c.sndBuf = n; return nil }

var _ transport.StreamConn = (*TCPConn)(nil)

// ---------------------------------------------------------------------------
// resolver and dialer

func (w *World) lookup(host string) ([]net.IP, error) {
	if ips, ok := w.Hosts[host]; ok {
		if len(ips) == 0 {
			return nil, &net.DNSError{Err: "no such host", Name: host, IsNotFound: true}
		}
		return ips, nil
	}
	return nil, &net.DNSError{Err: "no such host", Name: host, IsNotFound: true}
}

// resolveHostPort resolves "host:port" to the list of candidate addresses, the way
// the real resolver does: literal -> itself (zone kept); "" -> no IP; name -> scripted answer.
func (w *World) resolveHostPort(network, address string) ([]net.IP, string, int, error) {
	host, portStr, err := net.SplitHostPort(address)
	if err != nil {
		return nil, "", 0, &net.AddrError{Err: err.Error(), Addr: address}
	}
	port, perr := strconv.Atoi(portStr)
	if perr != nil || port < 0 || port > 65535 {
		if portStr == "" {
			port = 0
		} else {
			return nil, "", 0, &net.AddrError{Err: "invalid port", Addr: address}
		}
	}
	if host == "" {
		return []net.IP{nil}, "", port, nil
	}
	zone := ""
	h := host
	for i := 0; i < len(h); i++ {
		if h[i] == '%' {
			h, zone = host[:i], host[i+1:]
			break
		}
	}
	if ap, err := netip.ParseAddr(h); err == nil {
		// like net.ParseIP: IPv4 literals come back in 16-byte form
		ip := net.IP(ap.AsSlice()).To16()
		if ap.Is6() && ap.IsUnspecified() && zone == "" && (network == "tcp" || network == "udp") {
			// the real resolver lets "::" also stand for the IPv4 wildcard
			return []net.IP{ip, net.IPv4zero}, zone, port, nil
		}
		return []net.IP{ip}, zone, port, nil
	}
	ips, err := w.lookup(host)
	if err != nil {
		return nil, "", 0, err
	}
	return ips, "", port, nil
}

func filterFamily(network string, ips []net.IP) []net.IP {
	var out []net.IP
	for _, ip := range ips {
		is4 := ip == nil || ip.To4() != nil
		switch network[len(network)-1] {
		case '4':
			if is4 {
				out = append(out, ip)
			}
		case '6':
			if ip == nil || !is4 {
				out = append(out, ip)
			}
		default:
			out = append(out, ip)
		}
	}
	return out
}

func ResolveTCPAddr(network, address string) (*net.TCPAddr, error) {
	ips, zone, port, err := W.resolveHostPort(network, address)
	if err != nil {
		return nil, err
	}
	ips = filterFamily(network, ips)
	if len(ips) == 0 {
		return nil, &net.AddrError{Err: "no suitable address found", Addr: address}
	}
	ip := pickFirst(ips, address)
	return &net.TCPAddr{IP: ip, Port: port, Zone: zone}, nil
}

// pickFirst mirrors addrList.forResolve of package net: an address written as an IPv6
// literal prefers the first non-IPv4 candidate, anything else the first IPv4 candidate.
func pickFirst(ips []net.IP, address string) net.IP {
	want6 := len(address) > 0 && address[0] == '['
	for _, ip := range ips {
		is4 := ip != nil && ip.To4() != nil
		if is4 != want6 {
			return ip
		}
	}
	return ips[0]
}

func ResolveUDPAddr(network, address string) (*net.UDPAddr, error) {
	ips, zone, port, err := W.resolveHostPort(network, address)
	if err != nil {
		return nil, err
	}
	ips = filterFamily(network, ips)
	if len(ips) == 0 {
		return nil, &net.AddrError{Err: "no suitable address found", Addr: address}
	}
	ip := pickFirst(ips, address)
	return &net.UDPAddr{IP: ip, Port: port, Zone: zone}, nil
}

func ResolveIPAddr(network, address string) (*net.IPAddr, error) {
	ips, zone, _, err := W.resolveHostPort(network, net.JoinHostPort(address, "0"))
	if err != nil {
		return nil, err
	}
	return &net.IPAddr{IP: pickFirst(ips, address), Zone: zone}, nil
}

func LookupIP(host string) ([]net.IP, error) { return W.lookup(host) }
func LookupHost(host string) ([]string, error) {
	ips, err := W.lookup(host)
	var out []string
	for _, ip := range ips {
		out = append(out, ip.String())
	}
	return out, err
}

// Dialer mirrors the fields of net.Dialer the server may set.
type Dialer struct {
	Timeout        time.Duration
	Deadline       time.Time
	LocalAddr      net.Addr
	DualStack      bool
	FallbackDelay  time.Duration
	KeepAlive      time.Duration
	Resolver       *net.Resolver
	Control        func(network, address string, c syscall.RawConn) error
	ControlContext func(ctx context.Context, network, address string, c syscall.RawConn) error
}

func (d *Dialer) Dial(network, address string) (net.Conn, error) {
	return d.DialContext(context.Background(), network, address)
}

// DialContext mirrors net.Dialer.DialContext for tcp: resolve, order the candidates
// (family of the first address first), and for each one call Control with
// ("tcp4"|"tcp6", "ip:port") and then connect; first success wins, first error is reported.
func (d *Dialer) DialContext(ctx context.Context, network, address string) (net.Conn, error) {
	if vrt.Aborting() {
		return nil, net.ErrClosed
	}
	vrt.Yield("dial")
	if err := ctx.Err(); err != nil {
		return nil, opErr("dial", network, nil, nil, err)
	}
	// net.Dialer: the earliest of now+Timeout and Deadline bounds the whole dial; a deadline that
	// has already passed fails the dial at once with a timeout error
	dl := d.Deadline
	if d.Timeout > 0 {
		if t := vrt.NowQuiet().Add(d.Timeout); dl.IsZero() || t.Before(dl) {
			dl = t
		}
	}
	if !dl.IsZero() && !vrt.NowQuiet().Before(dl) {
		return nil, opErr("dial", network, nil, nil, dialTimeoutErr{})
	}
	switch network {
	case "tcp", "tcp4", "tcp6":
	default:
		return nil, opErr("dial", network, nil, nil, net.UnknownNetworkError(network))
	}
	ips, zone, port, err := W.resolveHostPort(network, address)
	if err != nil {
		return nil, opErr("dial", network, nil, nil, err)
	}
	ips = filterFamily(network, ips)
	if len(ips) == 0 {
		return nil, opErr("dial", network, nil, nil, &net.AddrError{Err: "no suitable address found", Addr: address})
	}
	// primaries: same family as the first address; fallbacks: the others
	first4 := ips[0] == nil || ips[0].To4() != nil
	var ordered []net.IP
	for _, ip := range ips {
		if (ip == nil || ip.To4() != nil) == first4 {
			ordered = append(ordered, ip)
		}
	}
	for _, ip := range ips {
		if (ip == nil || ip.To4() != nil) != first4 {
			ordered = append(ordered, ip)
		}
	}
	var firstErr error
	for _, ip := range ordered {
		c, err := d.dialOne(ctx, ip, zone, port, dl)
		if err == nil {
			return c, nil
		}
		if firstErr == nil {
			firstErr = err
		}
	}
	return nil, firstErr
}

func (d *Dialer) dialOne(ctx context.Context, ip net.IP, zone string, port int, dl time.Time) (*TCPConn, error) {
	raddr := &net.TCPAddr{IP: ip, Port: port, Zone: zone}
	ctrlNet := "tcp4"
	if ip != nil && ip.To4() == nil {
		ctrlNet = "tcp6"
	}
	if ip4 := ip.To4(); ip4 != nil {
		raddr.IP = ip4
	}
	if d.ControlContext != nil {
		if err := d.ControlContext(ctx, ctrlNet, raddr.String(), nil); err != nil {
			return nil, opErr("dial", "tcp", nil, raddr, err)
		}
	} else if d.Control != nil {
		if err := d.Control(ctrlNet, raddr.String(), nil); err != nil {
			return nil, opErr("dial", "tcp", nil, raddr, err)
		}
	}
	target := raddr
	if ip == nil || ip.IsUnspecified() {
		// connecting to the unspecified address means the local host
		lo := net.IPv4(127, 0, 0, 1).To4()
		if ctrlNet == "tcp6" {
			lo = net.IPv6loopback
		}
		target = &net.TCPAddr{IP: lo, Port: port}
	}
	laddr := &net.TCPAddr{IP: W.ProxyIP4, Port: W.ephemeral()}
	if ctrlNet == "tcp6" {
		laddr.IP = W.ProxyIP6
	}
	if target.IP.IsLoopback() {
		laddr.IP = target.IP
	}
	if W.DialHang[target.String()] {
		vrt.Log("tcp.connect.hang", laddr.String(), target.String(), 0)
		vrt.WaitDoneUntil(ctx, dl)
		if vrt.Aborting() {
			return nil, net.ErrClosed
		}
		if ctx.Err() == nil {
			return nil, opErr("dial", "tcp", nil, raddr, dialTimeoutErr{})
		}
		return nil, opErr("dial", "tcp", nil, raddr, ctx.Err())
	}
	return W.connect("srv", laddr, target)
}

// Dial is the replacement of net.Dial.
func Dial(network, address string) (net.Conn, error) {
	var d Dialer
	return d.Dial(network, address)
}

func DialTimeout(network, address string, _ time.Duration) (net.Conn, error) {
	return Dial(network, address)
}

func DialTCP(network string, laddr, raddr *net.TCPAddr) (*TCPConn, error) {
	var d Dialer
	c, err := d.Dial(network, raddr.String())
	if err != nil {
		return nil, err
	}
	return c.(*TCPConn), nil
}

// TCPDialer is the replacement of transport.TCPDialer.
type TCPDialer struct {
	Dialer Dialer
}

var _ transport.StreamDialer = (*TCPDialer)(nil)

func (d *TCPDialer) DialStream(ctx context.Context, addr string) (transport.StreamConn, error) {
	conn, err := d.Dialer.DialContext(ctx, "tcp", addr)
	if err != nil {
		return nil, err
	}
	return conn.(*TCPConn), nil
}

// EnvDial connects from an environment host (client) to addr.
func EnvDial(from *net.TCPAddr, to string) (*TCPConn, error) {
	vrt.Yield("env.dial")
	ra, err := ResolveTCPAddr("tcp", to)
	if err != nil {
		return nil, err
	}
	la := &net.TCPAddr{IP: from.IP, Port: from.Port, Zone: from.Zone}
	if la.Port == 0 {
		la.Port = W.ephemeral()
	}
	return W.connect("env", la, ra)
}

// EnvListenTCP binds an environment listener (a target).
func EnvListenTCP(addr string) (*TCPListener, error) {
	a, err := ResolveTCPAddr("tcp", addr)
	if err != nil {
		return nil, err
	}
	return W.listenTCP("env", a)
}

// ---------------------------------------------------------------------------
// UDP

type dgram struct {
	data []byte
	from *net.UDPAddr
}

type UDPConn struct {
	w          *World
	ID         int
	Owner      string
	local      *net.UDPAddr
	dual       bool // wildcard dual-stack socket: IPv4 peers are reported in 16-byte form
	q          []dgram
	closed     bool
	rdl        time.Time
	ClosedAt   time.Duration
	Sent, Recv int
	Dropped    int
	readErrs   int // injected transient (non-timeout) read errors
	fam        int // 4 / 6: opened as "udp4" / "udp6" (one address family only); 0: "udp"
}

// InjectReadError makes the next ReadFrom fail once with a non-timeout error (ECONNREFUSED, as
// after an ICMP port-unreachable).
func (u *UDPConn) InjectReadError() { u.readErrs++ }

func (u *UDPConn) Name() string            { return fmt.Sprintf("u%d", u.ID) }
func (u *UDPConn) IsClosed() bool          { return u.closed }
func (u *UDPConn) Queued() int             { return len(u.q) }
func (u *UDPConn) ReadDeadline() time.Time { return u.rdl }

func (w *World) listenUDP(owner string, a *net.UDPAddr, key string) (*UDPConn, error) {
	if e, ok := w.BindErr["udp/"+key]; ok && owner == "srv" {
		return nil, opErr("listen", "udp", nil, a, e)
	}
	la := &net.UDPAddr{IP: a.IP, Port: a.Port, Zone: a.Zone}
	dual := false
	if isWild(la.IP) {
		if len(la.IP) == net.IPv4len || (la.IP != nil && la.IP.To4() != nil) {
			la.IP = net.IPv4zero.To4()
		} else {
			la.IP = net.IPv6zero
			dual = true
		}
	}
	if la.Port == 0 {
		la.Port = w.ephemeral()
	} else {
		for _, u := range w.udp {
			if u.closed || u.local.Port != la.Port {
				continue
			}
			if isWild(u.local.IP) || isWild(la.IP) || sameIP(u.local.IP, la.IP, u.local.Zone, la.Zone) {
				return nil, opErr("listen", "udp", nil, a, errAddrInUse)
			}
		}
	}
	u := &UDPConn{w: w, ID: w.id(), Owner: owner, local: la, dual: dual, ClosedAt: -1}
	w.udp = append(w.udp, u)
	vrt.Log("udp.bind", la.String(), owner, int64(u.ID))
	return u, nil
}

func (u *UDPConn) setFamily(network string) {
	switch network {
	case "udp4":
		u.fam, u.dual = 4, false
	case "udp6":
		u.fam, u.dual = 6, false
	}
}

// ListenPacket is the replacement of net.ListenPacket (udp only).
func ListenPacket(network, address string) (net.PacketConn, error) {
	if vrt.Aborting() {
		return nil, net.ErrClosed
	}
	vrt.Yield("listenpacket")
	switch network {
	case "udp", "udp4", "udp6":
	default:
		return nil, opErr("listen", network, nil, nil, net.UnknownNetworkError(network))
	}
	if address == "" {
		W.udpOutCount++
		if W.UDPSocketFailAt != 0 && W.udpOutCount == W.UDPSocketFailAt {
			return nil, opErr("listen", network, nil, nil, os.NewSyscallError("socket", syscall.EMFILE))
		}
		wild := &net.UDPAddr{}
		if network == "udp4" {
			wild.IP = net.IPv4zero.To4()
		}
		u, err := W.listenUDP("srv", wild, address)
		if err != nil {
			return nil, err
		}
		u.setFamily(network)
		return u, nil
	}
	a, err := ResolveUDPAddr(network, address)
	if err != nil {
		return nil, opErr("listen", network, nil, nil, err)
	}
	u, err := W.listenUDP("srv", a, address)
	if err != nil {
		return nil, err
	}
	u.setFamily(network)
	return u, nil
}

func ListenUDP(network string, a *net.UDPAddr) (*UDPConn, error) {
	if vrt.Aborting() {
		return nil, net.ErrClosed
	}
	vrt.Yield("listenudp")
	if a == nil {
		a = &net.UDPAddr{}
	}
	return W.listenUDP("srv", a, a.String())
}

// EnvListenUDP binds an environment socket (client or target).
func EnvListenUDP(addr *net.UDPAddr) (*UDPConn, error) {
	return W.listenUDP("env", addr, addr.String())
}

func (u *UDPConn) LocalAddr() net.Addr { return u.local }

func (u *UDPConn) ReadFrom(b []byte) (int, net.Addr, error) {
	n, a, err := u.ReadFromUDP(b)
	if a == nil {
		return n, nil, err
	}
	return n, a, err
}

func (u *UDPConn) ReadFromUDP(b []byte) (int, *net.UDPAddr, error) {
	if vrt.Aborting() {
		return 0, nil, net.ErrClosed
	}
	if u.closed {
		vrt.Step("udp.readfrom(closed)")
		return 0, nil, opErr("read", "udp", u.local, nil, net.ErrClosed)
	}
	vrt.WaitUntilOr("udp.readfrom", u,
		func() bool { return len(u.q) > 0 || u.closed || u.readErrs > 0 },
		func() time.Time { return u.rdl })
	if vrt.Aborting() {
		return 0, nil, net.ErrClosed
	}
	now := vrt.NowQuiet()
	switch {
	case u.closed:
		return 0, nil, opErr("read", "udp", u.local, nil, net.ErrClosed)
	case u.readErrs > 0 && (u.rdl.IsZero() || u.rdl.After(now)):
		u.readErrs--
		return 0, nil, opErr("read", "udp", u.local, nil, os.NewSyscallError("recvfrom", syscall.ECONNREFUSED))
	case !u.rdl.IsZero() && !u.rdl.After(now):
		return 0, nil, opErr("read", "udp", u.local, nil, timeoutErr{})
	}
	d := u.q[0]
	u.q = u.q[1:]
	n := copy(b, d.data)
	u.Recv++
	from := &net.UDPAddr{IP: d.from.IP, Port: d.from.Port, Zone: d.from.Zone}
	if ip4 := from.IP.To4(); ip4 != nil {
		if u.dual {
			from.IP = ip4.To16()
		} else {
			from.IP = ip4
		}
	}
	return n, from, nil
}

const MaxUDPPayload = 65507

func (u *UDPConn) WriteTo(b []byte, addr net.Addr) (int, error) {
	if vrt.Aborting() {
		return 0, net.ErrClosed
	}
	vrt.Yield("udp.writeto")
	if u.closed {
		return 0, opErr("write", "udp", u.local, addr, net.ErrClosed)
	}
	ua, ok := addr.(*net.UDPAddr)
	if !ok || ua == nil {
		return 0, opErr("write", "udp", u.local, addr, syscall.EINVAL)
	}
	// the largest payload: 65535 minus the UDP header, and over IPv4 minus the IP header as well
	limit := MaxUDPPayload
	if ua.IP != nil && ua.IP.To4() == nil {
		limit = 65527
	}
	if len(b) > limit {
		return 0, opErr("write", "udp", u.local, addr, os.NewSyscallError("sendto", syscall.EMSGSIZE))
	}
	if ua.Port == 0 {
		// the kernel refuses destination port 0
		return 0, opErr("write", "udp", u.local, addr, os.NewSyscallError("sendto", syscall.EINVAL))
	}
	if ua.IP == nil || ua.IP.IsUnspecified() {
		// sendto the unspecified address: the local host
		ua = &net.UDPAddr{IP: net.IPv4(127, 0, 0, 1), Port: ua.Port}
	}
	is4 := ua.IP.To4() != nil
	if u.fam == 4 && !is4 {
		return 0, opErr("write", "udp4", u.local, addr, &net.AddrError{Err: "non-IPv4 address", Addr: ua.IP.String()})
	}
	if u.fam == 6 && is4 {
		// the address is sent as ::ffff:a.b.c.d, which an IPv6-only socket cannot reach
		return 0, opErr("write", "udp6", u.local, addr, os.NewSyscallError("sendto", syscall.ENETUNREACH))
	}
	if !u.dual && isWild(u.local.IP) == false {
		if (u.local.IP.To4() != nil) != is4 {
			return 0, opErr("write", "udp", u.local, addr, os.NewSyscallError("sendto", syscall.EAFNOSUPPORT))
		}
	}
	src := &net.UDPAddr{IP: u.local.IP, Port: u.local.Port, Zone: u.local.Zone}
	if isWild(src.IP) {
		if u.Owner == "srv" {
			if is4 {
				src.IP = u.w.ProxyIP4
			} else {
				src.IP = u.w.ProxyIP6
			}
			if ua.IP.IsLoopback() {
				src.IP = ua.IP
			}
		}
	}
	u.Sent++
	vrt.Log("udp.sendto", src.String(), ua.String(), int64(len(b)))
	if u.Owner == "srv" && u.local.Port >= 40000 {
		vrt.Log("srv.udp.out", src.String(), ua.String(), int64(len(b)))
	}
	dst := u.w.findUDP(ua)
	if dst == nil {
		vrt.Log("udp.lost", src.String(), ua.String(), int64(len(b)))
		return len(b), nil
	}
	if len(dst.q) >= u.w.UDPQueue {
		dst.Dropped++
		vrt.Log("udp.drop", src.String(), ua.String(), int64(len(b)))
		return len(b), nil
	}
	dst.q = append(dst.q, dgram{data: append([]byte(nil), b...), from: src})
	return len(b), nil
}

func (u *UDPConn) WriteToUDP(b []byte, addr *net.UDPAddr) (int, error) { return u.WriteTo(b, addr) }

// The rest of net.UDPConn's datagram methods, in terms of the two above.
func (u *UDPConn) ReadFromUDPAddrPort(b []byte) (int, netip.AddrPort, error) {
	n, a, err := u.ReadFromUDP(b)
	if a == nil {
		return n, netip.AddrPort{}, err
	}
	return n, a.AddrPort(), err
}

func (u *UDPConn) WriteToUDPAddrPort(b []byte, addr netip.AddrPort) (int, error) {
	return u.WriteTo(b, net.UDPAddrFromAddrPort(addr))
}

func (u *UDPConn) ReadMsgUDP(b, oob []byte) (n, oobn, flags int, addr *net.UDPAddr, err error) {
	n, addr, err = u.ReadFromUDP(b)
	return n, 0, 0, addr, err
}

func (u *UDPConn) ReadMsgUDPAddrPort(b, oob []byte) (n, oobn, flags int, addr netip.AddrPort, err error) {
	n, addr, err = u.ReadFromUDPAddrPort(b)
	return n, 0, 0, addr, err
}

func (u *UDPConn) WriteMsgUDP(b, oob []byte, addr *net.UDPAddr) (n, oobn int, err error) {
	n, err = u.WriteTo(b, addr)
	return n, 0, err
}

func (u *UDPConn) WriteMsgUDPAddrPort(b, oob []byte, addr netip.AddrPort) (n, oobn int, err error) {
	n, err = u.WriteToUDPAddrPort(b, addr)
	return n, 0, err
}

// Read / Write / RemoteAddr of an unconnected socket, as net.UDPConn has them.
func (u *UDPConn) Read(b []byte) (int, error) {
	n, _, err := u.ReadFromUDP(b)
	return n, err
}

func (u *UDPConn) Write(b []byte) (int, error) {
	return 0, opErr("write", "udp", u.local, nil, errors.New("destination address required"))
}

func (u *UDPConn) RemoteAddr() net.Addr { return nil }

func (w *World) findUDP(a *net.UDPAddr) *UDPConn {
	var wild *UDPConn
	for _, u := range w.udp {
		if u.closed || u.local.Port != a.Port {
			continue
		}
		if sameIP(u.local.IP, a.IP, u.local.Zone, a.Zone) {
			return u
		}
		if isWild(u.local.IP) {
			if u.dual || (a.IP.To4() != nil) == (u.local.IP.To4() != nil) {
				wild = u
			}
		}
	}
	return wild
}

func (u *UDPConn) Close() error {
	if vrt.Aborting() {
		return nil
	}
	vrt.Yield("udp.close")
	if u.closed {
		return opErr("close", "udp", u.local, nil, net.ErrClosed)
	}
	u.closed = true
	u.ClosedAt = vrt.NowQuiet().Sub(vrt.Epoch)
	vrt.Log("udp.close", u.local.String(), u.Owner, int64(u.ID))
	return nil
}

func (u *UDPConn) SetDeadline(t time.Time) error { return u.SetReadDeadline(t) }

func (u *UDPConn) SetReadDeadline(t time.Time) error {
	if vrt.Aborting() {
		return nil
	}
	vrt.Yield("udp.setreaddeadline")
	if u.closed {
		return opErr("set", "udp", u.local, nil, net.ErrClosed)
	}
	u.rdl = t
	vrt.Log("udp.setreaddeadline", u.local.String(), "", int64(t.Sub(vrt.Epoch)))
	return nil
}

func (u *UDPConn) SetWriteDeadline(t time.Time) error { return nil }
func (u *UDPConn) SetReadBuffer(int) error            { return nil }
func (u *UDPConn) SetWriteBuffer(int) error           { return nil }

// ---------------------------------------------------------------------------
// inspection for oracles

// OpenSockets lists sockets of the given owner that are still open.
func (w *World) OpenSockets(owner string) []string {
	var out []string
	for _, l := range w.tcpLn {
		if !l.closed && l.Owner == owner {
			out = append(out, "tcp-listener "+l.addr.String())
		}
	}
	for _, c := range w.conns {
		if !c.closed && c.Owner == owner {
			out = append(out, "tcp-conn "+c.Name()+" "+c.local.String()+"->"+c.remote.String())
		}
	}
	for _, u := range w.udp {
		if !u.closed && u.Owner == owner {
			out = append(out, "udp "+u.local.String())
		}
	}
	sort.Strings(out)
	return out
}

func (w *World) Listeners() []*TCPListener { return w.tcpLn }
func (w *World) UDPSockets() []*UDPConn    { return w.udp }
func (w *World) Conns() []*TCPConn         { return w.conns }

// ListeningTCP / BoundUDP report whether the system under test currently holds a socket on the port.
func (w *World) ListeningTCP(port int) bool {
	for _, l := range w.tcpLn {
		if !l.closed && l.Owner == "srv" && l.addr.Port == port {
			return true
		}
	}
	return false
}

func (w *World) BoundUDP(port int) bool {
	for _, u := range w.udp {
		if !u.closed && u.Owner == "srv" && u.local.Port == port {
			return true
		}
	}
	return false
}

var _ = errors.New

// Datagram is a queued datagram as seen by an environment socket.
type Datagram struct {
	Data []byte
	From *net.UDPAddr
}

// Drain removes and returns everything queued on an environment socket without blocking
// (harness-only: used after the system went quiescent).
func (u *UDPConn) Drain() []Datagram {
	var out []Datagram
	for _, d := range u.q {
		from := &net.UDPAddr{IP: d.from.IP, Port: d.from.Port, Zone: d.from.Zone}
		out = append(out, Datagram{Data: d.data, From: from})
		u.Recv++
	}
	u.q = nil
	return out
}

// SendRaw injects a datagram from this environment socket without a scheduling point.
func (u *UDPConn) SendRaw(b []byte, to *net.UDPAddr) {
	src := &net.UDPAddr{IP: u.local.IP, Port: u.local.Port, Zone: u.local.Zone}
	u.Sent++
	vrt.Log("udp.sendto", src.String(), to.String(), int64(len(b)))
	dst := u.w.findUDP(to)
	if dst == nil {
		vrt.Log("udp.lost", src.String(), to.String(), int64(len(b)))
		return
	}
	if len(dst.q) >= u.w.UDPQueue {
		dst.Dropped++
		return
	}
	dst.q = append(dst.q, dgram{data: append([]byte(nil), b...), from: src})
}
