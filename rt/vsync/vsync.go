// Package vsync re-implements the parts of package sync the server uses on top of
// the controlled scheduler. With no execution active every type delegates to the
// real primitive it embeds.
package vsync

import (
	"sync"
	"time"

	"verif/rt/vrt"
)

type Locker = sync.Locker
type Map = sync.Map

// Pool is a deterministic replacement of sync.Pool: a LIFO free list (Get returns the most
// recently Put object). sync.Pool's reuse depends on the processor and the garbage collector;
// LIFO reuse is one of its legal behaviours and the one that makes aliasing of a released
// object show.
type Pool struct {
	New  func() any
	free []any
	real sync.Mutex
}

func (p *Pool) Get() any {
	p.real.Lock()
	defer p.real.Unlock()
	if n := len(p.free); n > 0 {
		x := p.free[n-1]
		p.free = p.free[:n-1]
		return x
	}
	if p.New != nil {
		return p.New()
	}
	return nil
}

func (p *Pool) Put(x any) {
	if x == nil {
		return
	}
	p.real.Lock()
	p.free = append(p.free, x)
	p.real.Unlock()
}

type Mutex struct {
	real   sync.Mutex
	locked bool
	owner  int
	hb     vrt.SyncVC
}

// OwnerID reports the thread holding the mutex (-1 if free): used for deadlock cycles.
func (m *Mutex) OwnerID() int {
	if !m.locked {
		return -1
	}
	return m.owner
}

func (m *Mutex) Lock() {
	if !vrt.Active() {
		if vrt.Aborting() {
			return
		}
		m.real.Lock()
		return
	}
	vrt.WaitUntil("Lock", m, func() bool { return !m.locked })
	m.locked = true
	m.owner = vrt.Me().ID
	m.hb.Acquire()
}

func (m *Mutex) TryLock() bool {
	if !vrt.Active() {
		if vrt.Aborting() {
			return true
		}
		return m.real.TryLock()
	}
	vrt.Yield("TryLock")
	if m.locked {
		return false
	}
	m.locked = true
	m.owner = vrt.Me().ID
	m.hb.Acquire()
	return true
}

func (m *Mutex) Unlock() {
	if !vrt.Active() {
		if vrt.Aborting() {
			return
		}
		m.real.Unlock()
		return
	}
	if !m.locked {
		panic("sync: unlock of unlocked mutex")
	}
	m.hb.ReleaseSet()
	m.locked = false
}

// RWMutex models Go's writer preference: once a writer has announced itself no new
// reader is admitted, so reader-writer-reader deadlocks are reachable exactly when
// they are in Go.
type RWMutex struct {
	real          sync.RWMutex
	readers       int
	writer        bool
	owner         int
	writerWaiting int
	wHB           vrt.SyncVC // released by writers
	rHB           vrt.SyncVC // released by readers
}

func (m *RWMutex) Lock() {
	if !vrt.Active() {
		if vrt.Aborting() {
			return
		}
		m.real.Lock()
		return
	}
	vrt.Yield("Lock.announce")
	m.writerWaiting++
	vrt.WaitUntil("Lock", m, func() bool { return !m.writer && m.readers == 0 })
	m.writerWaiting--
	m.writer = true
	m.owner = vrt.Me().ID
	m.wHB.Acquire()
	m.rHB.Acquire()
}

// OwnerID reports the writer holding the lock (-1 if none).
func (m *RWMutex) OwnerID() int {
	if !m.writer {
		return -1
	}
	return m.owner
}

func (m *RWMutex) Unlock() {
	if !vrt.Active() {
		if vrt.Aborting() {
			return
		}
		m.real.Unlock()
		return
	}
	if !m.writer {
		panic("sync: Unlock of unlocked RWMutex")
	}
	m.wHB.ReleaseSet()
	m.writer = false
}

func (m *RWMutex) RLock() {
	if !vrt.Active() {
		if vrt.Aborting() {
			return
		}
		m.real.RLock()
		return
	}
	vrt.WaitUntil("RLock", m, func() bool { return !m.writer && m.writerWaiting == 0 })
	m.readers++
	m.wHB.Acquire()
}

func (m *RWMutex) RUnlock() {
	if !vrt.Active() {
		if vrt.Aborting() {
			return
		}
		m.real.RUnlock()
		return
	}
	if m.readers <= 0 {
		panic("sync: RUnlock of unlocked RWMutex")
	}
	m.rHB.Release()
	m.readers--
}

func (m *RWMutex) RLocker() Locker { return (*rlocker)(m) }

type rlocker RWMutex

func (r *rlocker) Lock()   { (*RWMutex)(r).RLock() }
func (r *rlocker) Unlock() { (*RWMutex)(r).RUnlock() }

type WaitGroup struct {
	real sync.WaitGroup
	n    int
	hb   vrt.SyncVC
}

func (wg *WaitGroup) Add(delta int) {
	if !vrt.Active() {
		if vrt.Aborting() {
			return
		}
		wg.real.Add(delta)
		return
	}
	wg.n += delta
	if wg.n < 0 {
		panic("sync: negative WaitGroup counter")
	}
	if delta < 0 {
		wg.hb.Release()
	}
}

func (wg *WaitGroup) Done() { wg.Add(-1) }

func (wg *WaitGroup) Wait() {
	if !vrt.Active() {
		if vrt.Aborting() {
			return
		}
		wg.real.Wait()
		return
	}
	vrt.WaitUntil("WaitGroup.Wait", wg, func() bool { return wg.n == 0 })
	wg.hb.Acquire()
}

type Once struct {
	real    sync.Once
	done    bool
	running bool
	hb      vrt.SyncVC
}

func (o *Once) Do(f func()) {
	if !vrt.Active() {
		if vrt.Aborting() {
			return
		}
		o.real.Do(f)
		return
	}
	vrt.WaitUntil("Once.Do", o, func() bool { return !o.running })
	if o.done {
		o.hb.Acquire()
		return
	}
	o.running = true
	defer func() {
		o.done = true
		o.running = false
		o.hb.Release()
	}()
	f()
}

var _ = time.Now
