package vrt

import (
	"time"
	"context"
	"reflect"
)

// The channel model. A Go channel value is used only as an identity (its pointer);
// all communication goes through chanState. Every channel seen is retained for the
// whole execution so that its address cannot be reused by the allocator.

type chanState struct {
	buf    []chanItem
	closed bool
	closeVC VC
}

type chanItem struct {
	val any
	vc  VC
}

type selCase struct {
	send bool
	ch   uintptr
	cap  int
	val  any
	ok   bool
	vc   VC // clock transferred with the value
}

func chid(ch any) (uintptr, int) {
	v := reflect.ValueOf(ch)
	if v.IsNil() {
		return 0, 0
	}
	e := cur
	p := v.Pointer()
	if _, ok := e.chans[p]; !ok {
		e.keep = append(e.keep, ch)
		e.chans[p] = &chanState{}
	}
	return p, v.Cap()
}

func (e *Exec) cs(id uintptr) *chanState { return e.chans[id] }

// partner finds the longest-parked other thread with a complementary case on ch.
func (e *Exec) partner(self *Thread, ch uintptr, wantSend bool) (*Thread, int) {
	for _, t := range e.threads {
		if t == self || t.done || t.pending == nil || t.pending.resolved {
			continue
		}
		for i, c := range t.pending.cases {
			if c.ch == ch && c.send == wantSend {
				return t, i
			}
		}
	}
	return nil, 0
}

func (e *Exec) caseReady(self *Thread, c *selCase) bool {
	if c.ch == 0 {
		return false
	}
	s := e.cs(c.ch)
	if c.send {
		if s.closed {
			return true // will panic
		}
		if len(s.buf) < c.cap {
			return true
		}
		p, _ := e.partner(self, c.ch, false)
		return p != nil
	}
	if len(s.buf) > 0 || s.closed {
		return true
	}
	p, _ := e.partner(self, c.ch, true)
	return p != nil
}

func (e *Exec) fire(self *Thread, c *selCase) {
	s := e.cs(c.ch)
	if c.send {
		if s.closed {
			panic("send on closed channel")
		}
		self.vc.tick(self.ID)
		if p, i := e.partner(self, c.ch, false); p != nil && len(s.buf) == 0 {
			pc := p.pending.cases[i]
			pc.val, pc.ok = c.val, true
			pc.vc = self.vc.copy()
			p.pending.fired, p.pending.resolved = i, true
			if c.cap == 0 {
				// unbuffered: completion of the send happens after the receive began
				self.vc.join(p.vc)
			}
			return
		}
		s.buf = append(s.buf, chanItem{c.val, self.vc.copy()})
		return
	}
	if len(s.buf) > 0 {
		it := s.buf[0]
		c.val, c.ok = it.val, true
		self.vc.join(it.vc)
		s.buf = s.buf[1:]
		if p, i := e.partner(self, c.ch, true); p != nil {
			p.vc.tick(p.ID)
			s.buf = append(s.buf, chanItem{p.pending.cases[i].val, p.vc.copy()})
			p.pending.fired, p.pending.resolved = i, true
		}
		return
	}
	if p, i := e.partner(self, c.ch, true); p != nil {
		p.vc.tick(p.ID)
		c.val, c.ok = p.pending.cases[i].val, true
		self.vc.join(p.vc)
		p.vc.join(self.vc)
		p.pending.fired, p.pending.resolved = i, true
		return
	}
	if s.closed {
		c.val, c.ok = nil, false
		self.vc.join(s.closeVC)
		return
	}
	panic("vrt: fire on non-ready recv")
}

func doSelect(kind string, hasDef bool, cases []*selCase) int {
	e := cur
	self := e.running
	op := &Op{Kind: kind, cases: cases, hasDef: hasDef}
	if len(cases) == 1 {
		op.Obj = cases[0].ch
	}
	op.Enabled = func() bool {
		if hasDef {
			return true
		}
		for _, c := range cases {
			if e.caseReady(self, c) {
				return true
			}
		}
		return false
	}
	yield(op)
	if op.resolved {
		c := cases[op.fired]
		if !c.send {
			self.vc.join(c.vc)
		}
		return op.fired
	}
	var ready []int
	for i, c := range cases {
		if e.caseReady(self, c) {
			ready = append(ready, i)
		}
	}
	if len(ready) == 0 {
		return -1 // default
	}
	pick := ready[0]
	if len(ready) > 1 {
		pick = ready[Choose(len(ready), "select")]
	}
	e.fire(self, cases[pick])
	return pick
}

func Send[T any](ch chan<- T, v T) {
	if cur == nil {
		ch <- v
		return
	}
	if cur.aborting {
		return
	}
	id, cp := chid(ch)
	doSelect("send", false, []*selCase{{send: true, ch: id, cap: cp, val: v}})
}

func Recv2[T any](ch <-chan T) (T, bool) {
	if cur == nil {
		v, ok := <-ch
		return v, ok
	}
	var zero T
	if cur.aborting {
		return zero, false
	}
	id, cp := chid(ch)
	c := &selCase{ch: id, cap: cp}
	doSelect("recv", false, []*selCase{c})
	if !c.ok {
		return zero, false
	}
	if c.val == nil {
		return zero, true
	}
	return c.val.(T), true
}

func Recv[T any](ch <-chan T) T { v, _ := Recv2(ch); return v }

func Close[T any](ch chan<- T) {
	if cur == nil {
		close(ch)
		return
	}
	if cur.aborting {
		return
	}
	id, _ := chid(ch)
	if id == 0 {
		panic("close of nil channel")
	}
	yield(&Op{Kind: "close", Obj: id})
	s := cur.cs(id)
	if s.closed {
		panic("close of closed channel")
	}
	me := cur.running
	me.vc.tick(me.ID)
	s.closed = true
	s.closeVC = me.vc.copy()
}

// Case is one communication clause of a rewritten select statement.
type Case interface{ sc() *selCase }

type RCase[T any] struct{ c *selCase }

func (r *RCase[T]) sc() *selCase { return r.c }
func (r *RCase[T]) Val() T {
	var zero T
	if r.c == nil || r.c.val == nil {
		return zero
	}
	return r.c.val.(T)
}
func (r *RCase[T]) Ok() bool { return r.c != nil && r.c.ok }

func RecvCase[T any](ch <-chan T) *RCase[T] {
	if cur == nil || cur.aborting {
		return &RCase[T]{&selCase{}}
	}
	id, cp := chid(ch)
	return &RCase[T]{&selCase{ch: id, cap: cp}}
}

type SCase struct{ c *selCase }

func (s *SCase) sc() *selCase { return s.c }

func SendCase[T any](ch chan<- T, v T) *SCase {
	if cur == nil || cur.aborting {
		return &SCase{&selCase{send: true}}
	}
	id, cp := chid(ch)
	return &SCase{&selCase{send: true, ch: id, cap: cp, val: v}}
}

// Select is the replacement of a select statement; it returns the index of the
// clause that fired, or -1 for default.
func Select(hasDef bool, cs ...Case) int {
	if cur == nil {
		panic("vrt.Select outside a controlled execution")
	}
	if cur.aborting {
		if hasDef {
			return -1
		}
		runtimeGoexit()
	}
	cases := make([]*selCase, len(cs))
	for i, c := range cs {
		cases[i] = c.sc()
	}
	return doSelect("select", hasDef, cases)
}

// RangeChan calls f for every value received until the channel is closed (for range ch).
func RangeChan[T any](ch <-chan T, f func(T) bool) {
	for {
		v, ok := Recv2(ch)
		if !ok {
			return
		}
		if !f(v) {
			return
		}
	}
}

// ---------------------------------------------------------------------------
// context cancellation. The Done channel of a context is closed by the context package, which the
// channel model cannot see; context.WithCancel is therefore replaced by WithCancel, whose cancel
// function cancels the real context (so that Err() and everything derived from it outside the
// rewritten code behave) and marks the modelled Done channel — and those of the contexts derived
// from it through WithCancel — closed, as a scheduling point of its own.
func WithCancel(parent context.Context) (context.Context, context.CancelFunc) {
	ctx, cancel := context.WithCancel(parent)
	if cur == nil || cur.aborting {
		return ctx, cancel
	}
	e := cur
	id, _ := chid(ctx.Done())
	if pd := parent.Done(); pd != nil {
		pid, _ := chid(pd)
		e.ctxKids[pid] = append(e.ctxKids[pid], id)
		if e.cs(pid).closed {
			e.cs(id).closed = true
		}
	}
	return ctx, func() {
		cancel()
		if cur != e || e.aborting {
			return
		}
		yield(&Op{Kind: "ctx.cancel", Obj: id})
		me := e.running
		me.vc.tick(me.ID)
		var mark func(id uintptr)
		mark = func(id uintptr) {
			s := e.cs(id)
			if s.closed {
				return
			}
			s.closed = true
			s.closeVC = me.vc.copy()
			for _, k := range e.ctxKids[id] {
				mark(k)
			}
		}
		mark(id)
	}
}

// AfterFunc replaces context.AfterFunc: f runs in a thread of its own once ctx's modelled Done
// channel is closed (see WithCancel), unless stop was called first. While it waits the thread is
// not a goroutine of the program (the real AfterFunc starts one only when the context is done), so
// it counts neither as a leak nor as blocked.
func AfterFunc(ctx context.Context, f func()) (stop func() bool) {
	if cur == nil || cur.aborting {
		return context.AfterFunc(ctx, f)
	}
	e := cur
	done := ctx.Done()
	if done == nil {
		return func() bool { return true }
	}
	id, _ := chid(done)
	stopped, started := false, false
	t := e.newThread("ctx.afterfunc", func() {
		WaitUntil("ctx.afterfunc", id, func() bool { return stopped || e.cs(id).closed })
		if stopped {
			return
		}
		started = true
		me := e.running
		me.Daemon = false
		me.vc.join(e.cs(id).closeVC)
		f()
	})
	t.Daemon = true
	return func() bool {
		if cur != e || e.aborting {
			return false
		}
		yield(&Op{Kind: "ctx.afterfunc.stop", Obj: id})
		if started || stopped {
			return false
		}
		stopped = true
		return true
	}
}

// WaitDone blocks the calling thread until ctx is cancelled (its modelled Done channel is closed):
// what a blocking system call that honours a context does (a connect to a host that never answers).
// WaitDoneUntil waits until ctx is done or the virtual clock reaches dl (zero: no deadline).
func WaitDoneUntil(ctx context.Context, dl time.Time) {
	if dl.IsZero() {
		WaitDone(ctx)
		return
	}
	e := cur
	if e == nil || e.aborting {
		return
	}
	done := ctx.Done()
	if done == nil {
		WaitUntilOr("ctx.wait", nil, func() bool { return false }, func() time.Time { return dl })
		return
	}
	id, _ := chid(done)
	WaitUntilOr("ctx.wait", id, func() bool { return e.cs(id).closed }, func() time.Time { return dl })
	if e.running != nil && e.cs(id).closed {
		e.running.vc.join(e.cs(id).closeVC)
	}
}

func WaitDone(ctx context.Context) {
	e := cur
	if e == nil || e.aborting {
		<-ctx.Done()
		return
	}
	done := ctx.Done()
	if done == nil {
		WaitUntil("ctx.wait", nil, func() bool { return false })
		return
	}
	id, _ := chid(done)
	WaitUntil("ctx.wait", id, func() bool { return e.cs(id).closed })
	if e.running != nil {
		e.running.vc.join(e.cs(id).closeVC)
	}
}
