package vrt

import (
	"fmt"
	"os"
	"reflect"
	"sort"
)

// MapKeys returns the keys of m in a deterministic (sorted) order: the replacement of
// Go's randomised map iteration order.
func MapKeys[M ~map[K]V, K comparable, V any](m M) []K {
	keys := make([]K, 0, len(m))
	for k := range m {
		keys = append(keys, k)
	}
	if len(keys) < 2 {
		return keys
	}
	switch reflect.TypeOf(keys[0]).Kind() {
	case reflect.String:
		sort.Slice(keys, func(i, j int) bool { return reflect.ValueOf(keys[i]).String() < reflect.ValueOf(keys[j]).String() })
	case reflect.Int, reflect.Int8, reflect.Int16, reflect.Int32, reflect.Int64:
		sort.Slice(keys, func(i, j int) bool { return reflect.ValueOf(keys[i]).Int() < reflect.ValueOf(keys[j]).Int() })
	case reflect.Uint, reflect.Uint8, reflect.Uint16, reflect.Uint32, reflect.Uint64:
		sort.Slice(keys, func(i, j int) bool { return reflect.ValueOf(keys[i]).Uint() < reflect.ValueOf(keys[j]).Uint() })
	default:
		strs := make(map[any]string, len(keys))
		for _, k := range keys {
			strs[k] = fmt.Sprintf("%v", k)
		}
		sort.Slice(keys, func(i, j int) bool { return strs[keys[i]] < strs[keys[j]] })
	}
	return keys
}

// ---- signals ----

type sigReg struct {
	ch   chan<- os.Signal
	sigs []os.Signal
}

var sigRegs []sigReg

// SignalNotify is the replacement of signal.Notify: it only registers the channel.
func SignalNotify(c chan<- os.Signal, sigs ...os.Signal) {
	sigRegs = append(sigRegs, sigReg{c, sigs})
}

// ResetSignals forgets all registrations (start of an execution).
func ResetSignals() { sigRegs = nil }

// Raise delivers sig to every registered channel the way the runtime does: a
// non-blocking send. It returns the number of channels that took it.
func Raise(sig os.Signal) int {
	n := 0
	for _, r := range sigRegs {
		match := len(r.sigs) == 0
		for _, s := range r.sigs {
			if s == sig {
				match = true
			}
		}
		if !match {
			continue
		}
		sc := SendCase(r.ch, sig)
		if Select(true, sc) == 0 {
			n++
		}
	}
	return n
}
