// Package vrt is the controlled runtime: a cooperative scheduler that owns every
// scheduling decision of the instrumented code, a virtual clock, a channel model
// and (hb.go) a happens-before race monitor.
//
// Exactly one thread holds the baton at any time. A thread gives the baton back
// at every scheduling point (yield) by posting a pending Op with an Enabled
// predicate; the scheduling decision is computed by whoever holds the baton
// (no separate scheduler goroutine), so a thread that continues pays no
// goroutine switch.
//
// With no execution active (cur == nil) the shims in vsync delegate to the real
// primitives ("pass-through"), which is what lets third-party code such as
// prometheus.Registry.Gather call back into instrumented collectors.
package vrt

import (
	"fmt"
	"runtime"
	"strings"
	"time"
)

// Epoch is the virtual instant at which every execution starts.
var Epoch = time.Date(2024, 1, 1, 0, 0, 0, 0, time.UTC)

type Thread struct {
	ID      int
	Name    string
	Harness bool // a harness thread that must finish (else: deadlock)
	Daemon  bool // environment thread; being blocked at the end is neither leak nor deadlock
	wake    chan struct{}
	pending *Op
	done    bool
	started bool
	vc      VC
	exec    *Exec
}

// Op is a pending operation of a parked thread.
type Op struct {
	Kind    string
	Obj     any
	Site    string
	Enabled func() bool
	WakeAt  func() time.Time // optional: virtual instant at which Enabled may turn true by itself
	Idle    bool             // enabled only when nothing else is
	// channel operations
	cases    []*selCase
	hasDef   bool
	fired    int
	resolved bool
}

type Point struct {
	N       int    // number of alternatives
	Chosen  int    // index chosen
	Thread  bool   // a thread choice (else a data choice: select case, environment answer, timer tie)
	Running bool   // thread choice where alternative 0 is the still-enabled running thread
	Desc    string // only filled when tracing
	Alts    []int  // thread ids of the alternatives (tracing only)
	FP      uint32 // fingerprint of the state the choice was made in (alternatives, their pending operations, virtual time)
}

type Event struct {
	T    time.Duration // virtual time since Epoch
	Th   int
	Kind string
	A, B string
	N    int64
}

func (ev Event) String() string {
	return fmt.Sprintf("%v T%d %s %s %s %d", ev.T, ev.Th, ev.Kind, ev.A, ev.B, ev.N)
}

type Exec struct {
	threads  []*Thread
	running  *Thread
	now      time.Time
	Horizon  time.Time
	prefix   []int
	expectFP []uint32
	Points   []Point
	Events   []Event
	Trace    bool
	chans    map[uintptr]*chanState
	atomics  map[uintptr]*SyncVC
	ctxKids  map[uintptr][]uintptr // Done channel of a context -> Done channels of the contexts derived from it
	keep     []any
	aborting bool
	finished chan struct{}
	exited   chan struct{}

	// results
	Crash       string   // first unrecovered panic (thread, value, stack)
	CrashThread string
	Deadlock    bool     // nothing enabled, no timer pending, and a Harness thread unfinished
	HorizonHit  bool
	Blocked     []string // threads still parked at the end: "name kind@site"
	BlockedOps  []BlockedOp
	Diverged    string   // replay prefix did not fit
	Races       []Race
	raceSeen    map[string]bool
	shadow      map[uintptr]*shadowCell
	policy      int
	LogYield    bool
	VarYield    bool
	yieldAt     map[string]bool
	ClockContended bool // vtime.Now is a scheduling point
	NoHB        bool
	MaxPoints   int
	MaxSteps    int
	LivelockThread string
	Livelock    string // set when the step cap was hit: the operation the running thread keeps performing (kind@site)
	Steps       int
	userData    map[string]any
	invariant   func() string
	InvariantViolation string
}

// SetInvariant installs a state predicate evaluated at every scheduling decision of the
// current execution; the first non-empty result is kept in InvariantViolation.
func SetInvariant(f func() string) {
	if cur != nil {
		cur.invariant = f
	}
}

// Owned is implemented by lock-like objects that know which thread holds them.
type Owned interface{ OwnerID() int }

type BlockedOp struct {
	ID     int
	Cycle  bool // part of a wait-for cycle between lock holders
	Thread string
	Kind   string
	Site   string
	Daemon bool
	Harness bool
}

var cur *Exec

// Active reports whether a controlled execution is in progress.
func Active() bool { return cur != nil && !cur.aborting }

// Aborting reports whether the current execution is being torn down (shims must be no-ops).
func Aborting() bool { return cur != nil && cur.aborting }

func Cur() *Exec { return cur }

// Me returns the thread holding the baton.
func Me() *Thread {
	if cur == nil {
		return nil
	}
	return cur.running
}

func (e *Exec) Threads() []*Thread { return e.threads }
func (t *Thread) Done() bool       { return t.done }

func (e *Exec) Set(k string, v any) {
	if e.userData == nil {
		e.userData = map[string]any{}
	}
	e.userData[k] = v
}
func (e *Exec) Get(k string) any { return e.userData[k] }

type abortSentinel struct{}

func site() string {
	for skip := 2; skip < 14; skip++ {
		pc, file, _, ok := runtime.Caller(skip)
		if !ok {
			break
		}
		if strings.Contains(file, "/rt/vrt/") || strings.Contains(file, "/rt/vsync/") || strings.Contains(file, "/rt/vnet/") {
			continue
		}
		fn := runtime.FuncForPC(pc).Name()
		if i := strings.LastIndex(fn, "/"); i >= 0 {
			fn = fn[i+1:]
		}
		if i := strings.LastIndex(file, "/"); i >= 0 {
			file = file[i+1:]
		}
		// no line numbers: positions come from rewritten files
		return file + ":" + fn
	}
	return "?"
}

// Options configures one execution.
type Options struct {
	Prefix         []int
	ExpectFP       []uint32 // fingerprints the points of the prefix must have (from the execution the prefix was taken from); a mismatch is a divergence
	Trace          bool
	Horizon        time.Duration // virtual time budget (0 = 24h)
	ClockContended bool
	LogYield       bool // every log record of the code under test is a scheduling point
	VarYield       bool // every access to a closure-shared local variable is a scheduling point
	YieldAt        map[string]bool // monitored locations (by name) whose accesses are scheduling points: race-directed exploration
	Policy         int // default scheduler: 0 = lowest-numbered enabled thread first, 1 = highest-numbered first
	MaxPoints      int // safety cap on scheduling points (0 = 200000)
	MaxSteps       int // a thread that is still running after this many steps of the execution without the execution ending is a livelock (0 = 1000000)
	NoHB           bool
}

// Run executes body as harness thread "main" under the given choice prefix; beyond
// the prefix every choice is 0.
func Run(opt Options, body func()) *Exec {
	if cur != nil {
		panic("vrt.Run: nested execution")
	}
	h := opt.Horizon
	if h == 0 {
		h = 24 * time.Hour
	}
	e := &Exec{
		chans:    map[uintptr]*chanState{},
		ctxKids:  map[uintptr][]uintptr{},
		prefix:   opt.Prefix,
		expectFP: opt.ExpectFP,
		Trace:    opt.Trace,
		now:      Epoch,
		Horizon:  Epoch.Add(h),
		finished: make(chan struct{}, 1),
		exited:   make(chan struct{}),
		ClockContended: opt.ClockContended,
		policy: opt.Policy,
		LogYield: opt.LogYield,
		VarYield: opt.VarYield,
		yieldAt:  opt.YieldAt,
		MaxPoints: opt.MaxPoints,
		MaxSteps:  opt.MaxSteps,
		NoHB: opt.NoHB,
	}
	if e.MaxSteps == 0 {
		e.MaxSteps = 1000000
	}
	if e.MaxPoints == 0 {
		e.MaxPoints = 200000
	}
	cur = e
	resetRand()
	t := e.newThread("main", body)
	t.Harness = true
	e.running = t
	t.started = true
	t.pending = nil
	t.wake <- struct{}{}
	<-e.finished
	// tear down: wake every parked thread in turn; it exits through runtime.Goexit.
	e.aborting = true
	for _, t := range e.threads {
		if !t.done {
			e.BlockedOps = append(e.BlockedOps, blockedOf(t))
		}
	}
	e.markCycles()
	for _, t := range e.threads {
		if !t.done {
			t.wake <- struct{}{}
			<-e.exited
		}
	}
	cur = nil
	passNow = e.now // code that runs after the execution (scrapes in oracles) sees the clock where it stopped
	restoreRand()
	for _, b := range e.BlockedOps {
		e.Blocked = append(e.Blocked, fmt.Sprintf("%s %s@%s", b.Thread, b.Kind, b.Site))
	}
	return e
}

func blockedOf(t *Thread) BlockedOp {
	b := BlockedOp{ID: t.ID, Thread: t.Name, Daemon: t.Daemon, Harness: t.Harness}
	if t.pending != nil {
		b.Kind, b.Site = t.pending.Kind, t.pending.Site
	}
	return b
}

func (e *Exec) newThread(name string, f func()) *Thread {
	t := &Thread{ID: len(e.threads), Name: name, wake: make(chan struct{}, 1), exec: e}
	if name == "" {
		t.Name = fmt.Sprintf("g%d", t.ID)
	}
	e.threads = append(e.threads, t)
	t.pending = &Op{Kind: "start"}
	if e.running != nil {
		t.vc = e.running.vc.copy()
		e.running.vc.tick(e.running.ID)
	}
	t.vc.tick(t.ID)
	go func() {
		<-t.wake
		if e.aborting {
			t.done = true
			e.exited <- struct{}{}
			return
		}
		t.pending = nil
		defer func() {
			r := recover()
			if e.aborting {
				// being torn down (Goexit or a panic raised while aborting)
				t.done = true
				e.exited <- struct{}{}
				return
			}
			if r != nil {
				if _, ok := r.(abortSentinel); !ok && e.Crash == "" {
					buf := make([]byte, 8192)
					n := runtime.Stack(buf, false)
					e.Crash = fmt.Sprintf("panic in thread %s: %v\n%s", t.Name, r, trimStack(string(buf[:n])))
					e.CrashThread = t.Name
				}
			}
			t.done = true
			if e.Crash != "" {
				e.finish()
				return
			}
			e.schedule(t)
		}()
		f()
	}()
	return t
}

func trimStack(s string) string {
	lines := strings.Split(s, "\n")
	var out []string
	for _, l := range lines {
		if strings.Contains(l, "/rt/vrt/") || strings.Contains(l, "runtime/panic.go") || strings.Contains(l, "runtime/debug") {
			continue
		}
		out = append(out, l)
		if len(out) > 40 {
			break
		}
	}
	return strings.Join(out, "\n")
}

func (e *Exec) finish() {
	select {
	case e.finished <- struct{}{}:
	default:
	}
}

// Go starts f as a new (non-harness) thread: the replacement of the go statement.
func Go(f func()) {
	if cur == nil {
		go f()
		return
	}
	if cur.aborting {
		return
	}
	cur.newThread("", f)
}

// Spawn starts a named harness thread.
func Spawn(name string, f func()) *Thread {
	t := cur.newThread(name, f)
	t.Harness = true
	return t
}

// SpawnDaemon starts a named environment thread (scripted peer); it may stay blocked forever.
func SpawnDaemon(name string, f func()) *Thread {
	t := cur.newThread(name, f)
	t.Daemon = true
	return t
}

// yield parks the calling thread on op until the scheduler picks it again.
func yield(op *Op) {
	e := cur
	if e == nil {
		panic("vrt: blocking shim used outside a controlled execution")
	}
	if e.aborting {
		runtime.Goexit()
	}
	t := e.running
	if e.Trace {
		op.Site = site()
	}
	t.pending = op
	e.Steps++
	if e.Steps > e.MaxSteps && e.Livelock == "" {
		e.livelock(t, op.Kind)
	}
	e.schedule(t)
	t.pending = nil
}

// livelock ends an execution that does not end by itself: some thread keeps running without ever
// blocking for good (a retry loop on a persistent error, a spin). Time cannot advance while it runs.
func (e *Exec) livelock(t *Thread, kind string) {
	e.Livelock = kind + "@" + site()
	e.LivelockThread = t.Name
	e.finish()
	<-t.wake
	runtime.Goexit()
}

// Step accounts one operation that returns at once without being a scheduling point (a call on a
// closed socket, say), so that a loop made only of such operations is still recognised as a livelock.
func Step(kind string) {
	e := cur
	if e == nil || e.aborting || e.running == nil {
		return
	}
	e.Steps++
	if e.Steps > e.MaxSteps && e.Livelock == "" {
		e.livelock(e.running, kind)
	}
}

// schedule is run by the thread that holds the baton (from): it picks the next
// thread, and either continues (next == from) or hands over and parks.
func (e *Exec) schedule(from *Thread) {
	next := e.pick(from)
	if next == from && !from.done {
		return
	}
	if next == nil {
		e.finish()
	} else {
		e.running = next
		next.wake <- struct{}{}
	}
	if from.done {
		return
	}
	<-from.wake
	if e.aborting {
		runtime.Goexit()
	}
}

func (t *Thread) enabled() bool {
	if t.done || t.pending == nil {
		return false
	}
	op := t.pending
	if op.resolved {
		return true
	}
	if op.Idle {
		return false
	}
	if op.Enabled == nil {
		return true
	}
	return op.Enabled()
}

func (e *Exec) pick(from *Thread) *Thread {
	if e.Crash != "" || e.Diverged != "" {
		return nil
	}
	if e.invariant != nil && e.InvariantViolation == "" {
		if v := e.invariant(); v != "" {
			e.InvariantViolation = v
		}
	}
	if len(e.Points) > e.MaxPoints {
		e.Diverged = "scheduling point cap exceeded (cyclic execution?)"
		return nil
	}
	var en []*Thread
	for {
		en = en[:0]
		if from != nil && from.enabled() {
			en = append(en, from)
		}
		if e.policy == 1 {
			for i := len(e.threads) - 1; i >= 0; i-- {
				if t := e.threads[i]; t != from && t.enabled() {
					en = append(en, t)
				}
			}
		} else {
			for _, t := range e.threads {
				if t != from && t.enabled() {
					en = append(en, t)
				}
			}
		}
		if len(en) > 0 {
			break
		}
		// nothing enabled: idle waiters first, then time.
		var idle *Thread
		for _, t := range e.threads {
			if !t.done && t.pending != nil && t.pending.Idle && !t.pending.resolved {
				idle = t
				break
			}
		}
		if idle != nil {
			idle.pending.resolved = true
			continue
		}
		var next time.Time
		for _, t := range e.threads {
			if t.done || t.pending == nil || t.pending.WakeAt == nil {
				continue
			}
			w := t.pending.WakeAt()
			if w.IsZero() {
				continue
			}
			if next.IsZero() || w.Before(next) {
				next = w
			}
		}
		if next.IsZero() {
			// quiescent for good
			for _, t := range e.threads {
				if !t.done && t.Harness {
					e.Deadlock = true
				}
			}
			return nil
		}
		if next.After(e.Horizon) {
			e.HorizonHit = true
			return nil
		}
		if !next.After(e.now) {
			// a WakeAt in the past whose op is still not enabled: model bug
			e.Diverged = "timer in the past with disabled op"
			return nil
		}
		e.now = next
	}
	running := len(en) > 0 && en[0] == from
	c := 0
	if len(en) > 1 {
		c = e.choice(len(en), true, running, en)
		if c < 0 {
			return nil
		}
	}
	return en[c]
}

// choice records one choice point with n alternatives and returns the chosen index.
func (e *Exec) choice(n int, thread, running bool, en []*Thread) int {
	c := 0
	i := len(e.Points)
	if i < len(e.prefix) {
		c = e.prefix[i]
		if c >= n || c < 0 {
			e.Diverged = fmt.Sprintf("replay divergence at point %d: choice %d of %d", i, c, n)
			return -1
		}
	}
	// fingerprint of the state: who can run, what each is about to do, and when
	fp := uint32(2166136261)
	mix := func(v uint32) { fp = (fp ^ v) * 16777619 }
	mix(uint32(n))
	if thread {
		mix(1)
	}
	if running {
		mix(2)
	}
	mix(uint32(e.now.UnixNano()))
	mix(uint32(e.now.UnixNano() >> 32))
	for _, t := range en {
		mix(uint32(t.ID))
		if t.pending != nil {
			for k := 0; k < len(t.pending.Kind); k++ {
				mix(uint32(t.pending.Kind[k]))
			}
		}
	}
	if en == nil && e.running != nil {
		mix(uint32(e.running.ID) + 77)
	}
	if i < len(e.expectFP) && e.expectFP[i] != fp {
		e.Diverged = fmt.Sprintf("replay divergence at point %d: the state differs from the one this prefix was recorded in (%d alternatives; nondeterminism outside the scheduler)", i, n)
		return -1
	}
	p := Point{N: n, Chosen: c, Thread: thread, Running: running, FP: fp}
	if e.Trace && thread {
		t := en[c]
		p.Desc = fmt.Sprintf("%s %s@%s", t.Name, t.pending.Kind, t.pending.Site)
		for _, x := range en {
			p.Alts = append(p.Alts, x.ID)
		}
	}
	e.Points = append(e.Points, p)
	return c
}

// Choose is a cost-0 data choice point (select case, environment answer, timer tie).
func Choose(n int, desc string) int {
	e := cur
	if e == nil || e.aborting || n <= 1 {
		return 0
	}
	c := e.choice(n, false, false, nil)
	if c < 0 {
		// divergence: stop this execution
		e.finish()
		<-e.running.wake
		runtime.Goexit()
	}
	if e.Trace {
		e.Points[len(e.Points)-1].Desc = "choose " + desc
	}
	return c
}

// Yield is an explicit scheduling point.
func Yield(label string) {
	if cur == nil || cur.aborting {
		return
	}
	yield(&Op{Kind: "yield:" + label})
}

// WaitUntil blocks the calling thread until cond holds (modelled blocking).
func WaitUntil(kind string, obj any, cond func() bool) {
	if cur == nil {
		panic("vrt.WaitUntil outside execution: " + kind)
	}
	if cur.aborting {
		return
	}
	yield(&Op{Kind: kind, Obj: obj, Enabled: cond})
}

// WaitUntilOr blocks until cond holds or the virtual clock reaches wakeAt() (zero = never).
func WaitUntilOr(kind string, obj any, cond func() bool, wakeAt func() time.Time) {
	if cur == nil {
		panic("vrt.WaitUntilOr outside execution: " + kind)
	}
	if cur.aborting {
		return
	}
	e := cur
	yield(&Op{Kind: kind, Obj: obj,
		Enabled: func() bool {
			if cond() {
				return true
			}
			w := wakeAt()
			return !w.IsZero() && !w.After(e.now)
		},
		WakeAt: func() time.Time {
			w := wakeAt()
			if w.IsZero() || !w.After(e.now) {
				return time.Time{}
			}
			return w
		}})
}

// WaitIdle parks the caller until no other thread is enabled (the system is quiescent
// without advancing time).
func WaitIdle() {
	if cur == nil || cur.aborting {
		return
	}
	yield(&Op{Kind: "waitidle", Idle: true})
	// Quiescence orders everything: every other thread is parked, so all they have done precedes
	// what the caller does next. For the race monitor the wait is an acquire from every thread
	// (a harness that then calls into the system, e.g. Stop() after a reload has completed, is
	// not racing with the goroutine that performed the reload).
	if e := cur; e != nil && !e.aborting && e.running != nil {
		me := e.running
		for _, t := range e.threads {
			if t != me {
				me.vc.join(t.vc)
			}
		}
	}
}

// Join waits for the given threads to finish.
func Join(ts ...*Thread) {
	for _, t := range ts {
		t := t
		if !t.done {
			yield(&Op{Kind: "join", Obj: t, Enabled: func() bool { return t.done }})
		}
		if cur != nil && cur.running != nil {
			cur.running.vc.join(t.vc)
		}
	}
}

// ---- virtual time ----

var passNow = Epoch

// Now is the replacement of time.Now.
func Now() time.Time {
	e := cur
	if e == nil {
		return passNow
	}
	if e.ClockContended && !e.aborting {
		yield(&Op{Kind: "now"})
	}
	return e.now
}

// SetPassNow sets the clock used when no execution is active.
func SetPassNow(t time.Time) { passNow = t }

func Since(t time.Time) time.Duration { return Now().Sub(t) }
func Until(t time.Time) time.Duration { return t.Sub(Now()) }

// NowQuiet reads the clock without a scheduling point (for the environment model and oracles).
func NowQuiet() time.Time {
	if cur == nil {
		return passNow
	}
	return cur.now
}

// Sleep is the replacement of time.Sleep.
func Sleep(d time.Duration) {
	e := cur
	if e == nil {
		passNow = passNow.Add(d)
		return
	}
	if e.aborting || d <= 0 {
		return
	}
	until := e.now.Add(d)
	WaitUntilOr("sleep", nil, func() bool { return false }, func() time.Time { return until })
}

// Advance moves the virtual clock forward by d at a scheduling point (harness "tick").
func Advance(d time.Duration) {
	e := cur
	if e == nil {
		passNow = passNow.Add(d)
		return
	}
	if e.aborting {
		return
	}
	yield(&Op{Kind: "tick"})
	e.now = e.now.Add(d)
}

// ---- event log ----

func Log(kind, a, b string, n int64) {
	e := cur
	if e == nil || e.aborting {
		return
	}
	th := -1
	if e.running != nil {
		th = e.running.ID
	}
	e.Events = append(e.Events, Event{T: e.now.Sub(Epoch), Th: th, Kind: kind, A: a, B: b, N: n})
}

// Choices returns the choice sequence of the execution.
func (e *Exec) Choices() []int {
	out := make([]int, len(e.Points))
	for i, p := range e.Points {
		out[i] = p.Chosen
	}
	return out
}

// Fingerprints returns the state fingerprint of every choice point, for replaying the execution.
func (e *Exec) Fingerprints() []uint32 {
	out := make([]uint32, len(e.Points))
	for i, p := range e.Points {
		out[i] = p.FP
	}
	return out
}

// Elapsed returns the virtual time consumed.
func (e *Exec) Elapsed() time.Duration { return e.now.Sub(Epoch) }

// Leaked lists parked threads that are neither daemons nor harness threads.
func (e *Exec) Leaked() []BlockedOp {
	var out []BlockedOp
	for _, b := range e.BlockedOps {
		if !b.Daemon && !b.Harness {
			out = append(out, b)
		}
	}
	return out
}

func (e *Exec) DumpSchedule() []string {
	var out []string
	for i, p := range e.Points {
		out = append(out, fmt.Sprintf("%3d: %d/%d %s", i, p.Chosen, p.N, p.Desc))
	}
	return out
}

// markCycles finds wait-for cycles among threads blocked on owned locks.
func (e *Exec) markCycles() {
	waitsFor := map[int]int{}
	for _, t := range e.threads {
		if t.done || t.pending == nil {
			continue
		}
		if o, ok := t.pending.Obj.(Owned); ok {
			if id := o.OwnerID(); id >= 0 && id != t.ID {
				waitsFor[t.ID] = id
			}
		}
	}
	inCycle := map[int]bool{}
	for start := range waitsFor {
		seen := map[int]bool{}
		cur := start
		for {
			nxt, ok := waitsFor[cur]
			if !ok {
				break
			}
			if nxt == start {
				// every node on the path from start back to start is in the cycle
				c := start
				for {
					inCycle[c] = true
					c = waitsFor[c]
					if c == start {
						break
					}
				}
				break
			}
			if seen[nxt] {
				break
			}
			seen[nxt] = true
			cur = nxt
		}
	}
	for i := range e.BlockedOps {
		if inCycle[e.BlockedOps[i].ID] {
			e.BlockedOps[i].Cycle = true
		}
	}
}
