package vrt

import (
	"fmt"
	"reflect"
	"runtime"
	"sort"
	"unsafe"
)

// VC is a vector clock indexed by thread id.
type VC []uint32

func (v *VC) tick(id int) {
	for len(*v) <= id {
		*v = append(*v, 0)
	}
	(*v)[id]++
}

func (v VC) copy() VC {
	out := make(VC, len(v))
	copy(out, v)
	return out
}

func (v *VC) join(o VC) {
	for len(*v) < len(o) {
		*v = append(*v, 0)
	}
	for i, x := range o {
		if x > (*v)[i] {
			(*v)[i] = x
		}
	}
}

func (v VC) at(id int) uint32 {
	if id < len(v) {
		return v[id]
	}
	return 0
}

// SyncVC is embedded by vsync primitives to carry release clocks.
type SyncVC struct{ vc VC }

// Release records that the current thread releases the object.
func (s *SyncVC) Release() {
	if cur == nil || cur.running == nil {
		return
	}
	t := cur.running
	t.vc.tick(t.ID)
	s.vc.join(t.vc)
}

// ReleaseSet replaces the object's clock by the current thread's clock.
func (s *SyncVC) ReleaseSet() {
	if cur == nil || cur.running == nil {
		return
	}
	t := cur.running
	t.vc.tick(t.ID)
	s.vc = t.vc.copy()
}

// Acquire joins the object's clock into the current thread.
func (s *SyncVC) Acquire() {
	if cur == nil || cur.running == nil {
		return
	}
	cur.running.vc.join(s.vc)
}

type access struct {
	tid   int
	clock uint32
	name  string
	site  string
	write bool
}

type shadowCell struct {
	w     *access
	reads []access
}

// Race is an unordered pair of conflicting accesses.
type Race struct {
	A, B  string // "name@site (R|W)"
	Sig   string
	Names [2]string // the names of the two locations accessed
}

func (e *Exec) access(addr uintptr, name string, write bool, obj any) {
	t := e.running
	if t == nil || e.NoHB {
		return
	}
	if e.yieldAt != nil && e.yieldAt[name] {
		// race-directed exploration: this location was found in a data race, so its accesses are
		// scheduling points in this execution (the point lies before the access)
		yield(&Op{Kind: "access:" + name})
		if e.aborting {
			return
		}
	}
	if e.shadow == nil {
		e.shadow = map[uintptr]*shadowCell{}
	}
	c := e.shadow[addr]
	if c == nil {
		c = &shadowCell{}
		e.shadow[addr] = c
		e.keep = append(e.keep, obj) // retain: the address is the identity
	}
	st := ""
	if e.Trace {
		st = site()
	}
	me := access{tid: t.ID, clock: t.vc.at(t.ID), name: name, site: st, write: write}
	if c.w != nil && c.w.tid != t.ID && c.w.clock > t.vc.at(c.w.tid) {
		e.race(*c.w, me)
	}
	if write {
		for _, r := range c.reads {
			if r.tid != t.ID && r.clock > t.vc.at(r.tid) {
				e.race(r, me)
			}
		}
		c.w = &me
		c.reads = c.reads[:0]
	} else {
		for i := range c.reads {
			if c.reads[i].tid == t.ID {
				c.reads[i] = me
				return
			}
		}
		c.reads = append(c.reads, me)
	}
}

func rw(w bool) string {
	if w {
		return "W"
	}
	return "R"
}

func (e *Exec) race(a, b access) {
	names := []string{a.name + ":" + rw(a.write), b.name + ":" + rw(b.write)}
	sort.Strings(names)
	sig := "race{" + names[0] + " | " + names[1] + "}"
	if e.raceSeen == nil {
		e.raceSeen = map[string]bool{}
	}
	if e.raceSeen[sig] {
		return
	}
	e.raceSeen[sig] = true
	e.Races = append(e.Races, Race{
		A:   fmt.Sprintf("%s@%s (%s) by T%d", a.name, a.site, rw(a.write), a.tid),
		B:   fmt.Sprintf("%s@%s (%s) by T%d", b.name, b.site, rw(b.write), b.tid),
		Sig: sig,
		Names: [2]string{a.name, b.name},
	})
}

// R records a read of *p and returns p.
func R[T any](p *T, name string) *T {
	e := cur
	if e != nil && !e.aborting {
		e.access(uintptr(ptrOf(p)), name, false, p)
	}
	return p
}

// W records a write of *p and returns p.
func W[T any](p *T, name string) *T {
	e := cur
	if e != nil && !e.aborting {
		e.access(uintptr(ptrOf(p)), name, true, p)
	}
	return p
}

// AtomicOp is called by the sync/atomic replacement before every atomic operation: a scheduling
// point, then the happens-before edges of the operation on the object at addr (acquire for loads,
// release for stores, both for read-modify-write).
func AtomicOp(addr unsafe.Pointer, acquire, release bool) {
	e := cur
	if e == nil || e.aborting || e.running == nil {
		return
	}
	yield(&Op{Kind: "atomic"})
	if e.aborting {
		return
	}
	if e.atomics == nil {
		e.atomics = map[uintptr]*SyncVC{}
	}
	s := e.atomics[uintptr(addr)]
	if s == nil {
		s = &SyncVC{}
		e.atomics[uintptr(addr)] = s
		e.keep = append(e.keep, addr) // retain: the address is the identity
	}
	if acquire {
		s.Acquire()
	}
	if release {
		s.Release()
	}
}

// VarR / VarW: accesses to a local variable shared with a closure that may run elsewhere. They are
// reported to the race monitor like field accesses; in executions run with Options.VarYield they
// are scheduling points as well (the point lies before the access).
func VarR[T any](p *T, name string) *T {
	e := cur
	if e != nil && !e.aborting {
		if e.VarYield {
			Yield("var")
		}
		e.access(uintptr(ptrOf(p)), name, false, p)
	}
	return p
}

func VarW[T any](p *T, name string) *T {
	e := cur
	if e != nil && !e.aborting {
		if e.VarYield {
			Yield("var")
		}
		e.access(uintptr(ptrOf(p)), name, true, p)
	}
	return p
}

// MapR records a read of the map object and returns it.
func MapR[M any](m M, name string) M {
	e := cur
	if e != nil && !e.aborting {
		v := reflect.ValueOf(m)
		if v.Kind() == reflect.Map && !v.IsNil() {
			e.access(v.Pointer(), name, false, m)
		}
	}
	return m
}

// MapW records a mutation of the map object and returns it.
func MapW[M any](m M, name string) M {
	e := cur
	if e != nil && !e.aborting {
		v := reflect.ValueOf(m)
		if v.Kind() == reflect.Map && !v.IsNil() {
			e.access(v.Pointer(), name, true, m)
		}
	}
	return m
}

// ObjR / ObjW record a read / mutation of the object a pointer refers to (container/list).
func ObjR[P any](p P, name string) P {
	e := cur
	if e != nil && !e.aborting {
		v := reflect.ValueOf(p)
		if v.Kind() == reflect.Ptr && !v.IsNil() {
			e.access(v.Pointer(), name, false, p)
		}
	}
	return p
}

func ObjW[P any](p P, name string) P {
	e := cur
	if e != nil && !e.aborting {
		v := reflect.ValueOf(p)
		if v.Kind() == reflect.Ptr && !v.IsNil() {
			e.access(v.Pointer(), name, true, p)
		}
	}
	return p
}

func runtimeGoexit() { runtime.Goexit() }
