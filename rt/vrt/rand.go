package vrt

import (
	"crypto/rand"
	"crypto/sha256"
	"encoding/binary"
	"errors"
	"io"
)

// Deterministic replacement of crypto/rand.Reader for the duration of an execution:
// SHA-256 in counter mode over (Seed, counter). Salts become a function of the
// schedule, so a recorded schedule replays bit-identically.

var Seed uint64 = 1

var savedReader io.Reader

// RandFailAfter: the system's random source (crypto/rand.Reader during an execution) fails from
// its n-th Read on (0 = never fails): fault injection for code that draws salts.
var RandFailAfter int

type drbg struct {
	ctr    uint64
	buf    []byte
	reads  int
	system bool
}

var errEntropy = errors.New("entropy source failed (injected)")

func (d *drbg) Read(p []byte) (int, error) {
	if d.system && RandFailAfter > 0 {
		d.reads++
		if d.reads >= RandFailAfter {
			return 0, errEntropy
		}
	}
	n := 0
	for n < len(p) {
		if len(d.buf) == 0 {
			var in [16]byte
			binary.BigEndian.PutUint64(in[:8], Seed)
			binary.BigEndian.PutUint64(in[8:], d.ctr)
			d.ctr++
			h := sha256.Sum256(in[:])
			d.buf = h[:]
		}
		c := copy(p[n:], d.buf)
		d.buf = d.buf[c:]
		n += c
	}
	return n, nil
}

func resetRand() {
	savedReader = rand.Reader
	rand.Reader = &drbg{system: true}
}

func restoreRand() {
	if savedReader != nil {
		rand.Reader = savedReader
	}
}

// DetRand returns a fresh deterministic stream for harness use (client salts, payloads).
func DetRand(stream uint64) io.Reader { return &drbg{ctr: stream << 32} }
