package vrt

import "unsafe"

func ptrOf[T any](p *T) unsafe.Pointer { return unsafe.Pointer(p) }
