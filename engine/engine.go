// Package engine holds the three exploration engines:
//
//	S  stateless, preemption-bounded depth-first exploration of all schedules (and
//	   cost-0 data choices) of a harness body running the real code under vrt;
//	Q  breadth-first operation-sequence search (each sequence replayed on a fresh
//	   instance under the default schedule) with a lock-step reference model;
//	E  exhaustive enumeration of a bounded input domain through the real code.
//
// Every engine reports what it covered in a Result that the driver merges over
// shards and turns into evidence.
package engine

import (
	"bytes"
	"crypto/sha256"
	"encoding/binary"
	"encoding/json"
	"fmt"
	"os"
	"os/exec"
	"sort"
	"strings"
	"time"

	"verif/rt/vrt"
)

// Finding is one oracle failure. Sig identifies the defect (no line numbers, no
// addresses) so that known findings can be matched; Replay re-creates it.
type Finding struct {
	Property string `json:"property"`
	Unit     string `json:"unit"`
	Sig      string `json:"sig"`
	Msg      string `json:"msg"`
	Replay   Replay `json:"replay"`
	Count    int    `json:"count"`
}

type Replay struct {
	Unit    string          `json:"unit"`
	Choices []int           `json:"choices,omitempty"`
	FPs     []uint32        `json:"state_fingerprints,omitempty"` // one per choice: the replay must pass through the same states
	YieldAt []string        `json:"yield_at,omitempty"`           // race-directed units: the locations whose accesses are scheduling points
	Input   json.RawMessage `json:"input,omitempty"`
	Trace   []string        `json:"trace,omitempty"`
}

// Result is what a worker reports for its shard of one property.
type Result struct {
	Property    string               `json:"property"`
	Tier        string               `json:"tier"`
	Evaluations int64                `json:"evaluations"`
	States      int64                `json:"states"`
	Transitions int64                `json:"transitions"`
	Outcomes    map[string]int64     `json:"outcomes"` // distinct observation hash -> count
	NonTrivial  map[string]bool      `json:"nontrivial"`
	Samples     []any                `json:"samples"`
	Findings    []*Finding           `json:"findings"`
	Units       map[string]*UnitStat `json:"units"`
	Exhaustive  bool                 `json:"exhaustive"`
	Caps        []string             `json:"caps"`
	Notes       []string             `json:"notes"`
	WallS       float64              `json:"wall_s"`
}

type UnitStat struct {
	Engine      string `json:"engine"`
	Bound       string `json:"bound"`
	Evaluations int64  `json:"evaluations"`
	States      int64  `json:"states"`
	Transitions int64  `json:"transitions"`
	Distinct    int    `json:"distinct_outcomes"`
	Complete    bool   `json:"complete"`
	MaxDepth    int    `json:"max_depth"`
	Audits      int64  `json:"determinism_audits,omitempty"` // executions re-run from their own choices and compared (states and observation)
}

func NewResult(prop, tier string) *Result {
	return &Result{Property: prop, Tier: tier, Outcomes: map[string]int64{}, NonTrivial: map[string]bool{}, Units: map[string]*UnitStat{}, Exhaustive: true}
}

func (r *Result) unit(name, engine string) *UnitStat {
	u := r.Units[name]
	if u == nil {
		u = &UnitStat{Engine: engine, Complete: true}
		r.Units[name] = u
	}
	return u
}

// AddFinding records a finding once per signature (first replay wins, count accumulates).
func (r *Result) AddFinding(f *Finding) {
	for _, g := range r.Findings {
		if g.Sig == f.Sig && g.Unit == f.Unit {
			g.Count++
			return
		}
	}
	f.Property = r.Property
	f.Count = 1
	r.Findings = append(r.Findings, f)
}

func (r *Result) Sample(v any) {
	if len(r.Samples) < 6 {
		r.Samples = append(r.Samples, v)
	}
}

func (r *Result) Cap(format string, a ...any) {
	r.Exhaustive = false
	r.Caps = append(r.Caps, fmt.Sprintf(format, a...))
}

func (r *Result) Note(format string, a ...any) { r.Notes = append(r.Notes, fmt.Sprintf(format, a...)) }

// Merge folds another shard's result into r.
func (r *Result) Merge(o *Result) {
	r.Evaluations += o.Evaluations
	r.States += o.States
	r.Transitions += o.Transitions
	for k, v := range o.Outcomes {
		r.Outcomes[k] += v
	}
	for k := range o.NonTrivial {
		r.NonTrivial[k] = true
	}
	for _, s := range o.Samples {
		r.Sample(s)
	}
	for _, f := range o.Findings {
		dup := false
		for _, g := range r.Findings {
			if g.Sig == f.Sig && g.Unit == f.Unit {
				g.Count += f.Count
				dup = true
			}
		}
		if !dup {
			r.Findings = append(r.Findings, f)
		}
	}
	for k, u := range o.Units {
		m := r.Units[k]
		if m == nil {
			c := *u
			r.Units[k] = &c
			continue
		}
		m.Evaluations += u.Evaluations
		m.States += u.States
		m.Transitions += u.Transitions
		m.Audits += u.Audits
		if u.Distinct > m.Distinct {
			m.Distinct = u.Distinct
		}
		m.Complete = m.Complete && u.Complete
		if u.MaxDepth > m.MaxDepth {
			m.MaxDepth = u.MaxDepth
		}
	}
	r.Exhaustive = r.Exhaustive && o.Exhaustive
	for _, c := range o.Caps {
		dup := false
		for _, d := range r.Caps {
			if capKey(d) == capKey(c) {
				dup = true
			}
		}
		if !dup {
			r.Caps = append(r.Caps, c)
		}
	}
	for _, c := range o.Notes {
		dup := false
		for _, d := range r.Notes {
			if d == c {
				dup = true
			}
		}
		if !dup {
			r.Notes = append(r.Notes, c)
		}
	}
	if o.WallS > r.WallS {
		r.WallS = o.WallS
	}
}

// capKey drops the numbers of a cap message so that the same cap hit in several shards is listed once.
func capKey(s string) string {
	b := make([]byte, 0, len(s))
	for i := 0; i < len(s); i++ {
		if s[i] < '0' || s[i] > '9' {
			b = append(b, s[i])
		}
	}
	return string(b)
}

// Hash is a short stable digest used for outcome de-duplication.
func Hash(parts ...string) string {
	h := sha256.New()
	for _, p := range parts {
		var l [4]byte
		binary.BigEndian.PutUint32(l[:], uint32(len(p)))
		h.Write(l[:])
		h.Write([]byte(p))
	}
	return fmt.Sprintf("%x", h.Sum(nil)[:8])
}

// ---------------------------------------------------------------------------
// Engine S

// Scenario is one closed harness: Body runs as the main harness thread of a fresh
// execution; Check inspects the finished execution.
type Scenario struct {
	Name string
	Opt  vrt.Options
	Body func()
	// Check returns an observation string (hashed for the distinct-outcome count),
	// whether the execution was non-trivial (threads really interacted), and findings.
	Check func(x *vrt.Exec) (obs string, nontrivial bool, findings []*Finding)
	// Fresh: every execution runs in a process of its own, so that package-level state of the
	// code under test (lazily initialised tables, caches keyed by secrets, ...) is as it is right
	// after program start in every execution. The scenario must be registered in FreshRegistry
	// under its name so that the child process can find it.
	Fresh bool
	// Prop is the property (worker entry) the scenario belongs to; set by the explorer, used to
	// address the scenario in a child process.
	Prop string
}

// PendingFresh is set in a child process: the first scenario the property's replayer resolves by
// name is executed once as requested, its outcome printed, and the process ends.
var PendingFresh *FreshRequest

// Run is the outcome of one execution (wherever it ran).
type Run struct {
	Points     []vrt.Point `json:"points"`
	Steps      int         `json:"steps"`
	Diverged   string      `json:"diverged,omitempty"`
	RaceNames  []string    `json:"race_names,omitempty"`
	Obs        string      `json:"obs"`
	NonTrivial bool        `json:"nontrivial"`
	Findings   []*Finding  `json:"findings,omitempty"`
	Trace      []string    `json:"trace,omitempty"`
}

func (r *Run) Choices() []int {
	out := make([]int, len(r.Points))
	for i, p := range r.Points {
		out[i] = p.Chosen
	}
	return out
}

func (r *Run) Fingerprints() []uint32 {
	out := make([]uint32, len(r.Points))
	for i, p := range r.Points {
		out[i] = p.FP
	}
	return out
}

// FreshRequest is what a child process is asked to execute.
type FreshRequest struct {
	Prop    string   `json:"prop"`
	Unit    string   `json:"unit"`
	Choices []int    `json:"choices"`
	FPs     []uint32 `json:"fps"`
	Trace   bool     `json:"trace"`
	YieldAt []string `json:"yield_at,omitempty"`
	Policy  int      `json:"policy"`
}

// Execute runs sc once under the given prefix — here, or in a child process if sc.Fresh — and
// evaluates its oracle.
func Execute(sc *Scenario, choices []int, fps []uint32, trace bool) *Run {
	if sc.Fresh && os.Getenv("VERIF_FRESH_CHILD") == "" {
		return executeFresh(sc, choices, fps, trace)
	}
	x := RunOnceFP(sc, choices, fps, trace)
	r := &Run{Points: x.Points, Steps: x.Steps, Diverged: x.Diverged}
	seen := map[string]bool{}
	for _, rc := range x.Races {
		for _, n := range rc.Names {
			if !seen[n] {
				seen[n] = true
				r.RaceNames = append(r.RaceNames, n)
			}
		}
	}
	r.Findings = StandardFindings(sc, x)
	if x.Diverged == "" {
		var more []*Finding
		r.Obs, r.NonTrivial, more = sc.Check(x)
		r.Findings = append(r.Findings, more...)
	}
	if trace {
		r.Trace = x.DumpSchedule()
		if len(r.Trace) > 400 {
			r.Trace = r.Trace[:400]
		}
	}
	return r
}

func executeFresh(sc *Scenario, choices []int, fps []uint32, trace bool) *Run {
	req := FreshRequest{Prop: sc.Prop, Unit: sc.Name, Choices: choices, FPs: fps, Trace: trace, YieldAt: yieldNames(sc), Policy: sc.Opt.Policy}
	in, _ := json.Marshal(req)
	cmd := exec.Command(os.Args[0], "-fresh-exec", "-prop", sc.Prop)
	cmd.Env = append(os.Environ(), "VERIF_FRESH_CHILD=1")
	cmd.Stdin = bytes.NewReader(in)
	out, err := cmd.Output()
	r := &Run{}
	if err != nil {
		r.Diverged = "child process failed: " + err.Error()
		return r
	}
	if err := json.Unmarshal(out, r); err != nil {
		r.Diverged = "child process output unreadable: " + err.Error()
	}
	if r.Diverged != "" && os.Getenv("VERIF_DEBUG_FRESH") != "" {
		fmt.Fprintf(os.Stderr, "FRESH-DIVERGED %s req=%s\n", r.Diverged, string(in))
	}
	return r
}

// FreshChild is the main of a child process: the property's replayer is asked for the unit, and
// ReplayScenario, instead of replaying, executes the scenario once as requested (runPending).
func FreshChild(replay func(Replay) []*Finding) {
	var req FreshRequest
	if err := json.NewDecoder(os.Stdin).Decode(&req); err != nil {
		fmt.Fprintln(os.Stderr, "BROKEN:", err)
		os.Exit(2)
	}
	PendingFresh = &req
	replay(Replay{Unit: req.Unit, YieldAt: req.YieldAt})
	fmt.Fprintln(os.Stderr, "BROKEN: the replayer did not resolve unit", req.Unit)
	os.Exit(2)
}

func runPending(sc *Scenario) {
	req := PendingFresh
	PendingFresh = nil
	cp := *sc
	cp.Fresh = false
	r := Execute(&cp, req.Choices, req.FPs, req.Trace)
	json.NewEncoder(os.Stdout).Encode(r)
	os.Exit(0)
}

type SConfig struct {
	// Bound limits the deviations from the default scheduler (keep running the current
	// thread while it is enabled, otherwise the lowest-numbered enabled thread); <0 = unbounded.
	// With FreeSwitch only preemptions (switching away from a thread that could continue) are
	// counted, CHESS-style; otherwise every non-default thread choice counts (delay bounding).
	// Data choices (select cases, environment answers) are always free and always branched.
	Bound                int
	FreeSwitch           bool
	Shard                int
	NShards              int
	Deadline             time.Time
	MaxExecs             int64 // per shard; 0 = none
	ContinueAfterFinding bool
	// BothPolicies explores the deviation-bounded neighbourhood of two base schedules instead of
	// one: the default scheduler that prefers the lowest-numbered enabled thread and the one that
	// prefers the highest-numbered (newest) thread. The second exploration is reported as unit
	// "<name>#rev".
	BothPolicies bool
}

type Ctx struct {
	Res      *Result
	Tier     string
	Shard    int
	NShards  int
	Deadline time.Time
	Seed     uint64
}

func (c *Ctx) Expired() bool { return !c.Deadline.IsZero() && time.Now().After(c.Deadline) }

// RunOnce executes the scenario under a fixed choice sequence.
func RunOnce(sc *Scenario, choices []int, trace bool) *vrt.Exec {
	return RunOnceFP(sc, choices, nil, trace)
}

// RunOnceFP is RunOnce with the state fingerprints the points of the prefix must reproduce: the
// prefix was taken from an earlier execution, and an execution that does not pass through the same
// states while replaying it has diverged (a hard error, never a finding about the code).
func RunOnceFP(sc *Scenario, choices []int, fps []uint32, trace bool) *vrt.Exec {
	opt := sc.Opt
	opt.Prefix = choices
	opt.ExpectFP = fps
	opt.Trace = trace
	return vrt.Run(opt, sc.Body)
}

// branch is a prefix to explore together with the fingerprints of the states along it.
type branch struct {
	choices []int
	fps     []uint32
}

// StandardFindings turns the generic failure modes of an execution into findings.
func StandardFindings(sc *Scenario, x *vrt.Exec) []*Finding {
	var out []*Finding
	if x.Diverged != "" {
		out = append(out, &Finding{Unit: sc.Name, Sig: "BROKEN:diverged", Msg: x.Diverged})
	}
	return out
}

type node struct {
	prefix []int
}

// ExploreS explores every schedule of sc within the preemption bound. Work is
// sharded on the level-2 sub-trees of the exploration tree.
func ExploreS(ctx *Ctx, sc *Scenario, cfg SConfig) {
	if cfg.BothPolicies {
		cfg.BothPolicies = false
		ExploreS(ctx, sc, cfg)
		rev := *sc
		rev.Name = sc.Name + "#rev"
		rev.Opt.Policy = 1
		ExploreS(ctx, &rev, cfg)
		return
	}
	if sc.Prop == "" {
		cp := *sc
		cp.Prop = ctx.Res.Property
		sc = &cp
	}
	names, again := exploreS1(ctx, sc, cfg)
	if again {
		ctx.Res.Note("unit %s: the executions of one process are not independent (state outside the scenario survives from one execution to the next): explored again with every execution in a process of its own", sc.Name)
		fr := *sc
		fr.Fresh = true
		sc = &fr
		names, _ = exploreS1(ctx, sc, cfg)
	}
	if len(names) > 0 && sc.Opt.YieldAt == nil {
		// race-directed second phase. Scheduling points at synchronisation operations are enough
		// only for race-free code; the monitor found conflicting accesses unordered by
		// happens-before, so the scenario is explored again with every access to those locations
		// as a scheduling point: the consequences of the race (a torn two-pass read, a stale
		// check) become schedules of their own. Not sharded: only the shards whose part of the
		// first phase met the race know its locations.
		ctx.Res.Note("unit %s: conflicting accesses unordered by happens-before on %v: explored again with these accesses as scheduling points (unit %s#race)", sc.Name, names, sc.Name)
		rv := *sc
		rv.Name = sc.Name + "#race"
		rv.Opt.YieldAt = map[string]bool{}
		for _, n := range names {
			rv.Opt.YieldAt[n] = true
		}
		c2 := cfg
		c2.Shard, c2.NShards = 0, 1
		if _, again := exploreS1(ctx, &rv, c2); again {
			rv.Fresh = true
			exploreS1(ctx, &rv, c2)
		}
	}
}

// exploreS1 is one exploration of sc; it returns the names of the locations found in data races.
func exploreS1(ctx *Ctx, sc *Scenario, cfg SConfig) ([]string, bool) {
	needFresh := false
	raceNames := map[string]bool{}
	racy := func() []string {
		var out []string
		for n := range raceNames {
			out = append(out, n)
		}
		sort.Strings(out)
		return out
	}
	res := ctx.Res
	us := res.unit(sc.Name, "S")
	if cfg.Bound < 0 {
		us.Bound = "unbounded"
	} else if cfg.FreeSwitch {
		us.Bound = fmt.Sprintf("preemptions<=%d", cfg.Bound)
	} else {
		us.Bound = fmt.Sprintf("deviations<=%d", cfg.Bound)
	}
	distinct := map[string]bool{}
	var leafIndex int64
	stop := false
	var execs int64

	runOne := func(b branch, mine bool) *Run {
		prefix := b.choices
		x := Execute(sc, prefix, b.fps, false)
		if x.Diverged != "" && !sc.Fresh && os.Getenv("VERIF_FRESH_CHILD") == "" {
			// the executions of this process are not independent of each other: something outside
			// the scenario (package-level state of the code under test) survives from one to the
			// next. Stop, and explore the unit again with every execution in a process of its own.
			needFresh, stop = true, true
			return x
		}
		if !mine {
			return x
		}
		execs++
		res.Evaluations++
		us.Evaluations++
		for _, n := range x.RaceNames {
			raceNames[n] = true
		}
		newNodes := int64(len(x.Points) - len(prefix) + 1)
		if newNodes < 1 {
			newNodes = 1
		}
		res.States += newNodes
		us.States += newNodes
		res.Transitions += int64(x.Steps)
		us.Transitions += int64(x.Steps)
		if len(x.Points) > us.MaxDepth {
			us.MaxDepth = len(x.Points)
		}
		fs := x.Findings
		obs, nontrivial := x.Obs, x.NonTrivial
		if execs%512 == 1 && x.Diverged == "" {
			// determinism audit: the same choices must pass through the same states and give the
			// same observation
			xr := Execute(sc, x.Choices(), x.Fingerprints(), false)
			us.Audits++
			if (xr.Diverged != "" || xr.Obs != obs) && !sc.Fresh && os.Getenv("VERIF_FRESH_CHILD") == "" {
				// the second run of the same choices in this process went differently: state outside
				// the scenario survived the first one. Explore the unit in processes of their own.
				needFresh, stop = true, true
				return x
			}
			if xr.Diverged != "" {
				fs = append(fs, &Finding{Sig: "BROKEN:nondeterministic", Msg: "re-running an execution from its own choices: " + xr.Diverged})
			} else if xr.Obs != obs {
				fs = append(fs, &Finding{Sig: "BROKEN:nondeterministic", Msg: "re-running an execution from its own choices gave another observation: " + trunc(obs, 200) + " / " + trunc(xr.Obs, 200)})
			}
		}
		h := Hash(sc.Name, obs)
		res.Outcomes[h]++
		distinct[h] = true
		if nontrivial {
			res.NonTrivial[h] = true
		}
		if len(fs) > 0 {
			// re-run with tracing: signatures carry code sites (function names)
			xt := Execute(sc, x.Choices(), x.Fingerprints(), true)
			if xt.Diverged != "" && !sc.Fresh && os.Getenv("VERIF_FRESH_CHILD") == "" {
				needFresh, stop = true, true
				return x
			}
			broken := fs
			fs = xt.Findings
			for _, f := range broken {
				if strings.HasPrefix(f.Sig, "BROKEN:nondeterministic") {
					fs = append(fs, f)
				}
			}
			tr := xt.Trace
			for _, f := range fs {
				f.Unit = sc.Name
				f.Replay = Replay{Unit: sc.Name, Choices: x.Choices(), FPs: x.Fingerprints(), Trace: tr, YieldAt: yieldNames(sc)}
				res.AddFinding(f)
			}
		} else if len(res.Samples) < 3 && (nontrivial || execs == 1) {
			res.Sample(map[string]any{"unit": sc.Name, "choices": x.Choices(), "observation": trunc(obs, 400)})
		}
		return x
	}

	// children enumerates the alternative prefixes branching off execution x beyond len(prefix).
	children := func(x *Run, prefix []int) []branch {
		var out []branch
		pre := 0
		for i := 0; i < len(x.Points); i++ {
			p := x.Points[i]
			if i >= len(prefix) {
				for alt := 1; alt < p.N; alt++ {
					cost := pre
					if p.Thread && (p.Running || !cfg.FreeSwitch) {
						cost++
					}
					if cfg.Bound >= 0 && cost > cfg.Bound {
						continue
					}
					np := make([]int, i+1)
					fp := make([]uint32, i+1)
					for j := 0; j < i; j++ {
						np[j] = x.Points[j].Chosen
						fp[j] = x.Points[j].FP
					}
					np[i] = alt
					fp[i] = p.FP // the same state, another choice
					out = append(out, branch{np, fp})
				}
			}
			if p.Thread && (p.Running || !cfg.FreeSwitch) && p.Chosen != 0 {
				pre++
			}
		}
		return out
	}

	var dfs func(b branch)
	dfs = func(b branch) {
		prefix := b.choices
		if stop {
			return
		}
		if ctx.Expired() {
			stop = true
			us.Complete = false
			if execs == 0 {
				res.Cap("time cap hit before unit %s (and later units) started", sc.Name)
			} else {
				res.Cap("unit %s: time cap hit after %d executions in a shard (bound %s)", sc.Name, execs, us.Bound)
			}
			return
		}
		if cfg.MaxExecs > 0 && execs >= cfg.MaxExecs {
			stop = true
			us.Complete = false
			res.Cap("unit %s: execution cap %d hit in shard %d (bound %s)", sc.Name, cfg.MaxExecs, cfg.Shard, us.Bound)
			return
		}
		x := runOne(b, true)
		if x.Diverged != "" {
			return
		}
		for _, c := range children(x, prefix) {
			dfs(c)
		}
	}

	if ctx.Expired() {
		us.Complete = false
		res.Exhaustive = false
		for _, c := range res.Caps {
			if c == "time cap hit: some units not started" {
				return nil, false
			}
		}
		res.Caps = append(res.Caps, "time cap hit: some units not started")
		return nil, false
	}
	n := cfg.NShards
	if n <= 1 {
		dfs(branch{})
		us.Distinct = len(distinct)
		return racy(), needFresh
	}
	// level 0
	root := runOne(branch{}, cfg.Shard == 0)
	if root.Diverged != "" {
		return nil, needFresh
	}
	for _, c1 := range children(root, nil) {
		if stop {
			break
		}
		mine1 := leafIndex%int64(n) == int64(cfg.Shard)
		leafIndex++
		x1 := runOne(c1, mine1)
		if x1.Diverged != "" {
			continue
		}
		for _, c2 := range children(x1, c1.choices) {
			if leafIndex%int64(n) == int64(cfg.Shard) {
				dfs(c2)
			}
			leafIndex++
		}
	}
	us.Distinct = len(distinct)
	return racy(), needFresh
}

func yieldNames(sc *Scenario) []string {
	var out []string
	for n := range sc.Opt.YieldAt {
		out = append(out, n)
	}
	sort.Strings(out)
	return out
}

func trunc(s string, n int) string {
	if len(s) > n {
		return s[:n] + "…"
	}
	return s
}

// ---------------------------------------------------------------------------
// helpers for engines Q and E

// Mine reports whether item i belongs to this shard.
func (c *Ctx) Mine(i int64) bool {
	if c.NShards <= 1 {
		return true
	}
	return i%int64(c.NShards) == int64(c.Shard)
}

// Record accounts one evaluated case of a Q/E unit.
func (c *Ctx) Record(unit, engine string, obs string, nontrivial bool, states, transitions int64) {
	us := c.Res.unit(unit, engine)
	us.Evaluations++
	us.States += states
	us.Transitions += transitions
	c.Res.Evaluations++
	c.Res.States += states
	c.Res.Transitions += transitions
	h := Hash(unit, obs)
	c.Res.Outcomes[h]++
	if nontrivial {
		c.Res.NonTrivial[h] = true
	}
}

func (c *Ctx) Fail(unit, sig, msg string, input any, choices []int) {
	b, _ := json.Marshal(input)
	c.Res.AddFinding(&Finding{Unit: unit, Sig: sig, Msg: msg, Replay: Replay{Unit: unit, Input: b, Choices: choices}})
}

func (c *Ctx) Incomplete(unit string, format string, a ...any) {
	if u := c.Res.Units[unit]; u != nil {
		u.Complete = false
	}
	c.Res.Cap(format, a...)
}

func SortedKeys[V any](m map[string]V) []string {
	ks := make([]string, 0, len(m))
	for k := range m {
		ks = append(ks, k)
	}
	sort.Strings(ks)
	return ks
}

// ReplayScenario re-executes one recorded choice sequence of the named scenario with
// tracing on and returns its findings (with the schedule attached).
func ReplayScenario(scs []*Scenario, rp Replay) []*Finding {
	for _, sc := range scs {
		unit := strings.TrimSuffix(rp.Unit, "#race")
		if sc.Name+"#rev" == unit {
			rev := *sc
			rev.Name = unit
			rev.Opt.Policy = 1
			sc = &rev
		}
		if sc.Name != unit {
			continue
		}
		if unit != rp.Unit {
			rd := *sc
			rd.Name = rp.Unit
			rd.Opt.YieldAt = map[string]bool{}
			for _, n := range rp.YieldAt {
				rd.Opt.YieldAt[n] = true
			}
			sc = &rd
		}
		if PendingFresh != nil {
			runPending(sc)
		}
		x := RunOnceFP(sc, rp.Choices, rp.FPs, true)
		fs := StandardFindings(sc, x)
		if x.Diverged == "" {
			_, _, more := sc.Check(x)
			fs = append(fs, more...)
		}
		tr := x.DumpSchedule()
		for _, f := range fs {
			f.Unit = sc.Name
			f.Replay = Replay{Unit: sc.Name, Choices: rp.Choices, FPs: rp.FPs, Trace: tr, YieldAt: rp.YieldAt}
		}
		return fs
	}
	return []*Finding{{Sig: "BROKEN:unknown-unit", Msg: rp.Unit}}
}

// RunCase executes one case of a Q/E unit under the default schedule (or the given
// choices), accounts it, and records its findings with traced signatures.
func (c *Ctx) RunCase(unit, eng string, sc *Scenario, input any, choices []int) *vrt.Exec {
	x := RunOnce(sc, choices, false)
	fs := StandardFindings(sc, x)
	obs, nt := "", false
	if x.Diverged == "" {
		var more []*Finding
		obs, nt, more = sc.Check(x)
		fs = append(fs, more...)
	}
	in, _ := json.Marshal(input)
	c.Record(unit, eng, string(in)+"|"+obs, nt, int64(len(x.Points)+1), int64(x.Steps))
	if len(fs) > 0 {
		xt := RunOnceFP(sc, x.Choices(), x.Fingerprints(), true)
		fs = StandardFindings(sc, xt)
		if xt.Diverged == "" {
			_, _, more := sc.Check(xt)
			fs = append(fs, more...)
		}
		for _, f := range fs {
			f.Unit = unit
			f.Replay = Replay{Unit: unit, Input: in, Choices: x.Choices(), FPs: x.Fingerprints()}
			c.Res.AddFinding(f)
		}
	} else if len(c.Res.Samples) < 3 {
		c.Res.Sample(map[string]any{"unit": unit, "input": input, "observation": trunc(obs, 300)})
	}
	return x
}

// ReplayCase re-runs one recorded case with tracing.
func ReplayCase(unit string, sc *Scenario, rp Replay) []*Finding {
	sc.Name = unit
	return ReplayScenario([]*Scenario{sc}, rp)
}
