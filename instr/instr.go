// Package instr is the source-to-source instrumenter: it type-checks the target
// packages of /repo's *current working tree* and writes rewritten copies plus a
// `go build -overlay` file. /repo itself is never modified.
//
// Rewrites (all mechanical and type-directed):
//   - import "sync"                  -> verif/rt/vsync
//   - go statements                  -> vrt.Go
//   - channel send/recv/close/range/select -> vrt channel model
//   - time.Now/Since/Until/Sleep     -> vrt virtual clock
//   - net.Listen*/Dial*/Resolve*/Lookup*, net.TCPListener/TCPConn/UDPConn/Dialer,
//     transport.TCPDialer            -> vnet
//   - signal.Notify                  -> vrt.SignalNotify
//   - for-range over maps            -> sorted key order
//   - field / map / container-list accesses -> happens-before monitor calls
//   - package main: func main renamed, harness entry point injected
package instr

import (
	"bytes"
	"encoding/json"
	"fmt"
	"go/ast"
	"go/format"
	"go/importer"
	"go/parser"
	"go/token"
	"go/types"
	"io"
	"os"
	"os/exec"
	"path/filepath"
	"reflect"
	"sort"
	"strconv"
	"strings"
)

const (
	modPath = "github.com/Jigsaw-Code/outline-ss-server"
	vrtName = "__vrt"
	vnetName = "__vnet"
)

// DefaultTargets are the packages (relative to the module root) that are rewritten.
var DefaultTargets = []string{"internal/slicepool", "service", "service/metrics", "net", "prometheus", "ipinfo", "cmd/outline-ss-server"}

type Config struct {
	Repo    string   // /repo
	OutDir  string   // where rewritten files and overlay.json go
	Targets []string // package dirs relative to Repo
	HB      bool     // instrument memory accesses for the race monitor
	MainInject string // path of a Go file to add to package main (harness entry); optional
	Extra   map[string]string // extra overlay entries (repo-relative path -> replacement file), e.g. mutants
}

type listPkg struct {
	ImportPath string
	Dir        string
	Export     string
	GoFiles    []string
	Name       string
	Error      *struct{ Err string }
}

type Result struct {
	Overlay string
	Files   int
	Stats   map[string]int
}

func Run(cfg Config) (*Result, error) {
	if len(cfg.Targets) == 0 {
		cfg.Targets = DefaultTargets
	}
	if err := os.MkdirAll(cfg.OutDir, 0o755); err != nil {
		return nil, err
	}
	var pats []string
	for _, t := range cfg.Targets {
		pats = append(pats, "./"+t)
	}
	// A first overlay carrying only the Extra entries (mutants), so that the type-check sees them.
	extraOverlay := ""
	replaced := map[string]string{}
	if len(cfg.Extra) > 0 {
		ov := map[string]map[string]string{"Replace": {}}
		for rel, f := range cfg.Extra {
			ov["Replace"][filepath.Join(cfg.Repo, rel)] = f
			replaced[filepath.Join(cfg.Repo, rel)] = f
		}
		b, _ := json.Marshal(ov)
		extraOverlay = filepath.Join(cfg.OutDir, "extra-overlay.json")
		if err := os.WriteFile(extraOverlay, b, 0o644); err != nil {
			return nil, err
		}
	}
	args := []string{"list", "-export", "-deps", "-json=ImportPath,Dir,Export,GoFiles,Name,Error"}
	if extraOverlay != "" {
		args = append(args, "-overlay", extraOverlay)
	}
	args = append(args, pats...)
	cmd := exec.Command("go", args...)
	cmd.Dir = cfg.Repo
	cmd.Env = append(os.Environ(), "GOFLAGS=-mod=mod", "GOPROXY=off", "GOSUMDB=off", "GOTOOLCHAIN=local")
	var stderr bytes.Buffer
	cmd.Stderr = &stderr
	out, err := cmd.Output()
	if err != nil {
		return nil, fmt.Errorf("go list failed: %v\n%s", err, stderr.String())
	}
	exports := map[string]string{}
	pkgs := map[string]*listPkg{}
	dec := json.NewDecoder(bytes.NewReader(out))
	for dec.More() {
		var p listPkg
		if err := dec.Decode(&p); err != nil {
			return nil, err
		}
		if p.Error != nil {
			return nil, fmt.Errorf("go list: %s: %s", p.ImportPath, p.Error.Err)
		}
		exports[p.ImportPath] = p.Export
		pp := p
		pkgs[p.ImportPath] = &pp
	}
	targetSet := map[string]bool{}
	for _, t := range cfg.Targets {
		targetSet[modPath+"/"+t] = true
	}
	res := &Result{Stats: map[string]int{}}
	overlay := map[string]string{}
	for k, v := range replaced {
		overlay[k] = v
	}
	fset := token.NewFileSet()
	imp := importer.ForCompiler(fset, "gc", func(path string) (io.ReadCloser, error) {
		f, ok := exports[path]
		if !ok || f == "" {
			return nil, fmt.Errorf("no export data for %s", path)
		}
		return os.Open(f)
	})
	for _, t := range cfg.Targets {
		ip := modPath + "/" + t
		lp := pkgs[ip]
		if lp == nil {
			return nil, fmt.Errorf("package %s not listed", ip)
		}
		var files []*ast.File
		var paths []string
		for _, gf := range lp.GoFiles {
			full := filepath.Join(lp.Dir, gf)
			src := full
			if r, ok := replaced[full]; ok {
				src = r
			}
			f, err := parser.ParseFile(fset, src, nil, parser.ParseComments)
			if err != nil {
				return nil, err
			}
			files = append(files, f)
			paths = append(paths, full)
		}
		info := &types.Info{
			Types:      map[ast.Expr]types.TypeAndValue{},
			Uses:       map[*ast.Ident]types.Object{},
			Defs:       map[*ast.Ident]types.Object{},
			Selections: map[*ast.SelectorExpr]*types.Selection{},
			Implicits:  map[ast.Node]types.Object{},
		}
		conf := types.Config{Importer: imp, Error: func(err error) {}}
		tpkg, err := conf.Check(ip, fset, files, info)
		if err != nil {
			return nil, fmt.Errorf("type-check %s: %v", ip, err)
		}
		for i, f := range files {
			fr := &fileRewriter{cfg: &cfg, fset: fset, info: info, pkg: tpkg, file: f, targets: targetSet, stats: res.Stats, isMain: lp.Name == "main"}
			if err := fr.rewrite(); err != nil {
				return nil, fmt.Errorf("%s: %v", paths[i], err)
			}
			var buf bytes.Buffer
			if err := format.Node(&buf, fset, f); err != nil {
				return nil, fmt.Errorf("%s: format: %v", paths[i], err)
			}
			rel, _ := filepath.Rel(cfg.Repo, paths[i])
			outp := filepath.Join(cfg.OutDir, "src", rel)
			os.MkdirAll(filepath.Dir(outp), 0o755)
			if err := os.WriteFile(outp, buf.Bytes(), 0o644); err != nil {
				return nil, err
			}
			overlay[paths[i]] = outp
			res.Files++
		}
		if lp.Name == "main" && cfg.MainInject != "" {
			overlay[filepath.Join(lp.Dir, "zz_verif_main.go")] = cfg.MainInject
		}
	}
	ovb, _ := json.MarshalIndent(map[string]any{"Replace": overlay}, "", " ")
	res.Overlay = filepath.Join(cfg.OutDir, "overlay.json")
	if err := os.WriteFile(res.Overlay, ovb, 0o644); err != nil {
		return nil, err
	}
	return res, nil
}

// ---------------------------------------------------------------------------

type fileRewriter struct {
	cfg     *Config
	fset    *token.FileSet
	info    *types.Info
	pkg     *types.Package
	file    *ast.File
	targets map[string]bool
	stats   map[string]int
	isMain  bool
	tmp     int
	err     error

	lhs       map[ast.Expr]bool // expression is assigned to / inc-dec'd
	addrOf    map[ast.Expr]bool // operand of unary &
	skipField map[ast.Expr]bool // inner selector of a value-struct chain, or otherwise not to be wrapped
	recv2     map[*ast.UnaryExpr]bool
	sharedVar map[*types.Var]string // local variables captured by an escaping closure and written after declaration
	defLHS    map[*ast.Ident]bool   // identifiers on the left of := (cannot be wrapped)
	usedVrt, usedVnet bool
}

func (r *fileRewriter) fail(n ast.Node, format string, a ...any) {
	if r.err == nil {
		r.err = fmt.Errorf("%s: %s", r.fset.Position(n.Pos()), fmt.Sprintf(format, a...))
	}
}

func sel(pkg, name string) ast.Expr {
	return &ast.SelectorExpr{X: ast.NewIdent(pkg), Sel: ast.NewIdent(name)}
}
func call(fn ast.Expr, args ...ast.Expr) *ast.CallExpr { return &ast.CallExpr{Fun: fn, Args: args} }
func str(s string) ast.Expr                              { return &ast.BasicLit{Kind: token.STRING, Value: strconv.Quote(s)} }

func (r *fileRewriter) vrt(name string) ast.Expr  { r.usedVrt = true; return sel(vrtName, name) }
func (r *fileRewriter) vnet(name string) ast.Expr { r.usedVnet = true; return sel(vnetName, name) }

func unparen(e ast.Expr) ast.Expr {
	for {
		p, ok := e.(*ast.ParenExpr)
		if !ok {
			return e
		}
		e = p.X
	}
}

func (r *fileRewriter) rewrite() error {
	r.lhs = map[ast.Expr]bool{}
	r.addrOf = map[ast.Expr]bool{}
	r.skipField = map[ast.Expr]bool{}
	r.recv2 = map[*ast.UnaryExpr]bool{}
	f := r.file

	// pre-pass: contexts
	ast.Inspect(f, func(n ast.Node) bool {
		switch x := n.(type) {
		case *ast.AssignStmt:
			for _, l := range x.Lhs {
				r.lhs[unparen(l)] = true
			}
			if len(x.Lhs) == 2 && len(x.Rhs) == 1 {
				if u, ok := unparen(x.Rhs[0]).(*ast.UnaryExpr); ok && u.Op == token.ARROW {
					r.recv2[u] = true
				}
			}
		case *ast.ValueSpec:
			if len(x.Names) == 2 && len(x.Values) == 1 {
				if u, ok := unparen(x.Values[0]).(*ast.UnaryExpr); ok && u.Op == token.ARROW {
					r.recv2[u] = true
				}
			}
		case *ast.IncDecStmt:
			r.lhs[unparen(x.X)] = true
		case *ast.RangeStmt:
			if x.Tok == token.ASSIGN {
				if x.Key != nil {
					r.lhs[unparen(x.Key)] = true
				}
				if x.Value != nil {
					r.lhs[unparen(x.Value)] = true
				}
			}
		case *ast.UnaryExpr:
			if x.Op == token.AND {
				r.addrOf[unparen(x.X)] = true
			}
		case *ast.SelectorExpr:
			// a.b.c with b a struct value: the inner a.b is not an access of its own
			if s := r.info.Selections[x]; s != nil && s.Kind() == types.FieldVal {
				if inner, ok := unparen(x.X).(*ast.SelectorExpr); ok {
					if tv, ok := r.info.Types[inner]; ok {
						if _, isPtr := tv.Type.Underlying().(*types.Pointer); !isPtr {
							r.skipField[inner] = true
						}
					}
				}
			}
			// x.f.M() with M a method on a value/addressable field of struct type: leave receiver alone
			if s := r.info.Selections[x]; s != nil && s.Kind() == types.MethodVal {
				if inner, ok := unparen(x.X).(*ast.SelectorExpr); ok {
					if tv, ok := r.info.Types[inner]; ok {
						switch tv.Type.Underlying().(type) {
						case *types.Pointer, *types.Interface, *types.Signature, *types.Map, *types.Chan, *types.Slice:
						default:
							r.skipField[inner] = true
						}
					}
				}
			}
		case *ast.IndexExpr:
			// a.arr[i] with arr an array value: skip
			if inner, ok := unparen(x.X).(*ast.SelectorExpr); ok {
				if tv, ok := r.info.Types[inner]; ok {
					if _, isArr := tv.Type.Underlying().(*types.Array); isArr {
						r.skipField[inner] = true
					}
				}
			}
		}
		return true
	})

	if r.cfg.HB {
		r.findSharedVars()
	}

	// imports
	for _, im := range f.Imports {
		p, _ := strconv.Unquote(im.Path.Value)
		if p == "sync" {
			im.Path.Value = strconv.Quote("verif/rt/vsync")
			if im.Name == nil {
				im.Name = ast.NewIdent("sync")
			}
			r.stats["import_sync"]++
		}
		if p == "sync/atomic" {
			im.Path.Value = strconv.Quote("verif/rt/vatomic")
			if im.Name == nil {
				im.Name = ast.NewIdent("atomic")
			}
			r.stats["import_atomic"]++
		}
	}

	if r.isMain {
		for _, d := range f.Decls {
			if fd, ok := d.(*ast.FuncDecl); ok && fd.Recv == nil && fd.Name.Name == "main" {
				fd.Name = ast.NewIdent("__origMain")
			}
		}
	}

	w := &walker{expr: r.expr, stmt: r.stmt}
	w.walk(reflect.ValueOf(f))
	if r.err != nil {
		return r.err
	}

	// fix imports that became unused
	used := map[types.Object]bool{}
	ast.Inspect(f, func(n ast.Node) bool {
		if se, ok := n.(*ast.SelectorExpr); ok {
			if id, ok := se.X.(*ast.Ident); ok {
				if pn, ok := r.info.Uses[id].(*types.PkgName); ok {
					used[pn] = true
				}
			}
		}
		return true
	})
	for _, im := range f.Imports {
		if im.Name != nil && (im.Name.Name == "_" || im.Name.Name == ".") {
			continue
		}
		var obj types.Object
		if im.Name != nil {
			obj = r.info.Defs[im.Name]
		} else {
			obj = r.info.Implicits[im]
		}
		if obj == nil {
			continue
		}
		if !used[obj] {
			im.Name = ast.NewIdent("_")
		}
	}

	// add our imports
	var specs []ast.Spec
	var keep []ast.Decl
	if r.usedVrt {
		specs = append(specs, &ast.ImportSpec{Name: ast.NewIdent(vrtName), Path: &ast.BasicLit{Kind: token.STRING, Value: strconv.Quote("verif/rt/vrt")}})
	}
	if r.usedVnet {
		specs = append(specs, &ast.ImportSpec{Name: ast.NewIdent(vnetName), Path: &ast.BasicLit{Kind: token.STRING, Value: strconv.Quote("verif/rt/vnet")}})
	}
	if len(specs) > 0 {
		keep = append(keep, &ast.GenDecl{Tok: token.IMPORT, Lparen: 1, Specs: specs})
	}
	f.Decls = append(keep, f.Decls...)
	// comments confuse the printer once nodes move: drop free-floating comments, keep doc comments
	f.Comments = nil
	return nil
}

// ---------------------------------------------------------------------------
// reflective post-order walker

var (
	exprT = reflect.TypeOf((*ast.Expr)(nil)).Elem()
	stmtT = reflect.TypeOf((*ast.Stmt)(nil)).Elem()
	nodeT = reflect.TypeOf((*ast.Node)(nil)).Elem()
)

type walker struct {
	expr func(ast.Expr) ast.Expr
	stmt func(ast.Stmt) ast.Stmt
}

func (w *walker) walk(v reflect.Value) {
	switch v.Kind() {
	case reflect.Interface, reflect.Ptr:
		if v.IsNil() {
			return
		}
		w.walk(v.Elem())
	case reflect.Slice:
		for i := 0; i < v.Len(); i++ {
			w.field(v.Index(i))
		}
	case reflect.Struct:
		for i := 0; i < v.NumField(); i++ {
			f := v.Field(i)
			if !f.CanSet() {
				continue
			}
			switch v.Type().Field(i).Name {
			case "Obj", "Scope", "Unresolved", "Comments", "Doc", "Comment", "Imports":
				continue
			}
			w.field(f)
		}
	}
}

func (w *walker) field(f reflect.Value) {
	switch {
	case f.Type() == exprT:
		if f.IsNil() {
			return
		}
		w.walk(f)
		f.Set(reflect.ValueOf(w.expr(f.Interface().(ast.Expr))))
	case f.Type() == stmtT:
		if f.IsNil() {
			return
		}
		w.walk(f)
		f.Set(reflect.ValueOf(w.stmt(f.Interface().(ast.Stmt))))
	case f.Kind() == reflect.Slice || f.Kind() == reflect.Ptr || f.Kind() == reflect.Interface:
		if f.Kind() == reflect.Ptr && !f.Type().Implements(nodeT) {
			return
		}
		w.walk(f)
	}
}

// ---------------------------------------------------------------------------
// expression rules

func (r *fileRewriter) pkgFunc(e ast.Expr) (pkgPath, name string, ok bool) {
	se, ok2 := e.(*ast.SelectorExpr)
	if !ok2 {
		return
	}
	id, ok2 := se.X.(*ast.Ident)
	if !ok2 {
		return
	}
	pn, ok2 := r.info.Uses[id].(*types.PkgName)
	if !ok2 {
		return
	}
	return pn.Imported().Path(), se.Sel.Name, true
}

var netRedirect = map[string]bool{
	"Listen": true, "ListenTCP": true, "ListenUDP": true, "ListenPacket": true,
	"Dial": true, "DialTCP": true, "DialUDP": true, "DialTimeout": true,
	"ResolveTCPAddr": true, "ResolveUDPAddr": true, "ResolveIPAddr": true,
	"LookupHost": true, "LookupIP": true, "LookupAddr": true,
	"TCPListener": true, "TCPConn": true, "UDPConn": true, "Dialer": true, "ListenConfig": true,
	"FileConn": true, "FileListener": true, "FilePacketConn": true,
}

var timeRedirect = map[string]string{"Now": "Now", "Since": "Since", "Until": "Until", "Sleep": "Sleep"}
var timeForbidden = map[string]bool{"After": true, "AfterFunc": true, "NewTimer": true, "NewTicker": true, "Tick": true}

func (r *fileRewriter) expr(e ast.Expr) ast.Expr {
	switch x := e.(type) {
	case *ast.Ident:
		if r.cfg.HB {
			if g := r.globalAccess(x, x); g != nil {
				return g
			}
			return r.varAccess(x)
		}
	case *ast.UnaryExpr:
		if x.Op == token.ARROW {
			r.stats["recv"]++
			if r.recv2[x] {
				return call(r.vrt("Recv2"), x.X)
			}
			return call(r.vrt("Recv"), x.X)
		}
	case *ast.CallExpr:
		if id, ok := x.Fun.(*ast.Ident); ok {
			if b, ok := r.info.Uses[id].(*types.Builtin); ok {
				switch b.Name() {
				case "close":
					r.stats["close"]++
					return call(r.vrt("Close"), x.Args[0])
				case "delete":
					if r.cfg.HB {
						if nm, ok := r.sharedMapName(x.Args[0]); ok {
							x.Args[0] = call(r.vrt("MapW"), x.Args[0], str("map:"+nm))
						}
					}
				case "len":
					if r.cfg.HB {
						if nm, ok := r.sharedMapName(x.Args[0]); ok {
							x.Args[0] = call(r.vrt("MapR"), x.Args[0], str("map:"+nm))
						}
					}
				}
			}
		}
		// container/list method calls on shared lists
		if r.cfg.HB {
			if se, ok := x.Fun.(*ast.SelectorExpr); ok {
				if s := r.info.Selections[se]; s != nil && s.Kind() == types.MethodVal {
					if isListPtr(s.Recv()) {
						if nm, ok := r.fieldName(r.origOf(se.X)); ok {
							fn := "ObjR"
							switch se.Sel.Name {
							case "Len", "Front", "Back":
							default:
								fn = "ObjW"
							}
							se.X = call(r.vrt(fn), se.X, str(nm))
							r.stats["listop"]++
						}
					}
				}
			}
		}
	case *ast.SelectorExpr:
		if pkg, name, ok := r.pkgFunc(x); ok {
			if r.cfg.HB {
				if g := r.globalAccess(x.Sel, x); g != nil {
					return g
				}
			}
			switch {
			case pkg == "time" && timeRedirect[name] != "":
				r.stats["time"]++
				return r.vrt(timeRedirect[name])
			case pkg == "time" && timeForbidden[name]:
				r.fail(x, "time.%s is not supported by the controlled runtime", name)
			case pkg == "net" && netRedirect[name]:
				r.stats["net"]++
				return r.vnet(name)
			case strings.HasSuffix(pkg, "outline-sdk/transport") && (name == "TCPDialer" || name == "TCPEndpoint" || name == "UDPDialer" || name == "UDPEndpoint" || name == "UDPListener"):
				r.stats["net"]++
				return r.vnet(name)
			case pkg == "os/signal" && name == "Notify":
				return r.vrt("SignalNotify")
			case pkg == "os/signal":
				r.fail(x, "signal.%s is not supported", name)
			case pkg == "reflect" && (name == "Select"):
				r.fail(x, "reflect.Select is not supported")
			case pkg == "context" && name == "WithCancel":
				r.stats["ctx"]++
				return r.vrt("WithCancel")
			case pkg == "context" && name == "AfterFunc":
				r.stats["ctx"]++
				return r.vrt("AfterFunc")
			case pkg == "context" && (name == "WithTimeout" || name == "WithDeadline" || name == "WithCancelCause" || name == "WithTimeoutCause" || name == "WithDeadlineCause"):
				r.fail(x, "context.%s is not supported (real timers / cancellation the channel model cannot see)", name)
			}
			return e
		}
		if r.cfg.HB {
			return r.fieldAccess(x)
		}
	case *ast.IndexExpr:
		if r.cfg.HB {
			if nm, ok := r.sharedMapName(x.X); ok {
				fn := "MapR"
				if r.lhs[x] {
					fn = "MapW"
				}
				x.X = call(r.vrt(fn), x.X, str("map:"+nm))
				r.stats["mapop"]++
			}
		}
	}
	return e
}

// findSharedVars finds the local variables (and parameters) that are captured by a closure which
// may run on another goroutine or later (anything but a function literal that is called on the
// spot, "go func(){..}()" counting as another goroutine) and that are assigned somewhere after
// their declaration. Accesses to them are reported to the race monitor like field accesses
// (vrt.VarR / vrt.VarW), and are scheduling points in executions that ask for it.
func (r *fileRewriter) findSharedVars() {
	r.sharedVar = map[*types.Var]string{}
	r.defLHS = map[*ast.Ident]bool{}
	type lit struct {
		n        *ast.FuncLit
		escaping bool
	}
	captured := map[*types.Var]bool{}
	written := map[*types.Var]bool{}
	var stack []ast.Node
	var lits []lit
	var fn string
	ast.Inspect(r.file, func(n ast.Node) bool {
		if n == nil {
			top := stack[len(stack)-1]
			stack = stack[:len(stack)-1]
			if fl, ok := top.(*ast.FuncLit); ok && len(lits) > 0 && lits[len(lits)-1].n == fl {
				lits = lits[:len(lits)-1]
			}
			return true
		}
		switch x := n.(type) {
		case *ast.FuncDecl:
			fn = x.Name.Name
		case *ast.FuncLit:
			esc := true
			if len(stack) > 0 {
				if c, ok := stack[len(stack)-1].(*ast.CallExpr); ok && c.Fun == ast.Expr(x) {
					esc = false
					if len(stack) > 1 {
						if _, isGo := stack[len(stack)-2].(*ast.GoStmt); isGo {
							esc = true
						}
					}
				}
			}
			lits = append(lits, lit{x, esc})
		case *ast.AssignStmt:
			if x.Tok == token.DEFINE {
				for _, l := range x.Lhs {
					if id, ok := l.(*ast.Ident); ok {
						r.defLHS[id] = true
					}
				}
			}
		case *ast.Ident:
			v, ok := r.info.Uses[x].(*types.Var)
			if !ok || v.IsField() || v.Pkg() != r.pkg || v.Parent() == nil || v.Parent() == r.pkg.Scope() {
				break
			}
			if isSyncType(v.Type()) {
				break
			}
			if r.lhs[x] && !r.defLHS[x] {
				written[v] = true
			}
			for _, l := range lits {
				if l.escaping && (v.Pos() < l.n.Pos() || v.Pos() > l.n.End()) {
					captured[v] = true
					if _, seen := r.sharedVar[v]; !seen {
						r.sharedVar[v] = "var:" + fn + "." + v.Name()
					}
				}
			}
		}
		stack = append(stack, n)
		return true
	})
	for v := range r.sharedVar {
		if !captured[v] || !written[v] {
			delete(r.sharedVar, v)
		}
	}
}

// globalAccess: id names a package-level variable of a target package (written as e: the bare
// identifier, or pkg.Name from another package): the access is reported to the race monitor like a
// field access (name "global:pkg.Name"). Lazily initialised tables and caches live there.
func (r *fileRewriter) globalAccess(id *ast.Ident, e ast.Expr) ast.Expr {
	v, ok := r.info.Uses[id].(*types.Var)
	if !ok || v.IsField() || v.Pkg() == nil || v.Parent() != v.Pkg().Scope() || !r.targets[v.Pkg().Path()] {
		return nil
	}
	if r.addrOf[e] || isSyncType(v.Type()) {
		return nil
	}
	fn := "R"
	if r.lhs[e] {
		fn = "W"
	}
	r.stats["global"+fn]++
	return &ast.StarExpr{X: call(r.vrt(fn), &ast.UnaryExpr{Op: token.AND, X: e}, str("global:"+v.Pkg().Name()+"."+v.Name()))}
}

func (r *fileRewriter) varAccess(x *ast.Ident) ast.Expr {
	if len(r.sharedVar) == 0 || r.defLHS[x] || r.addrOf[x] {
		return x
	}
	v, ok := r.info.Uses[x].(*types.Var)
	if !ok {
		return x
	}
	nm, ok := r.sharedVar[v]
	if !ok {
		return x
	}
	fn := "VarR"
	if r.lhs[x] {
		fn = "VarW"
	}
	r.stats["var"+fn[3:]]++
	return &ast.StarExpr{X: call(r.vrt(fn), &ast.UnaryExpr{Op: token.AND, X: x}, str(nm))}
}

func isListPtr(t types.Type) bool {
	p, ok := t.(*types.Pointer)
	if !ok {
		return false
	}
	n, ok := p.Elem().(*types.Named)
	return ok && n.Obj().Pkg() != nil && n.Obj().Pkg().Path() == "container/list" && n.Obj().Name() == "List"
}

// origOf: fieldAccess may already have wrapped a selector into *vrt.R(&sel, name); find the selector again.
func (r *fileRewriter) origOf(e ast.Expr) ast.Expr {
	e = unparen(e)
	if st, ok := e.(*ast.StarExpr); ok {
		if c, ok := st.X.(*ast.CallExpr); ok && len(c.Args) == 2 {
			if u, ok := c.Args[0].(*ast.UnaryExpr); ok && u.Op == token.AND {
				return unparen(u.X)
			}
		}
	}
	return e
}

// fieldName returns "Type.field" if e is (or wraps) a selector of a field of a struct declared in a target package.
func (r *fileRewriter) fieldName(e ast.Expr) (string, bool) {
	se, ok := e.(*ast.SelectorExpr)
	if !ok {
		return "", false
	}
	s := r.info.Selections[se]
	if s == nil || s.Kind() != types.FieldVal {
		return "", false
	}
	v, ok := s.Obj().(*types.Var)
	if !ok || v.Pkg() == nil || !r.targets[v.Pkg().Path()] {
		return "", false
	}
	recv := s.Recv()
	if p, ok := recv.(*types.Pointer); ok {
		recv = p.Elem()
	}
	tn := "?"
	if n, ok := recv.(*types.Named); ok {
		tn = n.Obj().Name()
	}
	return tn + "." + v.Name(), true
}

// sharedMapName: e (possibly already wrapped) is a map-typed field selector.
func (r *fileRewriter) sharedMapName(e ast.Expr) (string, bool) {
	o := r.origOf(e)
	tv, ok := r.info.Types[o]
	if !ok {
		return "", false
	}
	if _, isMap := tv.Type.Underlying().(*types.Map); !isMap {
		return "", false
	}
	return r.fieldName(o)
}

func isSyncType(t types.Type) bool {
	if p, ok := t.(*types.Pointer); ok {
		t = p.Elem()
	}
	n, ok := t.(*types.Named)
	if !ok || n.Obj().Pkg() == nil {
		return false
	}
	pp := n.Obj().Pkg().Path()
	return pp == "sync" || pp == "sync/atomic" || pp == "verif/rt/vsync"
}

func (r *fileRewriter) fieldAccess(x *ast.SelectorExpr) ast.Expr {
	nm, ok := r.fieldName(x)
	if !ok {
		return x
	}
	if r.addrOf[x] || r.skipField[x] {
		return x
	}
	tv, ok := r.info.Types[x]
	if !ok || !tv.Addressable() {
		return x
	}
	if isSyncType(tv.Type) {
		return x
	}
	s := r.info.Selections[x]
	if len(s.Index()) > 1 {
		// promoted through embedding: keep simple, skip
		return x
	}
	fn := "R"
	if r.lhs[x] {
		fn = "W"
	}
	r.stats["field"+fn]++
	return &ast.StarExpr{X: call(r.vrt(fn), &ast.UnaryExpr{Op: token.AND, X: x}, str(nm))}
}

// ---------------------------------------------------------------------------
// statement rules

func (r *fileRewriter) stmt(s ast.Stmt) ast.Stmt {
	switch x := s.(type) {
	case *ast.SendStmt:
		r.stats["send"]++
		return &ast.ExprStmt{X: call(r.vrt("Send"), x.Chan, x.Value)}
	case *ast.GoStmt:
		r.stats["go"]++
		return r.goStmt(x)
	case *ast.SelectStmt:
		r.stats["select"]++
		return r.selectStmt(x)
	case *ast.RangeStmt:
		return r.rangeStmt(x)
	case *ast.LabeledStmt:
		// a label must stay attached to a for/switch/select: if we replaced the statement by a block, keep going
		return s
	}
	return s
}

func (r *fileRewriter) newTmp(prefix string) string {
	r.tmp++
	return fmt.Sprintf("__%s%d", prefix, r.tmp)
}

func (r *fileRewriter) goStmt(g *ast.GoStmt) ast.Stmt {
	c := g.Call
	if fl, ok := c.Fun.(*ast.FuncLit); ok && len(c.Args) == 0 {
		return &ast.ExprStmt{X: call(r.vrt("Go"), fl)}
	}
	blk := &ast.BlockStmt{}
	fun := c.Fun
	// evaluate the function value now unless it is a package-level function (or a literal)
	constFun := false
	switch f := unparen(c.Fun).(type) {
	case *ast.FuncLit:
		constFun = true
	case *ast.Ident:
		if _, ok := r.info.Uses[f].(*types.Func); ok {
			constFun = true
		}
	case *ast.SelectorExpr:
		if _, _, ok := r.pkgFunc(f); ok {
			constFun = true
		} else if id, ok := f.X.(*ast.Ident); ok && id.Name == vrtName || ok && id.Name == vnetName {
			constFun = true
		}
	case *ast.IndexExpr, *ast.IndexListExpr:
		constFun = true // generic instantiation
	}
	if !constFun {
		n := r.newTmp("f")
		blk.List = append(blk.List, &ast.AssignStmt{Lhs: []ast.Expr{ast.NewIdent(n)}, Tok: token.DEFINE, Rhs: []ast.Expr{fun}})
		fun = ast.NewIdent(n)
	}
	var args []ast.Expr
	for _, a := range c.Args {
		if tv, ok := r.info.Types[a]; ok && (tv.Value != nil || tv.IsNil()) {
			args = append(args, a)
			continue
		}
		if _, ok := a.(*ast.BasicLit); ok {
			args = append(args, a)
			continue
		}
		n := r.newTmp("a")
		blk.List = append(blk.List, &ast.AssignStmt{Lhs: []ast.Expr{ast.NewIdent(n)}, Tok: token.DEFINE, Rhs: []ast.Expr{a}})
		args = append(args, ast.NewIdent(n))
	}
	inner := &ast.CallExpr{Fun: fun, Args: args, Ellipsis: c.Ellipsis}
	blk.List = append(blk.List, &ast.ExprStmt{X: call(r.vrt("Go"), &ast.FuncLit{
		Type: &ast.FuncType{Params: &ast.FieldList{}},
		Body: &ast.BlockStmt{List: []ast.Stmt{&ast.ExprStmt{X: inner}}},
	})})
	return blk
}

// selectStmt: children were already rewritten, so comm statements contain vrt.Recv / vrt.Send calls.
func (r *fileRewriter) selectStmt(s *ast.SelectStmt) ast.Stmt {
	blk := &ast.BlockStmt{}
	sw := &ast.SwitchStmt{Body: &ast.BlockStmt{}}
	var caseVars []ast.Expr
	hasDef := false
	idx := 0
	isVrtCall := func(e ast.Expr, names ...string) (*ast.CallExpr, string) {
		c, ok := unparen(e).(*ast.CallExpr)
		if !ok {
			return nil, ""
		}
		se, ok := c.Fun.(*ast.SelectorExpr)
		if !ok {
			return nil, ""
		}
		id, ok := se.X.(*ast.Ident)
		if !ok || id.Name != vrtName {
			return nil, ""
		}
		for _, n := range names {
			if se.Sel.Name == n {
				return c, n
			}
		}
		return nil, ""
	}
	for _, cl := range s.Body.List {
		cc := cl.(*ast.CommClause)
		if cc.Comm == nil {
			hasDef = true
			sw.Body.List = append(sw.Body.List, &ast.CaseClause{List: []ast.Expr{&ast.BasicLit{Kind: token.INT, Value: "-1"}}, Body: cc.Body})
			continue
		}
		name := r.newTmp("c")
		var mk ast.Expr
		var pre []ast.Stmt
		switch cm := cc.Comm.(type) {
		case *ast.ExprStmt:
			c, fn := isVrtCall(cm.X, "Send", "Recv")
			if c == nil {
				r.fail(cc, "unsupported select clause")
				return s
			}
			if fn == "Send" {
				mk = call(r.vrt("SendCase"), c.Args[0], c.Args[1])
			} else {
				mk = call(r.vrt("RecvCase"), c.Args[0])
			}
		case *ast.AssignStmt:
			c, _ := isVrtCall(cm.Rhs[0], "Recv", "Recv2")
			if c == nil {
				r.fail(cc, "unsupported select clause")
				return s
			}
			mk = call(r.vrt("RecvCase"), c.Args[0])
			rhs := []ast.Expr{call(&ast.SelectorExpr{X: ast.NewIdent(name), Sel: ast.NewIdent("Val")})}
			if len(cm.Lhs) == 2 {
				rhs = append(rhs, call(&ast.SelectorExpr{X: ast.NewIdent(name), Sel: ast.NewIdent("Ok")}))
			}
			pre = append(pre, &ast.AssignStmt{Lhs: cm.Lhs, Tok: cm.Tok, Rhs: rhs})
			for _, l := range cm.Lhs {
				if id, ok := l.(*ast.Ident); ok && id.Name != "_" && cm.Tok == token.DEFINE {
					pre = append(pre, &ast.AssignStmt{Lhs: []ast.Expr{ast.NewIdent("_")}, Tok: token.ASSIGN, Rhs: []ast.Expr{ast.NewIdent(id.Name)}})
				}
			}
		default:
			r.fail(cc, "unsupported select clause")
			return s
		}
		blk.List = append(blk.List, &ast.AssignStmt{Lhs: []ast.Expr{ast.NewIdent(name)}, Tok: token.DEFINE, Rhs: []ast.Expr{mk}})
		caseVars = append(caseVars, ast.NewIdent(name))
		sw.Body.List = append(sw.Body.List, &ast.CaseClause{List: []ast.Expr{&ast.BasicLit{Kind: token.INT, Value: strconv.Itoa(idx)}}, Body: append(pre, cc.Body...)})
		idx++
	}
	// keep the rewritten statement a terminating statement
	sw.Body.List = append(sw.Body.List, &ast.CaseClause{Body: []ast.Stmt{&ast.ExprStmt{X: call(ast.NewIdent("panic"), str("vrt: bad select index"))}}})
	args := []ast.Expr{ast.NewIdent(strconv.FormatBool(hasDef))}
	args = append(args, caseVars...)
	sw.Tag = call(r.vrt("Select"), args...)
	blk.List = append(blk.List, sw)
	return blk
}

func (r *fileRewriter) rangeStmt(x *ast.RangeStmt) ast.Stmt {
	orig := r.origOf(x.X)
	// find the type of the ranged expression; x.X may have been rewritten, so look through wrappers
	var t types.Type
	if tv, ok := r.info.Types[orig]; ok {
		t = tv.Type
	} else if tv, ok := r.info.Types[x.X]; ok {
		t = tv.Type
	}
	if t == nil {
		return x
	}
	switch t.Underlying().(type) {
	case *types.Chan:
		r.stats["rangechan"]++
		// for v := range ch { body }  =>  for { v, ok := Recv2(ch); if !ok { break }; body }
		okName := r.newTmp("ok")
		var lhs ast.Expr = ast.NewIdent("_")
		tok := token.DEFINE
		if x.Key != nil {
			lhs = x.Key
			if x.Tok == token.ASSIGN {
				tok = token.ASSIGN
			}
		}
		var recvStmts []ast.Stmt
		if tok == token.ASSIGN {
			recvStmts = append(recvStmts,
				&ast.DeclStmt{Decl: &ast.GenDecl{Tok: token.VAR, Specs: []ast.Spec{&ast.ValueSpec{Names: []*ast.Ident{ast.NewIdent(okName)}, Type: ast.NewIdent("bool")}}}},
				&ast.AssignStmt{Lhs: []ast.Expr{lhs, ast.NewIdent(okName)}, Tok: token.ASSIGN, Rhs: []ast.Expr{call(r.vrt("Recv2"), x.X)}})
		} else {
			recvStmts = append(recvStmts, &ast.AssignStmt{Lhs: []ast.Expr{lhs, ast.NewIdent(okName)}, Tok: token.DEFINE, Rhs: []ast.Expr{call(r.vrt("Recv2"), x.X)}})
		}
		body := append(recvStmts, &ast.IfStmt{Cond: &ast.UnaryExpr{Op: token.NOT, X: ast.NewIdent(okName)}, Body: &ast.BlockStmt{List: []ast.Stmt{&ast.BranchStmt{Tok: token.BREAK}}}})
		body = append(body, x.Body.List...)
		return &ast.ForStmt{Body: &ast.BlockStmt{List: body}}
	case *types.Map:
		r.stats["rangemap"]++
		// for k, v := range m { body } => for _, k := range vrt.MapKeys(m) { v, ok := m[k]; if !ok { continue }; body }
		mexpr := x.X
		if nm, ok := r.sharedMapName(x.X); ok && r.cfg.HB {
			mexpr = call(r.vrt("MapR"), x.X, str("map:"+nm))
		}
		mName := r.newTmp("m")
		kName := r.newTmp("k")
		okName := r.newTmp("ok")
		pre := &ast.AssignStmt{Lhs: []ast.Expr{ast.NewIdent(mName)}, Tok: token.DEFINE, Rhs: []ast.Expr{mexpr}}
		var body []ast.Stmt
		isBlank := func(e ast.Expr) bool {
			if e == nil {
				return true
			}
			id, ok := e.(*ast.Ident)
			return ok && id.Name == "_"
		}
		idx := &ast.IndexExpr{X: ast.NewIdent(mName), Index: ast.NewIdent(kName)}
		vTmp := r.newTmp("v")
		body = append(body, &ast.AssignStmt{Lhs: []ast.Expr{ast.NewIdent(vTmp), ast.NewIdent(okName)}, Tok: token.DEFINE, Rhs: []ast.Expr{idx}})
		body = append(body, &ast.IfStmt{Cond: &ast.UnaryExpr{Op: token.NOT, X: ast.NewIdent(okName)}, Body: &ast.BlockStmt{List: []ast.Stmt{&ast.BranchStmt{Tok: token.CONTINUE}}}})
		body = append(body, &ast.AssignStmt{Lhs: []ast.Expr{ast.NewIdent("_")}, Tok: token.ASSIGN, Rhs: []ast.Expr{ast.NewIdent(vTmp)}})
		tok := x.Tok
		if tok == token.ILLEGAL {
			tok = token.DEFINE
		}
		if !isBlank(x.Key) {
			body = append(body, &ast.AssignStmt{Lhs: []ast.Expr{x.Key}, Tok: tok, Rhs: []ast.Expr{ast.NewIdent(kName)}})
			if tok == token.DEFINE {
				body = append(body, &ast.AssignStmt{Lhs: []ast.Expr{ast.NewIdent("_")}, Tok: token.ASSIGN, Rhs: []ast.Expr{x.Key}})
			}
		}
		if !isBlank(x.Value) {
			body = append(body, &ast.AssignStmt{Lhs: []ast.Expr{x.Value}, Tok: tok, Rhs: []ast.Expr{ast.NewIdent(vTmp)}})
			if tok == token.DEFINE {
				body = append(body, &ast.AssignStmt{Lhs: []ast.Expr{ast.NewIdent("_")}, Tok: token.ASSIGN, Rhs: []ast.Expr{x.Value}})
			}
		}
		body = append(body, x.Body.List...)
		loop := &ast.RangeStmt{Key: ast.NewIdent("_"), Value: ast.NewIdent(kName), Tok: token.DEFINE,
			X: call(r.vrt("MapKeys"), ast.NewIdent(mName)), Body: &ast.BlockStmt{List: body}}
		return &ast.BlockStmt{List: []ast.Stmt{pre, loop}}
	}
	return x
}

// SortedStats renders the rewrite counters.
func (res *Result) SortedStats() string {
	var ks []string
	for k := range res.Stats {
		ks = append(ks, k)
	}
	sort.Strings(ks)
	var b strings.Builder
	for _, k := range ks {
		fmt.Fprintf(&b, "%s=%d ", k, res.Stats[k])
	}
	return b.String()
}
